(* C08 — Fail-stop: a worker failure or termination signal ends the whole daemon. *)
From Coq Require Import String List Bool Arith.
Import ListNotations.
From AM Require Gen.Blocking.
From AM Require Import Model.Workers Proofs.WorkersLemmas.
Open Scope string_scope.

(* the wiring of cmd/namedpipe.go and main.go, as extracted from the current source *)
Theorem C08_wiring :
  Gen.Blocking.group_workers = ["sshd_ingester"; "audit_ingester"; "audit_processor"] /\
  Gen.Blocking.group_ctx_derived_from_root = true /\
  Gen.Blocking.group_wait_error_returned = true /\
  Gen.Blocking.group_fifo_checked = true /\
  Gen.Blocking.signals_cancel_root = true /\
  Gen.Blocking.main_fatal_on_error = true.
Proof. vm_compute. repeat split; reflexivity. Qed.
Print Assumptions C08_wiring.

(* the same obligation on the generated table as C13 *)
Theorem C08_rows_guarded :
  forallb row_guarded Gen.Blocking.blocking_rows = true /\
  forallb helper_ok Gen.Blocking.helper_rows = true.
Proof. vm_compute. split; reflexivity. Qed.
Print Assumptions C08_rows_guarded.

(* the daemon: errgroup over the workers that cmd/namedpipe.go starts *)
Definition daemon : list wdesc :=
  map (wdesc_of Gen.Blocking.blocking_rows Gen.Blocking.helper_rows) Gen.Blocking.group_workers.

(* From every reachable state s of the daemon (any worker running or blocked at any row of the
   table, e.g. the audit ingester blocked on the full line buffer):
   (1) a round in which a worker function returns an error (pipe EOF / read error, unparsable
       audit line, event write error, path not a FIFO) leaves the group context cancelled;
   (2) once the group context is cancelled (such a failure, or SIGTERM / SIGINT), every fair run
       has exited after cancel_bound K = 2K+4 daemon rounds (a round = each goroutine of each
       worker scheduled at least once, so at least one step per goroutine: linear in the number
       of workers), with status 1 whenever a worker function had failed. *)
Theorem C08_fail_stop : forall K s, dreach K daemon s ->
  (forall s1, dround daemon s s1 -> any_failed (d_ws s1) = true -> d_cancel s1 = true) /\
  (d_cancel s = true -> forall n s', cancel_bound K <= n -> drounds daemon n s s' ->
     exists st, exited s' = Some st /\ (any_failed (d_ws s) = true -> st = 1)).
Proof. exact (fail_stop_table _ _ _ C08_rows_guarded). Qed.
Print Assumptions C08_fail_stop.

(* Non-vacuity: three workers; a daemon whose workers have all returned, one of them with an
   error, has exited with status 1; with no error, status 0; with a live worker it has not exited. *)
Example C08_examples :
  length daemon = 3 /\
  exited (mkDst true [mkWst (Returned true) []; mkWst (Returned true) []; mkWst (Returned false) []]) = Some 1 /\
  exited (mkDst true [mkWst (Returned false) []; mkWst (Returned false) []; mkWst (Returned false) []]) = Some 0 /\
  exited (mkDst true [mkWst (Returned true) []; mkWst (Running 0) []; mkWst (Returned false) []]) = None.
Proof. vm_compute. repeat split; reflexivity. Qed.

(* ---------- the cancellation idioms of the pipe ingester, read from the source a second time ----------
   (see C13_ingest_setup_from_source: the set-up of Ingest as generated data; anything between the open
   and the reader that is not one of the recognised statements makes the generated file ill-typed) *)
From AM Require Import Model.IngestIR Gen.IngestProg Proofs.IngestIRTie.
Theorem C08_ingest_setup_from_source :
  open_is_cancellable (ip_setup gen_Ingest) = true /\ read_is_cancellable (ip_setup gen_Ingest) = true.
Proof. pose proof setup_from_source as H. tauto. Qed.
Print Assumptions C08_ingest_setup_from_source.

(* ================= main.go and the rest of the wiring, read from the source =================
   Gen/DaemonMain.v is REGENERATED on every run (tools/go2v/wiringgen.go): the function of main.go that builds
   the root context (signal.NotifyContext on context.Background() with which signals, stop deferred), hands it to
   cmd.RunNamedPipe and returns its error; func main INTERPRETED statement by statement for a non-nil and for a nil
   error of that function (log.Fatal* = status 1, os.Exit(n) = n, panic = 2, return / end of main = 0; anything else
   does not type-check); `go` statements and <group>.Go calls of packages main and cmd; flag defaults. *)
From AM Require Gen.DaemonMain Proofs.DaemonMainLemmas.

(* The status [exited] of Model/Workers.v (used by C08_fail_stop) is the status the source yields: non-zero iff a
   worker function returned an error.  The chain: eg.Wait()'s error is returned by RunNamedPipe (Gen/Blocking.v) and
   `return nil` follows only otherwise; the runner returns RunNamedPipe's error unchanged; func main turns a non-nil
   error into [exit_status_on_error] and nil into [exit_status_on_nil]. *)
Theorem C08_exit_status_from_source :
  (Gen.DaemonMain.exit_status_on_error <> 0 /\ Gen.DaemonMain.exit_status_on_nil = 0) /\
  (Gen.DaemonMain.run_error_returned = true /\ Gen.Blocking.group_wait_error_returned = true /\
   Gen.DaemonMain.run_returns_nil_at_end = true) /\
  (forall s st, exited s = Some st ->
     st = if any_failed (d_ws s) then Gen.DaemonMain.exit_status_on_error else Gen.DaemonMain.exit_status_on_nil) /\
  (forall s st, exited s = Some st -> (st <> 0 <-> any_failed (d_ws s) = true)).
Proof. exact Proofs.DaemonMainLemmas.exit_status_from_source. Qed.
Print Assumptions C08_exit_status_from_source.

(* SIGTERM (15) and SIGINT (2) cancel the root context, which is the context RunNamedPipe derives the group
   context from (so a signal is the [d_cancel] of a daemon round) *)
Theorem C08_signals_from_source :
  Gen.DaemonMain.root_ctx_ctor = "signal.NotifyContext" /\ Gen.DaemonMain.root_ctx_parent = "context.Background()" /\
  In 15 Gen.DaemonMain.root_signal_numbers /\ In 2 Gen.DaemonMain.root_signal_numbers /\
  Gen.DaemonMain.root_stop_deferred = true /\ Gen.DaemonMain.root_ctx_passed_to_run = true /\
  Gen.DaemonMain.run_args_plain = true /\ Gen.Blocking.group_ctx_derived_from_root = true.
Proof. exact Proofs.DaemonMainLemmas.signals_from_source. Qed.
Print Assumptions C08_signals_from_source.

(* every goroutine started in packages main and cmd goes through the errgroup (no `go` statement); RunNamedPipe's
   <group>.Go calls are exactly the three workers of [daemon]; the remaining ones are the optional workers *)
Theorem C08_goroutines_managed_from_source : Proofs.DaemonMainLemmas.goroutines_managed_ok = true.
Proof. exact Proofs.DaemonMainLemmas.goroutines_managed_from_source. Qed.
Print Assumptions C08_goroutines_managed_from_source.

(* ... and those need a flag whose default is "false": with default flags [daemon] is the whole errgroup *)
Theorem C08_optional_workers_off_by_default : forall f n fl, In (f, n, fl) Gen.DaemonMain.optional_workers ->
  fl <> [] /\ forall x d, In (x, d) fl -> d = "false".
Proof. exact Proofs.DaemonMainLemmas.optional_workers_off_by_default. Qed.
Print Assumptions C08_optional_workers_off_by_default.

(* the three default paths (two pipes, events file) are pairwise different *)
Theorem C08_default_paths_distinct :
  Gen.DaemonMain.sshd_pipe_default <> Gen.DaemonMain.audit_pipe_default /\
  Gen.DaemonMain.events_output_default <> Gen.DaemonMain.sshd_pipe_default /\
  Gen.DaemonMain.events_output_default <> Gen.DaemonMain.audit_pipe_default.
Proof. exact Proofs.DaemonMainLemmas.default_paths_distinct. Qed.
Print Assumptions C08_default_paths_distinct.

(* ---------- the three workers' closures, read from the source statement by statement ----------
   (Gen/WorkerBodies.v, normalised by Model/WorkerWiring.v.)  Each pipe worker first refuses a path that is not a
   named pipe and returns that error (wrapped, hence non-nil); every worker's result is the result of its entry
   method — Ingest / Read — called with the errgroup's context: a failure is neither swallowed nor replaced, so
   eg.Wait() sees it and the group context is cancelled for the siblings. *)
From AM Require Import Model.WorkerWiring Gen.WorkerBodies Proofs.WorkerWiringTie.
Theorem C08_worker_wiring_from_source : all_eq normalised expected = true.
Proof. exact worker_wiring_from_source. Qed.
Print Assumptions C08_worker_wiring_from_source.

Theorem C08_workers_return_their_errors :
  guards_eq (guards_of 0) [(WCall "common.IsNamedPipe" [WVar "sshdLogFilePath"], true)] = true /\
  guards_eq (guards_of 1) [(WCall "common.IsNamedPipe" [WVar "auditdLogFilePath"], true)] = true /\
  guards_of 2 = [] /\
  forallb (fun i => match ret_of i with Some (WMethod (WLit _ _ _) m _) => String.eqb m "Ingest" || String.eqb m "Read" | _ => false end)
          [0; 1; 2] = true.
Proof. exact workers_return_their_errors. Qed.
Print Assumptions C08_workers_return_their_errors.

Theorem C08_workers_run_on_group_context :
  forallb (fun i => match ret_of i with Some (WMethod _ _ [WVar "groupCtx"]) => true | _ => false end) [0; 1; 2] = true /\
  opt_weq (bind_opt (bind_opt (bind_opt (ret_of 0) recv_of) (field_of "SshdProcessor")) (field_of "ctx")) (WVar "groupCtx") = true /\
  resolve_shared gen_shared "groupCtx" = Some (WResult (WCall "errgroup.WithContext" [WVar "ctx"]) 1) /\
  resolve_shared gen_shared "eg" = Some (WResult (WCall "errgroup.WithContext" [WVar "ctx"]) 0).
Proof. exact workers_run_on_group_context. Qed.
Print Assumptions C08_workers_run_on_group_context.

(* ---------- the audit line parser stops at once when its context is done, even with lines waiting ----------
   (the saturated-stream case of this property.)  Gen/AuditProg.v is regenerated on every run from
   parseAuditLogs; interpreted by Model/AuditIR.v: when the context is done, the loop returns ctx.Err() — whether
   the cancellation is seen by the select or a line is already waiting in the buffer (the check at the top of every
   iteration comes first) — and consumes nothing.  So Read's deferred join (stop the parser, wait for it) cannot be
   held up by a buffer the ingester keeps full. *)
From AM Require Model.AuditProc Model.AuditIR Gen.AuditProg Proofs.AuditIRTie.
Section ParserStops.
  Import Model.AuditProc Model.AuditIR Gen.AuditProg Proofs.AuditIRTie.
  Variables line msg event cerr login AS : Type.
  Variable is_empty : line -> bool.
  Variable parse : line -> option msg.
  Variable mseq : msg -> BinNums.N.
  Variable mtype : msg -> nat.
  Variable coalesce : list msg -> option event.
  Variable old : event -> bool.
  Variable audit : AS -> event -> AS * option cerr.
  Variable rlogin : AS -> login -> AS * option cerr.
  Variables csess clogins : AS -> tmv -> AS.
  Variable dur : BinNums.Z -> nat.

  Theorem C08_parser_returns_on_cancel : forall lim b (p : pst line msg event cerr AS),
    parse_iter_gen line msg event cerr login AS is_empty parse mseq mtype coalesce old audit rlogin csess clogins dur
                   gen_audit lim (EvCancel line login b) p = Some (p, Some (Some (XCtx line msg cerr))).
  Proof. exact (parse_cancel_from_source line msg event cerr login AS is_empty parse mseq mtype coalesce old audit rlogin csess clogins dur). Qed.

  Theorem C08_parser_returns_on_cancel_with_lines_waiting : forall lim now l (p : pst line msg event cerr AS),
    parse_iter_gen line msg event cerr login AS is_empty parse mseq mtype coalesce old audit rlogin csess clogins dur
                   gen_audit lim (EvLineCancelled line login now l) p = Some (p, Some (Some (XCtx line msg cerr))).
  Proof. exact (parse_line_after_cancel_from_source line msg event cerr login AS is_empty parse mseq mtype coalesce old audit rlogin csess clogins dur). Qed.
End ParserStops.
Print Assumptions C08_parser_returns_on_cancel.
Print Assumptions C08_parser_returns_on_cancel_with_lines_waiting.

(* ---------- the optional workers (-metrics, -healthz, -audit-metrics), read from the source ----------
   Gen/OptWorkers.v is REGENERATED on every run from cmd/cmd.go.  For EVERY valuation of the flags: the HTTP
   server's two goroutines exist exactly when -metrics or -healthz is given; "serve" returns ListenAndServe's error to
   the errgroup (a failure to listen ends the daemon), "stop" waits for the group context and then shuts that same
   server down (which makes ListenAndServe return); the audit.log ticker exists exactly with -audit-metrics and is a
   select loop whose ctx.Done() arm returns and whose other arm can neither block nor leave the loop. *)
From AM Require Import Model.OptWorkers Gen.OptWorkers Proofs.OptWorkersTie.
Theorem C08_http_server_goroutines_from_source : forall fl : flags,
  option_map goroutines (effects fl gen_handleMetricsAndHealth) =
  Some (if fl "enableMetrics"%string || fl "enableHealthz"%string then [g_serve; g_stop] else []).
Proof. exact server_goroutines_from_source. Qed.
Print Assumptions C08_http_server_goroutines_from_source.

Theorem C08_audit_metrics_ticker_from_source : forall fl : flags,
  match option_map goroutines (effects fl gen_handleAuditLogMetrics) with
  | Some gs => if fl "enableAuditMetrics"%string then exists g, gs = [g] /\ is_ticker_loop g = true else gs = []
  | None => False
  end.
Proof. exact audit_metrics_from_source. Qed.
Print Assumptions C08_audit_metrics_ticker_from_source.

(* ================= errgroup and its derived context: a machine, not a stated rule =================
   Model/Errgroup.v is golang.org/x/sync/errgroup v0.4.0 (the version /repo/go.mod pins; Go, Wait, done, WithContext -
   SetLimit / TryGo / the semaphore are not used by /repo and are left out) as a concurrent small-step machine: the caller
   (Go f_0; ..; Go f_(n-1); Wait) and one goroutine per Go, one atomic step per shared-memory access / synchronisation
   operation, the worker functions and the parent context's cancellation as environment events.  A script gives the number of
   workers and what each worker function returns; a schedule is a list of thread ids (TC caller, TG i goroutine i, TF i
   "f_i returns", TX "the parent is cancelled"); [exec sc sched] is the configuration (state, trace - newest event first)
   after the schedule.  Everything below is for EVERY script and EVERY schedule.  The model is tied to the real library on
   every run by stage errgroup (harness/errgroup, Model/ErrgroupCheck.v). *)
From Coq Require Import Lia.
From AM Require Import Model.Errgroup Proofs.ErrgroupLemmas Model.ErrgroupDaemon Proofs.ErrgroupWorkers.

(* 1a. g.err is written at most once and the Once body is entered at most once; the value of g.err is the error returned
   by the worker function of the goroutine that entered the Once body *)
Theorem C08_errgroup_err_written_once : forall sc sched,
  let s := fst (exec sc sched) in let tr := snd (exec sc sched) in
  List.length (filter is_write tr) <= 1 /\ List.length (filter is_enter tr) <= 1 /\
  (s_err s = None -> filter is_write tr = []) /\
  (forall e, s_err s = Some e ->
     exists j w, filter is_enter tr = [EvEnter j] /\ filter is_write tr = [EvWrite j e] /\
                 In (EvRet j (Some e)) tr /\ nth_error sc j = Some w /\ w_res w = Some e).
Proof. exact err_written_once. Qed.
Print Assumptions C08_errgroup_err_written_once.

(* 1b. no data race on g.err, as an ordering on the trace: a write of g.err by goroutine i comes before that goroutine's
   wg.Done; wg.Wait observes 0 only after the wg.Done of every goroutine; Wait's two reads of g.err (for cancel and for
   return) come after wg.Wait observed 0; hence no read of g.err comes before any write *)
Theorem C08_errgroup_err_race_free : forall sc sched, let tr := snd (exec sc sched) in
  (forall i e, never_before (EvDone i) (EvWrite i e) tr) /\
  (forall i, i < List.length sc -> precedes (EvDone i) EvWaitPass tr) /\
  (forall r, is_read r = true -> precedes EvWaitPass r tr) /\
  (forall i e r, is_read r = true -> never_before r (EvWrite i e) tr).
Proof. exact err_race_free. Qed.
Print Assumptions C08_errgroup_err_race_free.

(* wg.Done never finds the counter at zero ("sync: negative WaitGroup counter" is an explicit outcome of the machine) *)
Theorem C08_errgroup_no_panic : forall sc sched i, s_g (fst (exec sc sched)) i <> GPanic.
Proof. exact no_panic. Qed.
Print Assumptions C08_errgroup_no_panic.

(* 3. Wait returns only after every goroutine started before it ran wg.Done - i.e. after every worker function returned:
   each goroutine is finished, its Done and its function's return are in the trace, in that order, before wg.Wait passed -;
   it returns nil iff every worker function returned nil, otherwise the error of the worker whose goroutine won the Once;
   the group context is cancelled by then in any case.
   "The first non-nil error" of the library's documentation is first in the order of ENTERING errOnce.Do, which need not be
   the order in which the functions returned (C08_errgroup_first_means_once_order below). *)
Theorem C08_errgroup_wait : forall sc sched r,
  let s := fst (exec sc sched) in let tr := snd (exec sc sched) in
  wait_result s = Some r ->
  (forall i w, nth_error sc i = Some w -> s_g s i = GExit (w_res w) /\ In (EvDone i) tr /\ In (EvRet i (w_res w)) tr) /\
  (forall i, i < List.length sc -> precedes (EvDone i) EvWaitPass tr) /\
  (forall i, each_occ (EvDone i) (fun l => exists x, In (EvRet i x) l) tr) /\
  (r = None <-> forall i w, nth_error sc i = Some w -> w_res w = None) /\
  (forall e, r = Some e -> exists j w, filter is_enter tr = [EvEnter j] /\ nth_error sc j = Some w /\ w_res w = Some e) /\
  s_ctx s <> None.
Proof. exact wait_returns. Qed.
Print Assumptions C08_errgroup_wait.

(* two failing workers; f_0 returns (error 1) BEFORE f_1 (error 2), but goroutine 1 reaches errOnce.Do first: goroutine 0
   blocks on the running Once, then skips it; Wait returns error 2 and that is the context's cause *)
Definition two_failing : script := [mkW false (Some 1); mkW false (Some 2)].
Definition once_order_schedule : list tid :=
  [TC; TC; TC; TC; TF 0; TF 1; TG 1; TG 0; TG 1; TG 1; TG 1; TG 1; TG 0; TG 0; TC; TC; TC].
Example C08_errgroup_first_means_once_order :
  let c := exec two_failing once_order_schedule in
  wait_result (fst c) = Some (Some 2) /\ s_ctx (fst c) = Some (CErr 2) /\
  filter (fun e => match e with EvRet _ _ | EvEnter _ | EvSkip _ => true | _ => false end) (rev (snd c)) =
    [EvRet 0 (Some 1); EvRet 1 (Some 2); EvEnter 1; EvSkip 0] /\
  (* ... and goroutine 0 was blocked while goroutine 1 ran the Once body *)
  act two_failing (fst (exec two_failing [TC; TC; TC; TC; TF 0; TF 1; TG 1])) (TG 0) = None.
Proof. vm_compute. repeat split; reflexivity. Qed.

(* 2c / 4a. "some worker function returned non-nil => within a bounded number of fair rounds the group context is
   cancelled": from ANY state of any execution in which a worker function has returned a non-nil error, three fair rounds
   (a round = the caller and every goroutine of the group scheduled at least once, any order, anything in between) leave
   the context cancelled *)
Theorem C08_errgroup_cancel_fair : forall sc sched i e c',
  g_ret (s_g (fst (exec sc sched)) i) = Some (Some e) -> erounds sc 3 (exec sc sched) c' -> s_ctx (fst c') <> None.
Proof. exact cancel_fair. Qed.
Print Assumptions C08_errgroup_cancel_fair.

(* 5 / 4b. deadlock freedom of the group: from every state of every execution in which all worker functions have returned,
   nine fair rounds bring Wait to return (the Once never blocks for ever, the counter reaches 0) *)
Theorem C08_errgroup_deadlock_free : forall sc sched c',
  allret sc (fst (exec sc sched)) -> erounds sc 9 (exec sc sched) c' -> wait_result (fst c') <> None.
Proof. exact deadlock_free. Qed.
Print Assumptions C08_errgroup_deadlock_free.

(* the hypotheses are met by a run in which one of three workers fails: its error cancels the context, the two workers
   that wait for the context then return ctx.Err() (numbered 0), and a fair continuation ends in Wait returning that error *)
Definition daemon_like : script := [mkW true (Some 0); mkW false (Some 7); mkW true (Some 0)].
Definition daemon_like_schedule : list tid :=
  [TC; TC; TC; TC; TC; TC; TF 0; TF 1; TG 1; TG 1; TG 1; TF 0; TF 2].
Example C08_errgroup_deadlock_free_example :
  s_ctx (fst (exec daemon_like [TC; TC; TC; TC; TC; TC; TF 0; TF 1; TG 1; TG 1])) = None /\
  s_ctx (fst (exec daemon_like daemon_like_schedule)) = Some (CErr 7) /\
  allret daemon_like (fst (exec daemon_like daemon_like_schedule)) /\
  (let round := [TG 2; TC; TG 0; TG 1] in
   efair daemon_like round /\
   wait_result (fst (run daemon_like (exec daemon_like daemon_like_schedule) (round ++ round ++ round ++ round ++ round ++ round))) =
     Some (Some 7)).
Proof.
  split; [vm_compute; reflexivity|]. split; [vm_compute; reflexivity|]. split.
  - intros i L. simpl in L. destruct i as [|[|[|i]]]; [vm_compute; discriminate..|lia].
  - split; [|vm_compute; reflexivity]. split; [simpl; auto|].
    intros i L. simpl in L. destruct i as [|[|[|i]]]; simpl; auto. lia.
Qed.

(* ---------- 4. REFINEMENT: Workers.v's rule about errgroup is a theorem about the machine ----------
   Model/ErrgroupDaemon.v runs the workers of Model/Workers.v as the worker functions of the errgroup machine: goroutine i
   is inside f_i exactly as long as worker i's function has not returned ([coupled]); a composite round [cround] = a round of
   every worker under the machine's current context value, then "f_i returns" for the worker functions that have returned
   (a signal may arrive), then three fair rounds of the group's own threads.
   (a) Simulation: every composite round is a [dround] of Workers.v - in particular a failed worker function or an earlier
       cancellation leaves the context cancelled at the end of the round, which is exactly what [dround] STATES -, so every
       reachable composite state projects to a reachable state of Workers.v's daemon. *)
Theorem C08_errgroup_round_is_dround : forall ds sc, plain sc -> forall s c s' c',
  Inv sc c -> coupled sc s c -> cround ds sc (s, c) (s', c') ->
  dround ds s s' /\ Inv sc c' /\ coupled sc s' c'.
Proof. exact cround_dround. Qed.
Print Assumptions C08_errgroup_round_is_dround.

Theorem C08_errgroup_daemon_simulation : forall K (sc : script), List.length sc = List.length daemon -> plain sc ->
  forall x, creach K daemon sc x -> dreach K daemon (fst x) /\ Inv sc (snd x) /\ coupled sc (fst x) (snd x).
Proof. intros K sc. exact (creach_sound K daemon sc). Qed.
Print Assumptions C08_errgroup_daemon_simulation.

(* (b) [exited]: when every worker function has returned, eg.Wait() returns within nine fair rounds of the group's threads,
       with a non-nil error iff some worker function failed (= the status [exited] computes) *)
Theorem C08_errgroup_daemon_exit : forall (sc : script) s c c',
  Inv sc c -> coupled sc s c -> all_returned (d_ws s) = true -> erounds sc 9 c c' ->
  exists r, wait_result (fst c') = Some r /\ is_some r = any_failed (d_ws s).
Proof. exact coupled_exit. Qed.
Print Assumptions C08_errgroup_daemon_exit.

(* (c) C08_fail_stop for the daemon WITH the errgroup machine inside: from every reachable state,
   (1) a round in which a worker function returns an error leaves the machine's group context cancelled;
   (2) once it is cancelled, after cancel_bound K composite rounds every worker function has returned, and nine more fair
       rounds of the group's threads later Wait has returned - non-nil iff a worker function failed, non-nil in particular
       if one had failed when the context was found cancelled. *)
Theorem C08_errgroup_daemon_fail_stop : forall K (sc : script), List.length sc = List.length daemon -> plain sc ->
  forall x, creach K daemon sc x ->
    (forall y, cround daemon sc x y -> any_failed (d_ws (fst y)) = true -> ctx_done (snd y) = true) /\
    (ctx_done (snd x) = true -> forall n y, cancel_bound K <= n -> crounds daemon sc n x y ->
       all_returned (d_ws (fst y)) = true /\
       forall c', erounds sc 9 (snd y) c' ->
         exists r, wait_result (fst c') = Some r /\ is_some r = any_failed (d_ws (fst y)) /\
                   (any_failed (d_ws (fst x)) = true -> is_some r = true)).
Proof.
  intros K sc L HP. apply (errgroup_fail_stop K daemon sc L HP).
  apply table_descs_ok; apply C08_rows_guarded.
Qed.
Print Assumptions C08_errgroup_daemon_fail_stop.

(* the hypotheses are satisfiable: a script for the three workers of [daemon] (the second one fails), and the composite's
   initial state - the caller has executed its three Go statements, every goroutine is inside its worker function, the
   context is live - is reachable and coupled *)
Example C08_errgroup_daemon_nonvacuous :
  let sc := [mkW false None; mkW false (Some 5); mkW false None] in
  List.length sc = List.length daemon /\ plain sc /\
  (forall K, creach K daemon sc (dinit K daemon, cstart sc) /\ coupled sc (dinit K daemon) (cstart sc)) /\
  s_c (fst (cstart sc)) = CWait /\ s_cnt (fst (cstart sc)) = 3 /\
  map (s_g (fst (cstart sc))) [0; 1; 2; 3] = [GF; GF; GF; GNot].
Proof.
  split; [vm_compute; reflexivity|]. split.
  - intros w [<-|[<-|[<-|[]]]]; reflexivity.
  - split; [|vm_compute; repeat split; reflexivity].
    intros K. split; [constructor|]. apply coupled_start. vm_compute. reflexivity.
Qed.

(* the comparator of the correspondence stage (Model/ErrgroupCheck.v) on three scripts: what the model says the harness must
   observe (finished goroutines, Wait's result, cause of the group context) after each operation *)
From AM Require Import Model.ErrgroupCheck.
Example C08_errgroup_check_three_workers :
  model_obs [(false, Some 2); (false, None); (true, Some 0)] [ORel 1; OWait; ORel 2; ORel 0] =
  [EObs 1 None None; EObs 1 None None; EObs 1 None None; EObs 3 (Some (Some 2)) (Some 2)].
Proof. vm_compute. reflexivity. Qed.

Example C08_errgroup_check_all_nil :
  model_obs [(false, None); (false, None)] [ORel 0; ORel 1; OWait] =
  [EObs 1 None None; EObs 2 None None; EObs 2 (Some None) (Some 0)].
Proof. vm_compute. reflexivity. Qed.

Example C08_errgroup_check_parent_first :
  model_obs [(true, Some 0); (false, Some 3)] [ORel 0; OPar; OWait; ORel 1] =
  [EObs 0 None None; EObs 1 None (Some 1); EObs 1 None (Some 1); EObs 2 (Some (Some 0)) (Some 1)].
Proof. vm_compute. reflexivity. Qed.
