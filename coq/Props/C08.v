(* C08 — Fail-stop: a worker failure or termination signal ends the whole daemon. *)
From Coq Require Import String List Bool Arith.
Import ListNotations.
From AM Require Gen.Blocking.
From AM Require Import Model.Workers Proofs.WorkersLemmas.
Open Scope string_scope.

(* the wiring of cmd/namedpipe.go and main.go, as extracted from the current source *)
Theorem C08_wiring :
  Gen.Blocking.group_workers = ["sshd_ingester"; "audit_ingester"; "audit_processor"] /\
  Gen.Blocking.group_ctx_derived_from_root = true /\
  Gen.Blocking.group_wait_error_returned = true /\
  Gen.Blocking.group_fifo_checked = true /\
  Gen.Blocking.signals_cancel_root = true /\
  Gen.Blocking.main_fatal_on_error = true.
Proof. vm_compute. repeat split; reflexivity. Qed.
Print Assumptions C08_wiring.

(* the same obligation on the generated table as C13 *)
Theorem C08_rows_guarded :
  forallb row_guarded Gen.Blocking.blocking_rows = true /\
  forallb helper_ok Gen.Blocking.helper_rows = true.
Proof. vm_compute. split; reflexivity. Qed.
Print Assumptions C08_rows_guarded.

(* the daemon: errgroup over the workers that cmd/namedpipe.go starts *)
Definition daemon : list wdesc :=
  map (wdesc_of Gen.Blocking.blocking_rows Gen.Blocking.helper_rows) Gen.Blocking.group_workers.

(* From every reachable state s of the daemon (any worker running or blocked at any row of the
   table, e.g. the audit ingester blocked on the full line buffer):
   (1) a round in which a worker function returns an error (pipe EOF / read error, unparsable
       audit line, event write error, path not a FIFO) leaves the group context cancelled;
   (2) once the group context is cancelled (such a failure, or SIGTERM / SIGINT), every fair run
       has exited after cancel_bound K = 2K+4 daemon rounds (a round = each goroutine of each
       worker scheduled at least once, so at least one step per goroutine: linear in the number
       of workers), with status 1 whenever a worker function had failed. *)
Theorem C08_fail_stop : forall K s, dreach K daemon s ->
  (forall s1, dround daemon s s1 -> any_failed (d_ws s1) = true -> d_cancel s1 = true) /\
  (d_cancel s = true -> forall n s', cancel_bound K <= n -> drounds daemon n s s' ->
     exists st, exited s' = Some st /\ (any_failed (d_ws s) = true -> st = 1)).
Proof. exact (fail_stop_table _ _ _ C08_rows_guarded). Qed.
Print Assumptions C08_fail_stop.

(* Non-vacuity: three workers; a daemon whose workers have all returned, one of them with an
   error, has exited with status 1; with no error, status 0; with a live worker it has not exited. *)
Example C08_examples :
  length daemon = 3 /\
  exited (mkDst true [mkWst (Returned true) []; mkWst (Returned true) []; mkWst (Returned false) []]) = Some 1 /\
  exited (mkDst true [mkWst (Returned false) []; mkWst (Returned false) []; mkWst (Returned false) []]) = Some 0 /\
  exited (mkDst true [mkWst (Returned true) []; mkWst (Running 0) []; mkWst (Returned false) []]) = None.
Proof. vm_compute. repeat split; reflexivity. Qed.

(* ---------- the cancellation idioms of the pipe ingester, read from the source a second time ----------
   (see C13_ingest_setup_from_source: the set-up of Ingest as generated data; anything between the open
   and the reader that is not one of the recognised statements makes the generated file ill-typed) *)
From AM Require Import Model.IngestIR Gen.IngestProg Proofs.IngestIRTie.
Theorem C08_ingest_setup_from_source :
  open_is_cancellable (ip_setup gen_Ingest) = true /\ read_is_cancellable (ip_setup gen_Ingest) = true.
Proof. pose proof setup_from_source as H. tauto. Qed.
Print Assumptions C08_ingest_setup_from_source.
