(* C19 — Every emitted UserLogin is counted once, under the matching outcome. *)
From Coq Require Import Ascii String List Bool Arith ZArith NArith.
Import ListNotations.
From AM Require Import Lib.Bytes Lib.Regex Gen.SshdDispatch Model.SshdProc Proofs.SshdGeneral.
Open Scope string_scope.
Open Scope list_scope.

(* For EVERY line and pid token: if an event e is emitted, the remote-logins counter is
   incremented exactly once, under the outcome label matching e's outcome; the method is
   "password" for accepted-password lines and a key or certificate method for
   accepted-publickey lines.  (The increments made by the dispatch switch are GENERATED from
   the source; those inside three handlers are hand-modelled and tied by correspondence.) *)
Theorem C19_counted : forall c tok line wok ready e,
  r_writes (process c tok line wok ready) = [e] ->
  exists l, r_metrics (process c tok line wok ready) = [l] /\ label_ok e l /\
    (has_prefix (s2l "Accepted password") line = true -> fst l = "PasswordLogin") /\
    (has_prefix (s2l "Accepted publickey") line = true -> fst l = "SSHKeyLogin" \/ fst l = "SSHCertLogin").
Proof. exact dispatch_counted. Qed.
Print Assumptions C19_counted.

(* Lines that do not begin with a recognised keyword change no counter. *)
Theorem C19_no_keyword : forall c tok line wok ready,
  has_keyword line = false -> r_metrics (process c tok line wok ready) = [].
Proof. exact no_keyword_no_metric. Qed.
Print Assumptions C19_no_keyword.

Example C19_example :
  let c := {| c_node := s2l "n"; c_mid := s2l "m" |} in
  r_metrics (process c (s2l "5") (s2l "Accepted password for bob from 1.2.3.4 port 22 ssh2") true true)
  = [("PasswordLogin", "Success")] /\
  r_metrics (process c (s2l "5") (s2l "ROOT LOGIN REFUSED FROM 1.2.3.4 port 22") true true)
  = [("UnknownLogin", "Failure")].
Proof. vm_compute. split; reflexivity. Qed.
