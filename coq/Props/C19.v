(* C19 — Every emitted UserLogin is counted once, under the matching outcome. *)
From Coq Require Import Ascii String List Bool Arith ZArith NArith.
Import ListNotations.
From AM Require Import Lib.Bytes Lib.Regex Gen.SshdDispatch Model.SshdProc Proofs.SshdGeneral.
From AM Require Import Gen.SshdDispatch Gen.SshdHandlers Model.SshdSketch Proofs.SshdHandlersTie.
Open Scope string_scope.
Open Scope list_scope.

(* For EVERY line and pid token: if an event e is emitted, the remote-logins counter is
   incremented exactly once, under the outcome label matching e's outcome; the method is
   "password" for accepted-password lines and a key or certificate method for
   accepted-publickey lines.  (The increments made by the dispatch switch are GENERATED from
   the source; those inside three handlers are hand-modelled and tied by correspondence.) *)
Theorem C19_counted : forall c tok line wok ready e,
  r_writes (process c tok line wok ready) = [e] ->
  exists l, r_metrics (process c tok line wok ready) = [l] /\ label_ok e l /\
    (has_prefix (s2l "Accepted password") line = true -> fst l = "PasswordLogin") /\
    (has_prefix (s2l "Accepted publickey") line = true -> fst l = "SSHKeyLogin" \/ fst l = "SSHCertLogin").
Proof. exact dispatch_counted. Qed.
Print Assumptions C19_counted.

(* Lines that do not begin with a recognised keyword change no counter. *)
Theorem C19_no_keyword : forall c tok line wok ready,
  has_keyword line = false -> r_metrics (process c tok line wok ready) = [].
Proof. exact no_keyword_no_metric. Qed.
Print Assumptions C19_no_keyword.

Example C19_example :
  let c := {| c_node := s2l "n"; c_mid := s2l "m" |} in
  r_metrics (process c (s2l "5") (s2l "Accepted password for bob from 1.2.3.4 port 22 ssh2") true true)
  = [("PasswordLogin", "Success")] /\
  r_metrics (process c (s2l "5") (s2l "ROOT LOGIN REFUSED FROM 1.2.3.4 port 22") true true)
  = [("UnknownLogin", "Failure")].
Proof. vm_compute. split; reflexivity. Qed.

(* ---------- the handlers of the model are the handlers of the source ----------
   Gen/SshdHandlers.v is REGENERATED on every run by symbolic evaluation of each handler's Go body
   (which capture group / constant / processor field feeds which event field, outcome, metric calls,
   whether and with which credential the login is handed on).  For the 18 handlers that have a
   sketch, the hand-written handler of Model/SshdProc.v IS the interpretation of that sketch; the
   two without a flat sketch (public key: three branches; invalid certificate: no regex) are covered
   by the decision-tree form below. *)
Theorem C19_handlers_from_source : forall h hs, handler_sketch h = Some hs ->
  forall c tok line wok ready, run_sketch hs c tok line wok ready = Some (run_handler h c tok line wok ready).
Proof. exact run_sketch_is_run_handler. Qed.
Print Assumptions C19_handlers_from_source.

Theorem C19_handlers_without_sketch : forall h, handler_sketch h = None ->
  h = h_processAcceptPublicKeyEntry \/ h = h_processCertificateInvalidEntry.
Proof. exact sketch_coverage. Qed.
Print Assumptions C19_handlers_without_sketch.

(* All 20 handlers: the hand-written handler IS the interpretation [run_generated] of the decision tree that
   go2v regenerates from the handler's Go body on every run (Gen/SshdHandlers.v: [handler_prog]); this
   includes the three-branch public-key handler (second regex on the rest of the line, slice start
   len(match)+1 with its panic guard) and the invalid-certificate handler (reason = line from the length
   of the prefix literal on, fallback text). *)
Theorem C19_all_handlers_from_source : forall h c tok line wok ready,
  run_generated h c tok line wok ready = Some (run_handler h c tok line wok ready).
Proof. exact all_handlers_from_source. Qed.
Print Assumptions C19_all_handlers_from_source.

(* ---------- one increment of the model is one increment of the counter ----------
   Gen/EntryMetrics.v is REGENERATED on every run from internal/metrics: IncLogins(loginType, outcome) is
   the single statement remoteLogins.WithLabelValues(loginType, outcome).Inc() — label "method" fed by the
   first argument, "outcome" by the second, increment 1, nothing cached in between — on the registered
   counter remote_logins_total; the LoginType / OutcomeType constants have pairwise distinct values, so
   identifying a label by the constant's NAME (as the model and the dispatch table do) is sound; and every
   label the model uses is one of those constants. *)
From AM Require Import Gen.EntryMetrics Model.EntryMetricsIR Proofs.EntryMetricsTie.
Theorem C19_inc_logins_from_source : forall login_type outcome,
  inc_effect gen_inc_logins gen_vectors [login_type; outcome]
  = Some ("audito_maldito", "remote_logins_total", [("method", login_type); ("outcome", outcome)], 1).
Proof. exact inc_logins_from_source. Qed.
Print Assumptions C19_inc_logins_from_source.

Theorem C19_label_names_determined_by_values :
  (forall n1 n2 v, In (n1, v) login_type_values -> In (n2, v) login_type_values -> n1 = n2) /\
  (forall n1 n2 v, In (n1, v) outcome_type_values -> In (n2, v) outcome_type_values -> n1 = n2).
Proof. exact label_names_determined_by_values. Qed.
Print Assumptions C19_label_names_determined_by_values.

(* the entry point: each call of ProcessSshdLogEntry runs ProcessEntry ONCE on the record handed over (a retry loop, a
   second call, a guard are not understood by the generator): the counters move once per line and event *)
Theorem C19_entry_from_source : forall pid msg, entry_args gen_entry (pid, msg) = Some (pid, msg).
Proof. exact entry_from_source. Qed.
Print Assumptions C19_entry_from_source.

Theorem C19_entry_context_is_callers : en_lookup "ctx" (en_config gen_entry) = Some FromCtxParam.
Proof. exact entry_context_is_callers. Qed.
Print Assumptions C19_entry_context_is_callers.

(* the body of ProcessSshdLogEntry is ONE call of ProcessEntry on a fresh per-line configuration whose result is
   returned: no guard / early return, loop, defer, derived context or write to the long-lived processor (the generator
   has no form for them: the generated file would not type-check) *)
Theorem C19_entry_single_call :
  en_callee gen_entry = "ProcessEntry" /\ en_result_returned gen_entry = true /\
  map fst (en_config gen_entry) = ["ctx"; "logins"; "logEntry"; "nodeName"; "machineID"; "when"; "pid"; "eventW"; "metrics"] /\
  en_lookup "when" (en_config gen_entry) = Some FromTimeNow.
Proof. exact entry_single_call. Qed.
Print Assumptions C19_entry_single_call.

(* The long-lived processor (struct SshdProcessorer, NewSshdProcessor; regenerated on every run) has no field beyond
   those the per-line configuration sets afresh for every line, is built by a single return of that struct from the
   constructor's parameters, and is the only implementation of the entry point in its package: no state is carried
   from one line to the next, so identical lines (sshd prints them: every wrong password on one connection) are
   processed identically. *)
Theorem C19_processor_keeps_no_state :
  ct_fields gen_constructor = map fst (en_config gen_entry) /\
  ct_entry_impls gen_constructor = ["SshdProcessorer"] /\
  ct_result gen_constructor = "SshdProcessor" /\
  map fst (ct_inits gen_constructor) = ["ctx"; "logins"; "nodeName"; "machineID"; "eventW"; "metrics"].
Proof. exact processor_keeps_no_state. Qed.
Print Assumptions C19_processor_keeps_no_state.

(* ---------- the message the processor is given is the syslog line's own text ----------
   Gen/PureFuncs.v is REGENERATED on every run by translating the Go bodies of SyslogIngester.ParseSyslogMessage and of
   the argument preparation in SyslogIngester.Process into Gallina over executable models of the strings package
   (Lib/GoStrings.v; None = the operation panics).  The hand-written [parse] / [process_line] of Model/Syslog.v ARE those
   translations, for every line: the record is split at the first blank run after the PID token and nothing in the
   message is collapsed, decoded, unescaped or otherwise rewritten on its way to the processor (a call of any function
   the translator does not know makes the generated file ill-typed and re-opens these obligations). *)
From AM Require Import Lib.GoStrings Gen.PureFuncs Proofs.PureFuncsTie Model.Syslog.
Theorem C19_parse_from_source : forall e,
  option_map entry_pair (gen_parse_syslog_message e) = Some (Syslog.parse e).
Proof. exact parse_syslog_from_source_pair. Qed.
Print Assumptions C19_parse_from_source.

Theorem C19_process_line_from_source : forall line,
  option_map entry_pair (gen_process_line line) = Some (process_line line).
Proof. exact process_line_from_source. Qed.
Print Assumptions C19_process_line_from_source.


(* ====================================================================================================
   What arrives on the pipes is what the processors are handed (round 7).
   C19 is a statement about what the DAEMON emits for the records written to its pipes; the theorems above
   start at the record the processor is handed.  The reader between the two - NamedPipeIngester.Ingest, the
   wrappers of the two ingesters and their Process callbacks - is regenerated into Gen/IngestProg.v on every
   run; the statements below (proved in Proofs/IngestIRTie.v, restated here so that they are obligations of
   C19) say that for every chunking of the pipe's byte stream each newline-terminated record is handed to
   the callback exactly once, in order, with exactly its bytes (Model/Framing.v [ingest], about which C12's
   theorems are proved), that the pipe is opened read-only (so the last writer's close is end-of-stream and an
   unterminated tail is never joined to a later writer's bytes), and what the callback does with the
   record.  Any edit of the reader changes the generated program and these stop checking.
   ==================================================================================================== *)
From Coq Require Import Ascii String List.
From AM Require Import Model.Framing Model.IngestIR Gen.IngestProg Proofs.IngestIRTie.
Import ListNotations.
Open Scope string_scope.
Open Scope list_scope.
Open Scope nat_scope.

Theorem C19_records_reach_processor_unchanged : forall cs cb,
  run_ingest gen_Ingest cs (ascii_of_nat (wr_delim gen_auditlog_Ingest)) cb = Some (ingest cs newline cb) /\
  run_ingest gen_Ingest cs (ascii_of_nat (wr_delim gen_syslog_Ingest)) cb = Some (ingest cs newline cb).
Proof. exact wrapped_ingest_from_source. Qed.
Print Assumptions C19_records_reach_processor_unchanged.

(* the reader's statements: ReadString with the caller's delimiter, the line handed on as it was read *)
Theorem C19_pipe_reader_loop_from_source :
  ip_loop gen_Ingest = [
    IReadString "line" "err" DParam;
    IIf (CErrNotNil "err") [ILog "Errorf"; IReturn (EVar "err")] [];
    ICallback (TAssign "err") (SVar "line");
    IIf (CErrNotNil "err") [IReturn (EVar "err")] []].
Proof. exact loop_shape_from_source. Qed.
Print Assumptions C19_pipe_reader_loop_from_source.

(* the set-up: read-only open in a goroutine with a cancellable wait, errors returned unchanged, the file closed
   on cancellation and on return, the reader reads that file *)
Theorem C19_pipe_open_from_source :
  (exists i j, index_of is_onready (ip_setup gen_Ingest) = Some i /\
               index_of is_open (ip_setup gen_Ingest) = Some j /\ i < j) /\
  In (SOnReady "named-pipe-processor") (ip_setup gen_Ingest) /\
  In (SGoOpen "file" "err" ["O_RDONLY"] "ModeNamedPipe" "ready") (ip_setup gen_Ingest) /\
  In (SSelect [SArmDone ECtxErr; SArmRecv "ready"]) (ip_setup gen_Ingest) /\
  open_is_cancellable (ip_setup gen_Ingest) = true /\
  In (SIfErrReturn "err" (EVar "err")) (ip_setup gen_Ingest) /\
  In (SGoCloseOnCancel "file") (ip_setup gen_Ingest) /\
  read_is_cancellable (ip_setup gen_Ingest) = true /\
  In (SDeferClose "file") (ip_setup gen_Ingest) /\
  In (SNewReader "r" "file") (ip_setup gen_Ingest).
Proof. exact setup_from_source. Qed.
Print Assumptions C19_pipe_open_from_source.

(* sshd pipe: the callback removes exactly one trailing newline, the rest goes to ParseSyslogMessage and on to
   SshdProcessor.ProcessSshdLogEntry, whose error is returned unchanged; for a record as Ingest delivers it
   that is the record's body *)
Theorem C19_sshd_record_reaches_processor :
  gen_syslog_Process =
  {| pr_line := "line";
     pr_body := PParseAndProcess "ParseSyslogMessage" (STrimLit [10] (SVar "line"))
                                 "SshdProcessor" "ProcessSshdLogEntry" |} /\
  forall b, trim_suffix (map ascii_of_nat [10]) (b ++ [newline]) = b.
Proof. exact (conj syslog_process_from_source syslog_process_gets_body). Qed.
Print Assumptions C19_sshd_record_reaches_processor.
