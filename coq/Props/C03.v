(* C03 — Correlation is atomic under concurrent logins, audit events and cleanup. *)
From Coq Require Import List Bool Arith ZArith NArith.
Import ListNotations.
From AM Require Import Model.Tracker Model.TrackerConc Proofs.TrackerConcLemmas.
From AM Require Gen.TrackerLocks.
From AM Require Gen.SyncMapLocks Proofs.SyncMapLemmas.

(* GENERATED from sessiontracker.go: every exported method of the correlator starts with
   o.mtx.Lock(); defer o.mtx.Unlock() on one and the same mutex — each call is one critical
   section.  (On a tree where a method loses the lock this obligation fails.) *)
Theorem C03_calls_are_critical_sections : Gen.TrackerLocks.tracker_calls_locked = true.
Proof. vm_compute. reflexivity. Qed.
Print Assumptions C03_calls_are_critical_sections.

(* GENERATED from internal/common/genericsyncmap.go and every call site in the module: each method of
   the shared map is one critical section on the map's single mutex (Lock; defer Unlock; nothing else
   touches the mutex), except the ones named ...Unsafe, and every call of those happens inside a
   locked callback (Iterate / WithLockedValueDo) of the same map or inside a locked method.  This is
   the "one map call = one atomic block" granularity the model of TrackerConc uses. *)
Theorem C03_syncmap_methods_atomic : Gen.SyncMapLocks.syncmap_single_mutex = true /\
  forall m b, In (m, b) Gen.SyncMapLocks.syncmap_api -> b = true \/ Gen.SyncMapLocks.ends_with_unsafe m = true.
Proof. exact Proofs.SyncMapLemmas.syncmap_methods_atomic. Qed.
Print Assumptions C03_syncmap_methods_atomic.

Theorem C03_syncmap_unsafe_calls_hold_lock : forall site m b,
  In (site, m, b) Gen.SyncMapLocks.syncmap_unsafe_calls -> b = true.
Proof. exact Proofs.SyncMapLemmas.syncmap_unsafe_calls_hold_lock. Qed.
Print Assumptions C03_syncmap_unsafe_calls_hold_lock.

(* For EVERY system of threads (any number of threads, any calls) and EVERY schedule at
   lock-acquisition granularity: a complete execution under the correlator-wide mutex leaves
   exactly the state and the written events of the sequential execution of the same calls in
   the order in which they began, and that order respects every thread's program order. *)
Theorem C03_linearizable : forall (progs : list (list top)) (sched : list nat),
  let s := exec true progs sched in
  all_done s = true ->
  (s_state s, s_out s) = seq_run (s_order s) /\
  (forall i, i < length progs -> calls_of i (s_order s) = nth i progs []).
Proof. exact locked_linearizable. Qed.
Print Assumptions C03_linearizable.

(* ... and at every intermediate point the observable state is that of a sequential prefix,
   the last call possibly still in progress. *)
Theorem C03_prefix_sequential : forall progs sched,
  pending (exec true progs sched) = seq_run (s_order (exec true progs sched)).
Proof. exact locked_prefix_sequential. Qed.
Print Assumptions C03_prefix_sequential.

(* No delivery deadlocks: in every reachable state some unfinished thread can take a step. *)
Theorem C03_deadlock_free : forall progs sched,
  let s := exec true progs sched in all_done s = false -> exists i, enabled s i.
Proof. exact locked_deadlock_free. Qed.
Print Assumptions C03_deadlock_free.

(* The blocks of a call, run without interruption, are exactly the sequential step of C01-C09:
   the concurrent model and the sequential model are about the same correlator. *)
Theorem C03_blocks_compose : forall o st, finish (prog_of o) st = tstep st o.
Proof. exact finish_prog. Qed.
Print Assumptions C03_blocks_compose.

(* Why the mutex is needed (the defect found on the pinned tree): WITHOUT it the same
   lock-granularity decomposition is not linearizable — a login and the LOGIN record it matches
   are both left waiting for each other, nothing is emitted, while every sequential order of the
   same three calls emits two events. *)
Theorem C03_unlocked_not_linearizable :
  let s := exec false w_progs w_sched in
  all_done s = true /\
  s_out s = [] /\ length (sess (s_state s)) = 1 /\ length (parked (s_state s)) = 1 /\
  forall order, In order (ileave (tag 0 (nth 0 w_progs [])) (tag 1 (nth 1 w_progs []))) ->
    length (snd (seq_run order)) = 2.
Proof. exact unlocked_not_linearizable. Qed.
Print Assumptions C03_unlocked_not_linearizable.

(* ---------- the correlator of the model is the correlator of the source ----------
   Gen/TrackerProg.v is REGENERATED on every run by translating sessiontracker.go (RemoteLogin,
   AuditdEvent with both of its branches, the two cleanups, writeAndClearCache, the map operations
   they perform, deferred deletes, early returns and error classes) into a small deep-embedded
   language (Model/TrackerIR.v).  For EVERY state and EVERY operation the hand-written [tstep] of
   Model/Tracker.v, on which the theorems of this file rest, IS the interpretation of the generated
   programs, and that interpretation never gets stuck. *)
From AM Require Model.TrackerIR Gen.TrackerProg Proofs.TrackerIRTie.
Theorem C03_tracker_from_source : forall st o,
  Proofs.TrackerIRTie.run_generated st o = Some (Model.Tracker.tstep st o).
Proof. exact Proofs.TrackerIRTie.tracker_from_source. Qed.
Print Assumptions C03_tracker_from_source.
