(* C03 — Correlation is atomic under concurrent logins, audit events and cleanup. *)
From Coq Require Import List Bool Arith ZArith NArith.
Import ListNotations.
From AM Require Import Model.Tracker Model.TrackerConc Proofs.TrackerConcLemmas.
From AM Require Gen.TrackerLocks.
From AM Require Gen.SyncMapLocks Proofs.SyncMapLemmas.

(* GENERATED from sessiontracker.go: every exported method of the correlator starts with
   o.mtx.Lock(); defer o.mtx.Unlock() on one and the same mutex — each call is one critical
   section.  (On a tree where a method loses the lock this obligation fails.) *)
Theorem C03_calls_are_critical_sections : Gen.TrackerLocks.tracker_calls_locked = true.
Proof. vm_compute. reflexivity. Qed.
Print Assumptions C03_calls_are_critical_sections.

(* GENERATED from internal/common/genericsyncmap.go and every call site in the module: each method of
   the shared map is one critical section on the map's single mutex (Lock; defer Unlock; nothing else
   touches the mutex), except the ones named ...Unsafe, and every call of those happens inside a
   locked callback (Iterate / WithLockedValueDo) of the same map or inside a locked method.  This is
   the "one map call = one atomic block" granularity the model of TrackerConc uses. *)
Theorem C03_syncmap_methods_atomic : Gen.SyncMapLocks.syncmap_single_mutex = true /\
  forall m b, In (m, b) Gen.SyncMapLocks.syncmap_api -> b = true \/ Gen.SyncMapLocks.ends_with_unsafe m = true.
Proof. exact Proofs.SyncMapLemmas.syncmap_methods_atomic. Qed.
Print Assumptions C03_syncmap_methods_atomic.

Theorem C03_syncmap_unsafe_calls_hold_lock : forall site m b,
  In (site, m, b) Gen.SyncMapLocks.syncmap_unsafe_calls -> b = true.
Proof. exact Proofs.SyncMapLemmas.syncmap_unsafe_calls_hold_lock. Qed.
Print Assumptions C03_syncmap_unsafe_calls_hold_lock.

(* For EVERY system of threads (any number of threads, any calls) and EVERY schedule at
   lock-acquisition granularity: a complete execution under the correlator-wide mutex leaves
   exactly the state and the written events of the sequential execution of the same calls in
   the order in which they began, and that order respects every thread's program order. *)
Theorem C03_linearizable : forall (progs : list (list top)) (sched : list nat),
  let s := exec true progs sched in
  all_done s = true ->
  (s_state s, s_out s) = seq_run (s_order s) /\
  (forall i, i < length progs -> calls_of i (s_order s) = nth i progs []).
Proof. exact locked_linearizable. Qed.
Print Assumptions C03_linearizable.

(* ... and at every intermediate point the observable state is that of a sequential prefix,
   the last call possibly still in progress. *)
Theorem C03_prefix_sequential : forall progs sched,
  pending (exec true progs sched) = seq_run (s_order (exec true progs sched)).
Proof. exact locked_prefix_sequential. Qed.
Print Assumptions C03_prefix_sequential.

(* No delivery deadlocks: in every reachable state some unfinished thread can take a step. *)
Theorem C03_deadlock_free : forall progs sched,
  let s := exec true progs sched in all_done s = false -> exists i, enabled s i.
Proof. exact locked_deadlock_free. Qed.
Print Assumptions C03_deadlock_free.

(* The blocks of a call, run without interruption, are exactly the sequential step of C01-C09:
   the concurrent model and the sequential model are about the same correlator. *)
Theorem C03_blocks_compose : forall o st, finish (prog_of o) st = tstep st o.
Proof. exact finish_prog. Qed.
Print Assumptions C03_blocks_compose.

(* Why the mutex is needed (the defect found on the pinned tree): WITHOUT it the same
   lock-granularity decomposition is not linearizable — a login and the LOGIN record it matches
   are both left waiting for each other, nothing is emitted, while every sequential order of the
   same three calls emits two events. *)
Theorem C03_unlocked_not_linearizable :
  let s := exec false w_progs w_sched in
  all_done s = true /\
  s_out s = [] /\ length (sess (s_state s)) = 1 /\ length (parked (s_state s)) = 1 /\
  forall order, In order (ileave (tag 0 (nth 0 w_progs [])) (tag 1 (nth 1 w_progs []))) ->
    length (snd (seq_run order)) = 2.
Proof. exact unlocked_not_linearizable. Qed.
Print Assumptions C03_unlocked_not_linearizable.

(* ---------- the correlator of the model is the correlator of the source ----------
   Gen/TrackerProg.v is REGENERATED on every run by translating sessiontracker.go (RemoteLogin,
   AuditdEvent with both of its branches, the two cleanups, writeAndClearCache, the map operations
   they perform, deferred deletes, early returns and error classes) into a small deep-embedded
   language (Model/TrackerIR.v).  For EVERY state and EVERY operation the hand-written [tstep] of
   Model/Tracker.v, on which the theorems of this file rest, IS the interpretation of the generated
   programs, and that interpretation never gets stuck. *)
From AM Require Model.TrackerIR Gen.TrackerProg Proofs.TrackerIRTie.
Theorem C03_tracker_from_source : forall st o,
  Proofs.TrackerIRTie.run_generated st o = Some (Model.Tracker.tstep st o).
Proof. exact Proofs.TrackerIRTie.tracker_from_source. Qed.
Print Assumptions C03_tracker_from_source.

(* ---------- what the methods of the shared map DO, read from the source ----------
   Gen/SyncMapProg.v is REGENERATED on every run from the bodies of the GenericSyncMap methods
   (internal/common/genericsyncmap.go), statement by statement; Model/SyncMapIR.v interprets them over association
   lists, with Go's unspecified iteration order as an explicit argument.  Each method is exactly one operation of
   Lib/Assoc.v — the operations the correlator model and its generated programs are written with — for every key,
   value, map, callback and enumeration order. *)
From Coq Require Import String.
From AM Require Import Lib.Assoc Model.SyncMapIR Gen.SyncMapProg Proofs.SyncMapIRTie.
Theorem C03_syncmap_methods_from_source :
  forall (K V E : Type) (eqb : K -> K -> bool), (forall a b, reflect (a = b) (eqb a b)) ->
  let run := run_method K V E eqb gen_syncmap_methods in
  ctor_map K V gen_syncmap_ctor = [] /\
  (forall k m, run [] [] "Load"%string [VKey k] m = Some (m, [VVal (aget eqb k m); VBool (ahas eqb k m)])) /\
  (forall k m, run [] [] "Has"%string [VKey k] m = Some (m, [VBool (ahas eqb k m)])) /\
  (forall k v m, run [] [] "Store"%string [VKey k; VVal (Some v)] m = Some (aset eqb k v m, [])) /\
  (forall k m, run [] [] "Delete"%string [VKey k] m = Some (adel eqb k m, [])) /\
  (forall k m, run [] [] "DeleteUnsafe"%string [VKey k] m = Some (adel eqb k m, [])) /\
  (forall m, run [] [] "Len"%string [] m = Some (m, [VLen (List.length m)])) /\
  (forall f ord m, run [("cb"%string, iter_cb K V E f)] ord "Iterate"%string [VCb "cb"%string] m =
                   Some (SyncMapIR.iter K V eqb f ord m, [])) /\
  (forall f k m, run [("cb"%string, value_cb K V E f)] [] "WithLockedValueDo"%string [VKey k; VCb "cb"%string] m =
                 Some (match aget eqb k m with
                       | Some v => let '(m', e) := f v m in (m', [VErr e])
                       | None => (m, [VErr None])
                       end)).
Proof. exact syncmap_methods_from_source. Qed.
Print Assumptions C03_syncmap_methods_from_source.

(* Go may enumerate a map in any order.  For the two ways the correlator uses Iterate this does not matter beyond
   what the model already quantifies over: "act on the first entry satisfying c and stop" acts on SOME candidate —
   the model's scan-choice argument — and every candidate is the one acted upon under some order; "delete every
   entry satisfying c" removes exactly those entries whatever the order. *)
Theorem C03_iteration_order_is_the_scan_choice :
  forall (K V : Type) (eqb : K -> K -> bool), (forall a b, reflect (a = b) (eqb a b)) ->
  (forall c act ord (m : list (K * V)), NoDup (akeys m) -> incl (akeys m) ord ->
     exists choice, SyncMapIR.iter K V eqb (scan_cb K V c act) ord m =
                    match Model.Tracker.pick choice (cands K V c m) with Some (k, v) => act k v m | None => m end) /\
  (forall c (m : list (K * V)) choice kv, NoDup (akeys m) -> Model.Tracker.pick choice (cands K V c m) = Some kv ->
     exists ord, Permutation.Permutation ord (akeys m) /\ first_hit K V eqb c ord m = Some kv) /\
  (forall c ord (m : list (K * V)), NoDup (akeys m) -> incl (akeys m) ord ->
     SyncMapIR.iter K V eqb (del_cb K V eqb c) ord m = filter (fun kv => negb (c (fst kv) (snd kv))) m).
Proof. exact iteration_order_is_the_scan_choice. Qed.
Print Assumptions C03_iteration_order_is_the_scan_choice.
