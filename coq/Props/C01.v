(* C01 — UserAction events carry only the identity of the login that opened the session.
   Statements only; every proof is one [exact]. *)
From Coq Require Import List Bool Arith ZArith NArith.
Import ListNotations.
From AM Require Import Model.Tracker Proofs.TrackerInv.
From AM Require Import Model.TrackerConc Proofs.TrackerConcLift.
From AM Require Gen.TrackerLocks.

(* For every history (any number of sessions, logins, cleanups, any interleaving, any scan
   order in RemoteLogin): every emitted event (l, e) is an event of a numeric session s for
   which a LOGIN record with pid = l's pid was processed, and l was delivered.  If each sshd
   PID logs in once and PIDs / session IDs are not reused, l is the only login with that pid
   and every LOGIN record of s carries that pid: e carries the identity of exactly the login
   whose sshd pid equals the pid of the LOGIN record that opened e's session. *)
Theorem C01_identity : forall (h : list top) (l : login) (e : aev),
  In (l, e) (outs h) ->
  exists s ev0 now0,
    a_ses e = SId s /\ in_hist e h /\
    In (Audit ev0 now0) h /\ a_ses ev0 = SId s /\ a_type ev0 = TLogin /\ a_pid ev0 = Some (l_pid l) /\
    In_login l h /\
    (wf_unique h ->
       (forall l' c', In (RemoteLogin l' c') h -> l_pid l' = l_pid l -> l' = l) /\
       (forall ev1 now1 p1, In (Audit ev1 now1) h -> a_ses ev1 = SId s -> a_type ev1 = TLogin ->
                            a_pid ev1 = Some p1 -> p1 = l_pid l)).
Proof. exact identity_of_emitted. Qed.
Print Assumptions C01_identity.

(* Non-vacuity: three sessions, three logins, interleaved; all three emit, each with its own login. *)
Definition ex_l (i : nat) (p : Z) := {| l_id := i; l_pid := p; l_at := 0; l_valid := true |}.
Definition ex_e (i : nat) (s : N) (t : atype) (p : Z) := {| a_id := i; a_ses := SId s; a_type := t; a_pid := Some p |}.
Definition ex_h : list top :=
  [ Audit (ex_e 0 1 TLogin 11) 1; RemoteLogin (ex_l 1 12) 0; Audit (ex_e 1 2 TLogin 12) 3;
    Audit (ex_e 2 3 TLogin 13) 5; Audit (ex_e 3 1 (TOther 7) 99) 7; RemoteLogin (ex_l 0 11) 0;
    RemoteLogin (ex_l 2 13) 5; Audit (ex_e 4 3 TCredDisp 13) 9; Audit (ex_e 5 2 (TOther 7) 98) 11 ].
Example C01_example :
  map (fun x => (l_id (fst x), a_id (snd x))) (outs ex_h) = [(1, 1); (0, 0); (0, 3); (2, 2); (2, 4); (1, 5)].
Proof. vm_compute. reflexivity. Qed.
Example C01_example_wf : wf_unique ex_h.
Proof.
  split.
  - intros l l' c c' H H' Hp. cbn in H, H'.
    repeat (destruct H as [H|H]; [try discriminate; injection H as <- <-|]); try contradiction;
    repeat (destruct H' as [H'|H']; [try discriminate; injection H' as <- <-|]); try contradiction;
    cbn in Hp; try discriminate; reflexivity.
  - intros e e' n n' H H' Ht Ht' s s' p p' Hs Hs' Hp Hp'. cbn in H, H'.
    repeat (destruct H as [H|H]; [try discriminate; injection H as <- <-|]); try contradiction;
    repeat (destruct H' as [H'|H']; [try discriminate; injection H' as <- <-|]); try contradiction;
    cbn in *; try discriminate;
    injection Hs as <-; injection Hs' as <-; injection Hp as <-; injection Hp' as <-; split; intros; try reflexivity; discriminate.
Qed.

(* ---------- the same statement for CONCURRENT deliveries ----------
   The daemon delivers logins, audit events and cleanup from different goroutines.  GENERATED from
   sessiontracker.go: every exported method of the correlator is one critical section of one mutex
   (C01_calls_atomic).  Under that mutex every complete execution of every thread system under every
   schedule writes what the sequential correlator writes on the linearization [lin] (calls in the
   order they began, each thread's program order kept; Proofs/TrackerConcLemmas.v), so the theorem
   above holds of every concurrent execution. *)
Theorem C01_calls_atomic : Gen.TrackerLocks.tracker_calls_locked = true.
Proof. vm_compute. reflexivity. Qed.
Print Assumptions C01_calls_atomic.

Theorem C01_identity_concurrent : forall progs sched (l : login) (e : aev),
  all_done (exec true progs sched) = true ->
  In (l, e) (s_out (exec true progs sched)) ->
  let h := lin progs sched in
  exists s ev0 now0,
    a_ses e = SId s /\ in_hist e h /\
    In (Audit ev0 now0) h /\ a_ses ev0 = SId s /\ a_type ev0 = TLogin /\ a_pid ev0 = Some (l_pid l) /\
    In_login l h.
Proof. exact identity_concurrent. Qed.
Print Assumptions C01_identity_concurrent.

(* ---------- the correlator of the model is the correlator of the source ----------
   Gen/TrackerProg.v is REGENERATED on every run by translating sessiontracker.go (RemoteLogin,
   AuditdEvent with both of its branches, the two cleanups, writeAndClearCache, the map operations
   they perform, deferred deletes, early returns and error classes) into a small deep-embedded
   language (Model/TrackerIR.v).  For EVERY state and EVERY operation the hand-written [tstep] of
   Model/Tracker.v, on which the theorems of this file rest, IS the interpretation of the generated
   programs, and that interpretation never gets stuck. *)
From AM Require Model.TrackerIR Gen.TrackerProg Proofs.TrackerIRTie.
Theorem C01_tracker_from_source : forall st o,
  Proofs.TrackerIRTie.run_generated st o = Some (Model.Tracker.tstep st o).
Proof. exact Proofs.TrackerIRTie.tracker_from_source. Qed.
Print Assumptions C01_tracker_from_source.

(* ---------- which logins the correlator accepts, read from the source ----------
   RemoteLogin starts with rul.Validate().  Gen/LoginValidate.v is REGENERATED on every run from
   internal/common/login.go; the model's [validate] (Source not nil and CredUserID not empty — l_valid — and PID > 0)
   IS the interpretation of the generated checks, for every login. *)
From AM Require Model.ValidateIR Gen.LoginValidate Proofs.ValidateTie.
Theorem C01_validate_from_source : forall id at_ l,
  Model.ValidateIR.run_validate Gen.LoginValidate.gen_validate l = Model.Tracker.validate (Proofs.ValidateTie.abs_login id at_ l).
Proof. exact Proofs.ValidateTie.validate_from_source. Qed.
Print Assumptions C01_validate_from_source.

(* ---------- which sshd PID a login carries: from the RECORD on the sshd pipe, through the source ----------
   The identity theorems above name a login by its sshd PID.  That PID is produced by the sshd pipeline:
   SyslogIngester.Process -> ParseSyslogMessage cut the record into (PID token, message), ProcessSshdLogEntry hands
   that pair to the handlers, the accepted-login handlers forward strconv.Atoi of the token.  [record_result]
   (Proofs/RecordLogin.v) is that path read through the translations REGENERATED on every run from
   ingesters/syslog/syslogingester.go (Gen/PureFuncs.v: gen_process_line) and from ProcessSshdLogEntry
   (Gen/EntryMetrics.v: gen_entry), followed by the sshd model whose handlers and dispatch are generated too.

   For EVERY record (any bytes, any writer behaviour, any hand-off outcome) the pipeline is defined, and a login
   it hands to the correlator carries the PID written in the record's FIRST COLUMN — the text in front of the
   record's first blank — as strconv.Atoi reads it; nothing else in the record (no "sshd[N]:" tag, no second
   "<N> " later in the text, no embedded message) can name the sshd process a login is attributed to.  A changed
   ParseSyslogMessage / Process (another way of finding the PID, a call the translator does not know) changes or
   breaks the generated definitions and re-opens these obligations. *)
From Coq Require Import String.
From AM Require Lib.Bytes Lib.GoStrings Model.Syslog Model.SshdProc Model.PipelineSshd.
From AM Require Gen.PureFuncs Gen.EntryMetrics Proofs.RecordLogin.
Theorem C01_login_pid_is_record_first_column : forall c line wok ready,
  exists r, Proofs.RecordLogin.record_result c line wok ready = Some r /\
    forall f, In f (Model.SshdProc.r_forwards r) ->
      Model.SshdProc.atoi (Proofs.RecordLogin.first_column line) = Some (Model.SshdProc.f_pid f).
Proof. exact Proofs.RecordLogin.record_login_pid. Qed.
Print Assumptions C01_login_pid_is_record_first_column.

(* the same for the login as the correlator's model sees it ([abs_login], Model/PipelineSshd.v: l_pid = the
   forwarded PID): the [l_pid] that C01_identity speaks about is the first column of the record that produced it *)
Theorem C01_tracker_login_pid_is_record_first_column : forall c line wok ready k at_,
  exists r, Proofs.RecordLogin.record_result c line wok ready = Some r /\
    (Model.SshdProc.r_forwards r <> [] ->
     Model.SshdProc.atoi (Proofs.RecordLogin.first_column line) = Some (l_pid (Model.PipelineSshd.abs_login k at_ r))).
Proof. exact Proofs.RecordLogin.record_login_pid_tracker. Qed.
Print Assumptions C01_tracker_login_pid_is_record_first_column.

(* the record format of the contrib template, "<pid> <padding><message>\n" (pid token without blank, message not
   starting with a blank, otherwise ANY bytes — in particular client-chosen text that looks like another record):
   the pipeline's result is the processor's result for (pid, message); a login is handed to the correlator only when
   the message BEGINS with one of the two accepted forms, and it carries the PID of the record's first column *)
Theorem C01_framed_record_login : forall c tok n msg wok ready k at_,
  ~ In Model.Syslog.sp tok -> hd_error msg <> Some Model.Syslog.sp ->
  let r := Model.SshdProc.process c tok msg wok ready in
  Proofs.RecordLogin.record_result c (tok ++ Model.Syslog.sp :: repeat Model.Syslog.sp n ++ msg ++ [Model.Syslog.nl]) wok ready = Some r /\
  (Model.SshdProc.r_forwards r <> [] ->
     Model.SshdProc.atoi tok = Some (l_pid (Model.PipelineSshd.abs_login k at_ r)) /\
     (Lib.Bytes.has_prefix (Lib.Bytes.s2l "Accepted publickey"%string) msg = true \/
      Lib.Bytes.has_prefix (Lib.Bytes.s2l "Accepted password"%string) msg = true)).
Proof. exact Proofs.RecordLogin.framed_record_login. Qed.
Print Assumptions C01_framed_record_login.

(* Non-vacuity and the shape of the hostile input: an "Invalid user" record of sshd process 100 whose client-chosen
   name is a complete accepted-password message carrying another process's syslog tag forwards NO login; the genuine
   record of process 200 forwards one login, with PID 200. *)
Example C01_record_example :
  let c := {| Model.SshdProc.c_node := Lib.Bytes.s2l "n"%string; Model.SshdProc.c_mid := Lib.Bytes.s2l "m"%string |} in
  option_map (fun r => map Model.SshdProc.f_pid (Model.SshdProc.r_forwards r))
    (Proofs.RecordLogin.record_result c
       (Lib.Bytes.s2l "100 Invalid user x sshd[200]: Accepted password for alice from 10.0.0.5 port 5000 ssh2 from 10.0.0.9 port 4000"%string ++ [Model.Syslog.nl]) true true)
  = Some [] /\
  option_map (fun r => map Model.SshdProc.f_pid (Model.SshdProc.r_forwards r))
    (Proofs.RecordLogin.record_result c
       (Lib.Bytes.s2l "200 Accepted password for bob from 10.0.0.7 port 6000 ssh2"%string ++ [Model.Syslog.nl]) true true)
  = Some [200%Z].
Proof. vm_compute. split; reflexivity. Qed.


(* ====================================================================================================
   What arrives on the pipes is what the processors are handed (round 7).
   C01 is a statement about what the DAEMON emits for the records written to its pipes; the theorems above
   start at the record the processor is handed.  The reader between the two - NamedPipeIngester.Ingest, the
   wrappers of the two ingesters and their Process callbacks - is regenerated into Gen/IngestProg.v on every
   run; the statements below (proved in Proofs/IngestIRTie.v, restated here so that they are obligations of
   C01) say that for every chunking of the pipe's byte stream each newline-terminated record is handed to
   the callback exactly once, in order, with exactly its bytes (Model/Framing.v [ingest], about which C12's
   theorems are proved), that the pipe is opened read-only (so the last writer's close is end-of-stream and an
   unterminated tail is never joined to a later writer's bytes), and what the callback does with the
   record.  Any edit of the reader changes the generated program and these stop checking.
   ==================================================================================================== *)
From Coq Require Import Ascii String List.
From AM Require Import Model.Framing Model.IngestIR Gen.IngestProg Proofs.IngestIRTie.
Import ListNotations.
Open Scope string_scope.
Open Scope list_scope.
Open Scope nat_scope.

Theorem C01_records_reach_processor_unchanged : forall cs cb,
  run_ingest gen_Ingest cs (ascii_of_nat (wr_delim gen_auditlog_Ingest)) cb = Some (ingest cs newline cb) /\
  run_ingest gen_Ingest cs (ascii_of_nat (wr_delim gen_syslog_Ingest)) cb = Some (ingest cs newline cb).
Proof. exact wrapped_ingest_from_source. Qed.
Print Assumptions C01_records_reach_processor_unchanged.

(* the reader's statements: ReadString with the caller's delimiter, the line handed on as it was read *)
Theorem C01_pipe_reader_loop_from_source :
  ip_loop gen_Ingest = [
    IReadString "line" "err" DParam;
    IIf (CErrNotNil "err") [ILog "Errorf"; IReturn (EVar "err")] [];
    ICallback (TAssign "err") (SVar "line");
    IIf (CErrNotNil "err") [IReturn (EVar "err")] []].
Proof. exact loop_shape_from_source. Qed.
Print Assumptions C01_pipe_reader_loop_from_source.

(* the set-up: read-only open in a goroutine with a cancellable wait, errors returned unchanged, the file closed
   on cancellation and on return, the reader reads that file *)
Theorem C01_pipe_open_from_source :
  (exists i j, index_of is_onready (ip_setup gen_Ingest) = Some i /\
               index_of is_open (ip_setup gen_Ingest) = Some j /\ i < j) /\
  In (SOnReady "named-pipe-processor") (ip_setup gen_Ingest) /\
  In (SGoOpen "file" "err" ["O_RDONLY"] "ModeNamedPipe" "ready") (ip_setup gen_Ingest) /\
  In (SSelect [SArmDone ECtxErr; SArmRecv "ready"]) (ip_setup gen_Ingest) /\
  open_is_cancellable (ip_setup gen_Ingest) = true /\
  In (SIfErrReturn "err" (EVar "err")) (ip_setup gen_Ingest) /\
  In (SGoCloseOnCancel "file") (ip_setup gen_Ingest) /\
  read_is_cancellable (ip_setup gen_Ingest) = true /\
  In (SDeferClose "file") (ip_setup gen_Ingest) /\
  In (SNewReader "r" "file") (ip_setup gen_Ingest).
Proof. exact setup_from_source. Qed.
Print Assumptions C01_pipe_open_from_source.

(* sshd pipe: the callback removes exactly one trailing newline, the rest goes to ParseSyslogMessage and on to
   SshdProcessor.ProcessSshdLogEntry, whose error is returned unchanged; for a record as Ingest delivers it
   that is the record's body *)
Theorem C01_sshd_record_reaches_processor :
  gen_syslog_Process =
  {| pr_line := "line";
     pr_body := PParseAndProcess "ParseSyslogMessage" (STrimLit [10] (SVar "line"))
                                 "SshdProcessor" "ProcessSshdLogEntry" |} /\
  forall b, trim_suffix (map ascii_of_nat [10]) (b ++ [newline]) = b.
Proof. exact (conj syslog_process_from_source syslog_process_gets_body). Qed.
Print Assumptions C01_sshd_record_reaches_processor.

(* audit pipe: the callback is one select with a ctx.Done arm (returns ctx.Err()) and the send of the line,
   unchanged, on AuditLogChan (returns nil) *)
Theorem C01_audit_record_reaches_processor :
  gen_auditlog_Process =
  {| pr_line := "line";
     pr_body := PSelect [PArmDone ECtxErr; PArmSend "AuditLogChan" (SVar "line") ENil] |}.
Proof. exact auditlog_process_from_source. Qed.
Print Assumptions C01_audit_record_reaches_processor.
