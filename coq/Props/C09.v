(* C09 — An ended session releases its state; a reused PID binds to the new session. *)
From Coq Require Import List Bool Arith ZArith NArith.
Import ListNotations.
From AM Require Import Lib.Assoc Model.Tracker Proofs.TrackerInv Proofs.TrackerSpec Proofs.TrackerLife Proofs.TrackerMore.

(* The operation that writes a session's credential-disposal record — directly, or from the
   hold queue when a late login arrives — removes the session from the correlator (for every
   history, every next operation, every scan order). *)
Theorem C09_disposal_releases : forall (h : list top) (o : top) st' out r,
  tstep (final h) o = (st', out, r) ->
  forall l e s, In (l, e) out -> is_disp (a_type e) = true -> a_ses e = SId s ->
  aget N.eqb s (sess st') = None.
Proof. exact disposal_releases. Qed.
Print Assumptions C09_disposal_releases.

(* No later login is ever bound to a session that already has one: such a session is left
   exactly as it is and nothing is written for it, whatever the login's pid. *)
Theorem C09_no_rebind : forall (h : list top) l c st' out r s u,
  tstep (final h) (RemoteLogin l c) = (st', out, r) ->
  aget N.eqb s (sess (final h)) = Some u -> unbound u = false ->
  aget N.eqb s (sess st') = Some u /\ projs s out = [].
Proof. exact bound_not_rebound. Qed.
Print Assumptions C09_no_rebind.

(* A stray late event of an ended (hence untracked) session is ignored. *)
Theorem C09_stray_ignored : forall st ev now s,
  a_ses ev = SId s -> aget N.eqb s (sess st) = None -> is_login (a_type ev) = false ->
  tstep st (Audit ev now) = (st, [], ROk).
Proof. exact stray_ignored. Qed.
Print Assumptions C09_stray_ignored.

(* PID reuse.  Let A be ANY history after which neither half of (s, p) is waiting
   ([rel s p PClean (final A)]: s is not tracked, no login is parked for p, no session opened
   by p is still waiting for a login) — in particular any history in which earlier sessions of
   the same pid p have ended and their logins were delivered.  Then the continuation B behaves
   for s exactly as in C02: the events of s are emitted once, in order, with the login of pid
   p that arrives in B — not with any earlier login of that pid. *)
Theorem C09_reuse : forall (s : N) (p : Z) (A B : list top),
  rel s p PClean (final A) -> allowed_run s p PClean B -> keeps_run s p PClean B ->
  exists outB,
    projs s (outs (A ++ B)) = projs s (outs A) ++ outB /\
    let E := events_from_rec s p B in
    (rec_seen s p B && login_seen p B = false -> outB = []) /\
    (rec_seen s p B && login_seen p B = true ->
       exists l k, In_login l B /\ login_p p l = true /\
                   outB = map (pair l) (firstn k E) /\ length (take_until_disp E) <= k /\ k <= length E).
Proof. exact lifecycle_from. Qed.
Print Assumptions C09_reuse.

(* Non-vacuity and the replay of the defect found on the pinned tree: a short session whose
   records all precede its login, then the same pid re-used. *)
Definition ev (i : nat) (s : N) (t : atype) (p : Z) := {| a_id := i; a_ses := SId s; a_type := t; a_pid := Some p |}.
Definition alice := {| l_id := 0; l_pid := 77; l_at := 0; l_valid := true |}.
Definition bob := {| l_id := 1; l_pid := 77; l_at := 0; l_valid := true |}.
Definition A1 : list top := [Audit (ev 0 1 TLogin 77) 1; Audit (ev 1 1 TCredDisp 77) 3; RemoteLogin alice 0].
Definition B1 : list top := [Audit (ev 2 2 TLogin 77) 5; RemoteLogin bob 0; Audit (ev 3 2 (TOther 5) 78) 7; Audit (ev 4 1 (TOther 5) 79) 9].

Example C09_example_clean : rel 2 77 PClean (final A1).
Proof. vm_compute. repeat split. intros s' u' []. Qed.
Example C09_example_hyps : allowed_run 2 77 PClean B1 /\ keeps_run 2 77 PClean B1.
Proof. cbn. repeat split; auto; intros; discriminate. Qed.
Example C09_example_out :
  forall c1 c2, In c1 [0; 1; 5] -> In c2 [0; 2; 7] ->
  map (fun x => (l_id (fst x), a_id (snd x)))
      (outs ([Audit (ev 0 1 TLogin 77) 1; Audit (ev 1 1 TCredDisp 77) 3; RemoteLogin alice c1] ++
             [Audit (ev 2 2 TLogin 77) 5; RemoteLogin bob c2; Audit (ev 3 2 (TOther 5) 78) 7; Audit (ev 4 1 (TOther 5) 79) 9]))
  = [(0, 0); (0, 1); (1, 2); (1, 3)].
Proof.
  intros c1 c2 H1 H2. cbn in H1, H2.
  repeat (destruct H1 as [<-|H1]; [repeat (destruct H2 as [<-|H2]; [vm_compute; reflexivity|]); contradiction|]).
  contradiction.
Qed.

(* ---------- the correlator of the model is the correlator of the source ----------
   Gen/TrackerProg.v is REGENERATED on every run by translating sessiontracker.go (RemoteLogin,
   AuditdEvent with both of its branches, the two cleanups, writeAndClearCache, the map operations
   they perform, deferred deletes, early returns and error classes) into a small deep-embedded
   language (Model/TrackerIR.v).  For EVERY state and EVERY operation the hand-written [tstep] of
   Model/Tracker.v, on which the theorems of this file rest, IS the interpretation of the generated
   programs, and that interpretation never gets stuck. *)
From AM Require Model.TrackerIR Gen.TrackerProg Proofs.TrackerIRTie.
Theorem C09_tracker_from_source : forall st o,
  Proofs.TrackerIRTie.run_generated st o = Some (Model.Tracker.tstep st o).
Proof. exact Proofs.TrackerIRTie.tracker_from_source. Qed.
Print Assumptions C09_tracker_from_source.

(* ---------- which logins the correlator accepts, read from the source ----------
   RemoteLogin starts with rul.Validate().  Gen/LoginValidate.v is REGENERATED on every run from
   internal/common/login.go; the model's [validate] (Source not nil and CredUserID not empty — l_valid — and PID > 0)
   IS the interpretation of the generated checks, for every login. *)
From AM Require Model.ValidateIR Gen.LoginValidate Proofs.ValidateTie.
Theorem C09_validate_from_source : forall id at_ l,
  Model.ValidateIR.run_validate Gen.LoginValidate.gen_validate l = Model.Tracker.validate (Proofs.ValidateTie.abs_login id at_ l).
Proof. exact Proofs.ValidateTie.validate_from_source. Qed.
Print Assumptions C09_validate_from_source.
