(* C06 — Each supported OpenSSH message yields one UserLogin with exactly its fields.

   For every message below, rendered by sshd's own format string from field values in the stated
   domain, ProcessEntry (dispatch table and regular expressions GENERATED from the current Go
   source, handlers modelled in Model/SshdProc.v) produces exactly ONE event, written out here as
   an explicit record, the stated metric, and returns nil (or the writer's error).

   Domains:  no_nl = any bytes but newline;  no_space = no white space;  digits = [0-9]+;
             keytype = [A-Za-z0-9_-]+;  lacks c = does not contain the byte c.

   form (theorem)                      fields and their domain                              notes
   ----------------------------------  ---------------------------------------------------  -----------------------------
   failed_password                     u no_nl; s no_space; p digits                        Proofs/SshdForms.v
   max_attempts                        u no_nl; s no_space; p digits                        Proofs/SshdForms.v
   invalid_user                        u no_nl; s non-empty no_space; p digits              Proofs/SshdForms.v
   accepted_password                   u no_nl; s no_space; p digits; PID token numeric     succeeded; forwarded
   cert_invalid                        reason: ANY non-empty bytes                          no regex involved
   not_in_allow_users                  u no_nl; s no_space                                  (1)
   user_in_deny_users                  u no_nl; s no_space                                  (1)
   user_not_in_any_group               u no_nl; s no_space                                  (1)
   user_group_in_deny_groups           u no_nl; s no_space                                  (1)
   user_group_not_in_allow_groups      u no_nl; s no_space                                  (1)
   user_nonexistent_shell              u no_nl; sh no_space                                 (2)
   user_nonexecutable_shell            u no_nl; sh no_space                                 (2)
   root_login_refused                  s no_nl; p no_space                                  account is the constant root
   bad_owner                           u no_nl; f no_nl and lacks colon                     (3) f may contain spaces
   nasty_ptr                           d no_nl; s no_nl and lacks the double quote          d may contain anything
   reverse_mapping_failed              d no_nl; s no_space
   not_map_back                        s no_nl; d no_space                                  (4)
   revoked_key                         kt keytype; fp no_nl; f no_space                     (5)
   revoked_key_err                     kt keytype; fp no_nl; f no_space                     (5)
   accepted_key                        u no_nl; s no_space; p digits; kt, h keytype;        plain key, full domain (6)
                                       ks non-empty no_space (base64 or MD5 hex with colons)
   accepted_cert                       as accepted_key, and: kid no_nl and no_ssh_frag;     certificate (6) (7)
                                       n digits; kt2, h2 keytype; ks2 no_space
   accepted_key_partial                see the end of this file                             kept: earlier, narrower statement
   accepted_cert_partial               see the end of this file                             kept: earlier, narrower statement

   (1) the source must be space-free because the user field before it is a greedy `.*`: a source
       containing " from " would move the split.  sshd prints an address or a resolved host name.
   (2) shell paths WITH white space: correspondence check only (the greedy user field's marker
       count needs a space-free shell).
   (3) file paths containing a colon: correspondence check only.
   (4) DNS names with white space (cannot occur in a host name): correspondence check only.
   (5) revoked-keys file names WITH white space: correspondence check only (the greedy fingerprint
       field's marker count needs a space-free path).

   (6) recorded as the patterns cut the line: Alg = "KT HASH", SSHKeySum = the digest WITHOUT its
       "HASH:" prefix (for an MD5 fingerprint  MD5:aa:bb:..  the Alg group stops at the first colon,
       so SSHKeySum = aa:bb:.. with its inner colons), CA = "CA KT2 HASH2:KS2" including the word CA.
   (7) no_ssh_frag kid: the key id, with the space in front of it, contains no fragment
       " ssh" alnum+ ": " [A-Za-z0-9_ -]+ ":" non-space.  Spaces, parentheses, the words serial, from,
       port, "(serial 7)" are all allowed.  The hypothesis is NECESSARY: loginRE is unanchored and its
       three leading fields are greedy, so such a fragment inside the key id moves the port (and with
       a " from A port N" in front of it also account and source) into the key id:
       C06_keyid_ssh_fragment_refuted, C06_example_keyid_hijack.

   NOT covered: the optional  ", <method info>"  suffix sshd can append after the CA fingerprint
   (correspondence check only); key ids that contain such a fragment (false, see (7)). *)
From Coq Require Import Ascii String List Bool Arith ZArith NArith.
Import ListNotations.
From AM Require Import Lib.Bytes Lib.Regex Proofs.RegexLemmas Model.SshdProc Proofs.SshdFields Proofs.SshdForms
  Proofs.SshdFields2 Proofs.SshdForms2 Proofs.SshdLogin Proofs.SshdLogin2.
From AM Require Import Gen.SshdDispatch Gen.SshdHandlers Model.SshdSketch Proofs.SshdHandlersTie.
Open Scope string_scope.
Open Scope list_scope.

(* ---------- user name, source, port ---------- *)

Theorem C06_failed_password : forall c tok u s p wok ready,
  no_nl u -> no_space s -> digits p ->
  process c tok (fmt_failed_password u s p) wok ready = failure_result wok (ev_user_src_port c tok u s p).
Proof. exact process_failed_password. Qed.
Print Assumptions C06_failed_password.

Theorem C06_max_attempts : forall c tok u s p wok ready,
  no_nl u -> no_space s -> digits p ->
  process c tok (fmt_max_attempts u s p) wok ready = failure_result wok (ev_user_src_port c tok u s p).
Proof. exact process_max_attempts. Qed.
Print Assumptions C06_max_attempts.

Theorem C06_invalid_user : forall c tok u s p wok ready,
  no_nl u -> s <> [] -> no_space s -> digits p ->
  process c tok (fmt_invalid_user u s p) wok ready = failure_result wok (ev_user_src_port c tok u s p).
Proof. exact process_invalid_user. Qed.
Print Assumptions C06_invalid_user.

(* the only successful outcome among these: it is also handed to the correlator, after the write *)
Theorem C06_accepted_password : forall c tok pid u s p wok ready,
  atoi tok = Some pid ->
  no_nl u -> no_space s -> digits p ->
  process c tok (fmt_accepted_password u s p) wok ready =
  accepted_password_result wok ready pid (ev_accepted_password c tok u s p).
Proof. exact process_accepted_password. Qed.
Print Assumptions C06_accepted_password.

Theorem C06_cert_invalid : forall c tok reason wok ready,
  reason <> [] ->
  process c tok (fmt_cert_invalid reason) wok ready = cert_invalid_result wok (ev_cert_invalid c tok reason).
Proof. exact process_cert_invalid. Qed.
Print Assumptions C06_cert_invalid.

(* ---------- the seven "User ... not allowed" forms ---------- *)

Theorem C06_not_in_allow_users : forall c tok u s wok ready,
  no_nl u -> no_space s ->
  process c tok (fmt_not_in_allow_users u s) wok ready = failure_result wok (ev_user_src c tok u s).
Proof. exact process_not_in_allow_users. Qed.
Print Assumptions C06_not_in_allow_users.

Theorem C06_user_in_deny_users : forall c tok u s wok ready,
  no_nl u -> no_space s ->
  process c tok (fmt_user_in_deny_users u s) wok ready = failure_result wok (ev_user_src c tok u s).
Proof. exact process_user_in_deny_users. Qed.
Print Assumptions C06_user_in_deny_users.

Theorem C06_user_not_in_any_group : forall c tok u s wok ready,
  no_nl u -> no_space s ->
  process c tok (fmt_user_not_in_any_group u s) wok ready = failure_result wok (ev_user_src c tok u s).
Proof. exact process_user_not_in_any_group. Qed.
Print Assumptions C06_user_not_in_any_group.

Theorem C06_user_group_in_deny_groups : forall c tok u s wok ready,
  no_nl u -> no_space s ->
  process c tok (fmt_user_group_in_deny_groups u s) wok ready = failure_result wok (ev_user_src c tok u s).
Proof. exact process_user_group_in_deny_groups. Qed.
Print Assumptions C06_user_group_in_deny_groups.

Theorem C06_user_group_not_in_allow_groups : forall c tok u s wok ready,
  no_nl u -> no_space s ->
  process c tok (fmt_user_group_not_in_allow_groups u s) wok ready = failure_result wok (ev_user_src c tok u s).
Proof. exact process_user_group_not_in_allow_groups. Qed.
Print Assumptions C06_user_group_not_in_allow_groups.

Theorem C06_user_nonexistent_shell : forall c tok u sh wok ready,
  no_nl u -> no_space sh ->
  process c tok (fmt_user_nonexistent_shell u sh) wok ready = failure_result wok (ev_user_shell c tok u sh).
Proof. exact process_user_nonexistent_shell. Qed.
Print Assumptions C06_user_nonexistent_shell.

Theorem C06_user_nonexecutable_shell : forall c tok u sh wok ready,
  no_nl u -> no_space sh ->
  process c tok (fmt_user_nonexecutable_shell u sh) wok ready = failure_result wok (ev_user_shell c tok u sh).
Proof. exact process_user_nonexecutable_shell. Qed.
Print Assumptions C06_user_nonexecutable_shell.

(* ---------- root login, bad owner, reverse DNS, revoked keys ---------- *)

Theorem C06_root_login_refused : forall c tok s p wok ready,
  no_nl s -> no_space p ->
  process c tok (fmt_root_login_refused s p) wok ready = failure_result wok (ev_root_refused c tok s p).
Proof. exact process_root_login_refused. Qed.
Print Assumptions C06_root_login_refused.

Theorem C06_bad_owner : forall c tok u f wok ready,
  no_nl u -> no_nl f -> lacks colon f ->
  process c tok (fmt_bad_owner u f) wok ready = failure_result wok (ev_bad_owner c tok u f).
Proof. exact process_bad_owner. Qed.
Print Assumptions C06_bad_owner.

Theorem C06_nasty_ptr : forall c tok d s wok ready,
  no_nl d -> no_nl s -> lacks dq s ->
  process c tok (fmt_nasty_ptr d s) wok ready = failure_result wok (ev_src_dns c tok s d).
Proof. exact process_nasty_ptr. Qed.
Print Assumptions C06_nasty_ptr.

Theorem C06_reverse_mapping_failed : forall c tok d s wok ready,
  no_nl d -> no_space s ->
  process c tok (fmt_reverse_mapping_failed d s) wok ready = failure_result wok (ev_src_dns c tok s d).
Proof. exact process_reverse_mapping_failed. Qed.
Print Assumptions C06_reverse_mapping_failed.

Theorem C06_not_map_back : forall c tok s d wok ready,
  no_nl s -> no_space d ->
  process c tok (fmt_not_map_back s d) wok ready = failure_result wok (ev_src_dns c tok s d).
Proof. exact process_not_map_back. Qed.
Print Assumptions C06_not_map_back.

Theorem C06_revoked_key : forall c tok kt fp f wok ready,
  keytype kt -> no_nl fp -> no_space f ->
  process c tok (fmt_revoked_key kt fp f) wok ready = failure_result wok (ev_revoked_key c tok kt fp f).
Proof. exact process_revoked_key. Qed.
Print Assumptions C06_revoked_key.

Theorem C06_revoked_key_err : forall c tok kt fp f wok ready,
  keytype kt -> no_nl fp -> no_space f ->
  process c tok (fmt_revoked_key_err kt fp f) wok ready = failure_result wok (ev_revoked_key c tok kt fp f).
Proof. exact process_revoked_key_err. Qed.
Print Assumptions C06_revoked_key_err.

(* an address in the sense of the property text (no white space, none of the punctuation the
   formats put around it) is inside every source/DNS domain used above *)
Theorem C06_addr_domains : forall v, addr v -> no_space v /\ no_nl v /\ lacks dq v.
Proof. intros v H. split; [apply addr_no_space, H|]. split; [apply addr_no_nl, H|apply addr_lacks_dq, H]. Qed.
Print Assumptions C06_addr_domains.

(* ---------- non-vacuity: concrete, realistic lines (evaluated, not proved by the lemmas) ---------- *)

Definition cfg0 : cfg := {| c_node := s2l "node1"; c_mid := s2l "mid1" |}.

(* IPv6 source with a zone id; user name with UTF-8 bytes (c3 a9 = e-acute) and a forged fragment *)
Example C06_example_ipv6_unicode :
  let u := s2l "ren" ++ [ascii_of_nat 195; ascii_of_nat 169] ++ s2l " from 6.6.6.6" in
  let r := process cfg0 (s2l "4242") (fmt_user_in_deny_users u (s2l "fe80::1%eth0")) true true in
  r = failure_result true (ev_user_src cfg0 (s2l "4242") u (s2l "fe80::1%eth0")).
Proof. vm_compute. reflexivity. Qed.

(* a path with spaces as the last field *)
Example C06_example_path_with_spaces :
  let r := process cfg0 (s2l "7") (fmt_bad_owner (s2l "alice") (s2l "/home/alice/my keys/authorized_keys")) false true in
  map (fun e => (ev_logged_as e, ev_file_path e, ev_src e)) (r_writes r)
    = [(s2l "alice", Some (s2l "/home/alice/my keys/authorized_keys"), s2l "unknown")]
  /\ r_ret r = RetWriteErr /\ r_metrics r = [("UnknownLogin", "Failure")].
Proof. vm_compute. repeat split. Qed.

(* accepted password: succeeded, and forwarded to the correlator with the numeric PID *)
Example C06_example_accepted_password :
  let r := process cfg0 (s2l "31337") (s2l "Accepted password for bob from 2001:db8::7 port 50482 ssh2") true true in
  map (fun e => (ev_ok e, ev_logged_as e, ev_src e, ev_port e)) (r_writes r)
    = [(true, s2l "bob", s2l "2001:db8::7", Some (s2l "50482"))]
  /\ map f_pid (r_forwards r) = [31337%Z] /\ r_metrics r = [("PasswordLogin", "Success")].
Proof. vm_compute. repeat split. Qed.

(* a revoked key: the fingerprint field keeps its hash-algorithm prefix *)
Example C06_example_revoked :
  let r := process cfg0 (s2l "9") (fmt_revoked_key (s2l "ED25519") (s2l "SHA256:YI+caZKJCNaXgsD0NvRZ2fLaEeF46cEVyadru/SL76o") (s2l "/etc/ssh/revoked_keys")) true false in
  r = failure_result true (ev_revoked_key cfg0 (s2l "9") (s2l "ED25519") (s2l "SHA256:YI+caZKJCNaXgsD0NvRZ2fLaEeF46cEVyadru/SL76o") (s2l "/etc/ssh/revoked_keys")).
Proof. vm_compute. reflexivity. Qed.

(* ---------- Accepted publickey: the EARLIER, narrower statements (kept; superseded by C06_accepted_key /
   C06_accepted_cert further down, whose domain contains this one) ----------

   Line:  Accepted publickey for U from S port P ssh2: KT HASH:KS
          optionally followed by   ID KID (serial N) CA KT2 HASH2:KS2      (certificate)

   Proved domain:  u no_nl;  s no_space and not the word from;  p digits;
     kt, h, kt2, h2 upper_word = non-empty [A-Z0-9-] (what sshkey_type and ssh_digest_alg_name print);
     ks non-empty no_space;  ks2 no_space;  n digits;
     kid plain_keyid = no white space, not the word from or port, not starting with ssh.
   MISSING here, covered by the wide theorems below:
     - key type / hash names with lower-case letters or underscore (the regex class is [A-Za-z0-9_ -]);
     - a source that is exactly the word from (proof artefact: the line is still parsed correctly);
     - key ids containing white space.  Not everything can be covered: the three greedy fields of
       loginRE are unanchored, so a key id such as  x from 6.6.6.6 port 1 ssh2: RSA SHA256:zzz
       moves user, source and port into the key id (see C06_example_keyid_hijack below);
   MISSING everywhere (correspondence check only):
     - the optional  ", <method info>"  suffix sshd can append after the CA fingerprint.
   What the regexes record (both stated in the theorems, both differ from the property text read
   literally): the key algorithm is  "KT HASH"  and the fingerprint is the bare digest KS (the
   fingerprint sshd prints is HASH:KS);  the CA datum is  "CA KT2 HASH2:KS2"  INCLUDING the
   literal word CA, because certIDRE has no literal CA before its last group. *)

Theorem C06_accepted_key_partial : forall c tok pid u s p kt h ks wok ready,
  atoi tok = Some pid ->
  no_nl u -> no_space s -> s <> s2l "from" -> digits p ->
  upper_word kt -> upper_word h -> ks <> [] -> no_space ks ->
  process c tok (fmt_accepted_key u s p kt h ks) wok ready =
  accepted_result wok ready "SSHKeyLogin" pid (s2l "unknown")
    (ev_accepted_key c tok u s p (kt ++ s2l " " ++ h) ks).
Proof. exact process_accepted_key_partial. Qed.
Print Assumptions C06_accepted_key_partial.

Theorem C06_accepted_cert_partial : forall c tok pid u s p kt h ks kid n kt2 h2 ks2 wok ready,
  atoi tok = Some pid ->
  no_nl u -> no_space s -> s <> s2l "from" -> digits p ->
  upper_word kt -> upper_word h -> ks <> [] -> no_space ks ->
  plain_keyid kid -> digits n -> upper_word kt2 -> upper_word h2 -> no_space ks2 ->
  process c tok (fmt_accepted_cert u s p kt h ks kid n kt2 h2 ks2) wok ready =
  accepted_result wok ready "SSHCertLogin" pid kid
    (ev_accepted_cert c tok u s p (kt ++ s2l " " ++ h) ks kid n (ca_text kt2 h2 ks2)).
Proof. exact process_accepted_cert_partial. Qed.
Print Assumptions C06_accepted_cert_partial.

(* the example line of openssh_regex.go is an instance of the certificate format ... *)
Example C06_example_cert_line :
  fmt_accepted_cert (s2l "auditomalditotesting") (s2l "127.0.0.1") (s2l "50482") (s2l "ED25519-CERT") (s2l "SHA256")
    (s2l "YI+caZKJCNaXgsD0NvRZ2fLaEeF46cEVyadru/SL76o") (s2l "foo@bar.com") (s2l "0") (s2l "ED25519") (s2l "SHA256")
    (s2l "Pcs5TWfcOSKb7Rw/XyvHfUcaQzmw6HtLrjUoyXuzIj8")
  = s2l "Accepted publickey for auditomalditotesting from 127.0.0.1 port 50482 ssh2: ED25519-CERT SHA256:YI+caZKJCNaXgsD0NvRZ2fLaEeF46cEVyadru/SL76o ID foo@bar.com (serial 0) CA ED25519 SHA256:Pcs5TWfcOSKb7Rw/XyvHfUcaQzmw6HtLrjUoyXuzIj8".
Proof. vm_compute. reflexivity. Qed.

(* ... and its fields are in the proved domain *)
Example C06_example_cert_hyps :
  plain_keyid (s2l "foo@bar.com") /\ upper_word (s2l "ED25519-CERT") /\ upper_word (s2l "SHA256") /\
  no_space (s2l "YI+caZKJCNaXgsD0NvRZ2fLaEeF46cEVyadru/SL76o") /\ s2l "127.0.0.1" <> s2l "from".
Proof. unfold plain_keyid, upper_word. repeat split; try reflexivity; discriminate. Qed.

(* a key id with spaces takes over account, source and port, and the certificate identity is lost:
   outside the proved domain, and outside what the regular expressions can get right *)
Example C06_example_keyid_hijack :
  let line := s2l "Accepted publickey for bob from 1.2.3.4 port 22 ssh2: RSA-CERT SHA256:abc ID x from 6.6.6.6 port 1 ssh2: RSA SHA256:zzz (serial 0) CA RSA SHA256:def" in
  map (fun e => (ev_logged_as e, ev_src e, ev_port e, ev_user_id e)) (r_writes (process cfg0 (s2l "1") line true true))
  = [(s2l "bob from 1.2.3.4 port 22 ssh2: RSA-CERT SHA256:abc ID x", s2l "6.6.6.6", Some (s2l "1"), s2l "unknown")].
Proof. vm_compute. reflexivity. Qed.

(* ---------- Accepted publickey: the widened domain (Proofs/SshdLogin2.v) ----------

   Line:  Accepted publickey for U from S port P ssh2: KT HASH:KS
          optionally followed by   ID KID (serial N) CA KT2 HASH2:KS2      (certificate)

   Domain:  u no_nl;  s no_space (ANY space-free word, the word from included);  p digits;
     kt, h, kt2, h2 keytype = non-empty [A-Za-z0-9_-]  (RSA, ED25519-CERT, ECDSA-SK, sk-ecdsa-sha2-nistp256,
       ssh-ed25519, SHA256, MD5, ... : lower case, digits, underscore, a leading "ssh" are all fine);
     ks non-empty no_space: base64 with + / =, or the hex digest of an MD5 fingerprint with its colons;
     ks2 no_space;  n digits (any length: serials up to 2^64-1 and beyond);
     kid no_nl with [no_ssh_frag kid = true] — see (7) in the header: spaces, parentheses, serial, from,
       port, a complete "(serial 7)" are allowed; what is excluded is exactly what makes the statement
       false.
   What the regexes record (stated in the theorems; each differs from the message read literally):
     the key algorithm is "KT HASH" and the fingerprint is the bare digest KS — sshd's fingerprint is
     HASH:KS, for MD5  MD5:aa:bb:...  the recorded SSHKeySum is  aa:bb:...  (greedy [\w -]+ cannot
     cross the first colon);  the CA datum is "CA KT2 HASH2:KS2" INCLUDING the literal word CA. *)

Theorem C06_accepted_key : forall c tok pid u s p kt h ks wok ready,
  atoi tok = Some pid ->
  no_nl u -> no_space s -> digits p ->
  keytype kt -> keytype h -> ks <> [] -> no_space ks ->
  process c tok (fmt_accepted_key u s p kt h ks) wok ready =
  accepted_result wok ready "SSHKeyLogin" pid (s2l "unknown")
    (ev_accepted_key c tok u s p (kt ++ s2l " " ++ h) ks).
Proof. exact process_accepted_key. Qed.
Print Assumptions C06_accepted_key.

Theorem C06_accepted_cert : forall c tok pid u s p kt h ks kid n kt2 h2 ks2 wok ready,
  atoi tok = Some pid ->
  no_nl u -> no_space s -> digits p ->
  keytype kt -> keytype h -> ks <> [] -> no_space ks ->
  no_nl kid -> no_ssh_frag kid = true -> digits n -> keytype kt2 -> keytype h2 -> no_space ks2 ->
  process c tok (fmt_accepted_cert u s p kt h ks kid n kt2 h2 ks2) wok ready =
  accepted_result wok ready "SSHCertLogin" pid kid
    (ev_accepted_cert c tok u s p (kt ++ s2l " " ++ h) ks kid n (ca_text kt2 h2 ks2)).
Proof. exact process_accepted_cert. Qed.
Print Assumptions C06_accepted_cert.

(* a readable sufficient condition for the key-id hypothesis: the key id does not start with "ssh"
   and nowhere contains " ssh" *)
Theorem C06_no_ssh_frag_simple : forall kid, nowhere (s2l " ssh") (sp :: kid) = true -> no_ssh_frag kid = true.
Proof. exact no_ssh_frag_simple. Qed.
Print Assumptions C06_no_ssh_frag_simple.

(* the hypotheses are satisfiable by key ids with spaces, parentheses, the word serial, a complete
   "(serial 3)", and even " from A port N" *)
Example C06_keyid_hyps_satisfiable :
  no_ssh_frag (s2l "jane doe (ops) serial 12 (serial 3)") = true /\ no_nl (s2l "jane doe (ops) serial 12 (serial 3)") /\
  no_ssh_frag (s2l "ops from 6.6.6.6 port 1 (laptop) ssh key: spare") = true /\
  keytype (s2l "sk-ecdsa-sha2-nistp256") /\ keytype (s2l "ssh-ed25519") /\ keytype (s2l "MD5") /\
  no_space (s2l "16:27:ac:a5:76:28:2d:36:63:1b:56:4d:eb:df:a6:48") /\ no_space (s2l "from").
Proof. unfold keytype, no_nl, no_space. repeat split; try reflexivity; discriminate. Qed.

(* ... and such a line, evaluated: key id with "(serial 3)" inside, lower-case key type, MD5 fingerprints,
   source "from", a 20-digit serial *)
Example C06_example_cert_wide :
  let kid := s2l "jane doe (ops) serial 12 (serial 3)" in
  let line := fmt_accepted_cert (s2l "bob") (s2l "from") (s2l "22") (s2l "ssh-ed25519-cert-v01") (s2l "MD5")
                (s2l "16:27:ac:a5:76:28:2d:36") kid (s2l "18446744073709551615") (s2l "rsa_sha2-512") (s2l "MD5") (s2l "aa:bb") in
  line = s2l "Accepted publickey for bob from from port 22 ssh2: ssh-ed25519-cert-v01 MD5:16:27:ac:a5:76:28:2d:36 ID jane doe (ops) serial 12 (serial 3) (serial 18446744073709551615) CA rsa_sha2-512 MD5:aa:bb"
  /\ map (fun e => (ev_logged_as e, ev_src e, ev_port e, ev_user_id e, ev_data e)) (r_writes (process cfg0 (s2l "1") line true true))
    = [(s2l "bob", s2l "from", Some (s2l "22"), kid,
        [("Alg", s2l "ssh-ed25519-cert-v01 MD5"); ("CA", s2l "CA rsa_sha2-512 MD5:aa:bb");
         ("SSHKeySum", s2l "16:27:ac:a5:76:28:2d:36"); ("Serial", s2l "18446744073709551615")])].
Proof. vm_compute. split; reflexivity. Qed.

(* the key-id hypothesis is needed: the smallest fragment inside a key id already moves the port and
   makes certIDRE fail on the rest (the certificate identity is lost, userID stays "unknown").
   Expected by the property: port 22, Alg "RSA-CERT SHA256", SSHKeySum abc, userID "a ssh2: x:y", serial 0. *)
Example C06_keyid_ssh_fragment_refuted :
  let kid := s2l "a ssh2: x:y" in
  let line := fmt_accepted_cert (s2l "bob") (s2l "1.2.3.4") (s2l "22") (s2l "RSA-CERT") (s2l "SHA256") (s2l "abc")
                kid (s2l "0") (s2l "RSA") (s2l "SHA256") (s2l "def") in
  no_ssh_frag kid = false /\
  line = s2l "Accepted publickey for bob from 1.2.3.4 port 22 ssh2: RSA-CERT SHA256:abc ID a ssh2: x:y (serial 0) CA RSA SHA256:def" /\
  map (fun e => (ev_logged_as e, ev_src e, ev_port e, ev_user_id e, ev_data e)) (r_writes (process cfg0 (s2l "1") line true true))
  = [(s2l "bob", s2l "1.2.3.4", Some (s2l "22 ssh2: RSA-CERT SHA256:abc ID a"), s2l "unknown",
      [("Alg", s2l "x"); ("SSHKeySum", s2l "y")])].
Proof. vm_compute. repeat split; reflexivity. Qed.

(* ---------- the handlers of the model are the handlers of the source ----------
   Gen/SshdHandlers.v is REGENERATED on every run by symbolic evaluation of each handler's Go body
   (which capture group / constant / processor field feeds which event field, outcome, metric calls,
   whether and with which credential the login is handed on).  For the 18 handlers that have a
   sketch, the hand-written handler of Model/SshdProc.v IS the interpretation of that sketch; the
   two without a flat sketch (public key: three branches; invalid certificate: no regex) are covered
   by the decision-tree form below. *)
Theorem C06_handlers_from_source : forall h hs, handler_sketch h = Some hs ->
  forall c tok line wok ready, run_sketch hs c tok line wok ready = Some (run_handler h c tok line wok ready).
Proof. exact run_sketch_is_run_handler. Qed.
Print Assumptions C06_handlers_from_source.

Theorem C06_handlers_without_sketch : forall h, handler_sketch h = None ->
  h = h_processAcceptPublicKeyEntry \/ h = h_processCertificateInvalidEntry.
Proof. exact sketch_coverage. Qed.
Print Assumptions C06_handlers_without_sketch.

(* All 20 handlers: the hand-written handler IS the interpretation [run_generated] of the decision tree that
   go2v regenerates from the handler's Go body on every run (Gen/SshdHandlers.v: [handler_prog]); this
   includes the three-branch public-key handler (second regex on the rest of the line, slice start
   len(match)+1 with its panic guard) and the invalid-certificate handler (reason = line from the length
   of the prefix literal on, fallback text). *)
Theorem C06_all_handlers_from_source : forall h c tok line wok ready,
  run_generated h c tok line wok ready = Some (run_handler h c tok line wok ready).
Proof. exact all_handlers_from_source. Qed.
Print Assumptions C06_all_handlers_from_source.

(* ---------- what the ingester hands over is what the processor's entry point processes ----------
   Gen/EntryMetrics.v is REGENERATED on every run from SshdProcessorer.ProcessSshdLogEntry, the method the daemon calls
   for every line on its ONE long-lived processor: the body is a single call of ProcessEntry on a fresh per-line
   configuration whose result is returned; message and PID token are sm.Message / sm.PID UNCHANGED; the context is the
   caller's context parameter itself (no derived deadline: the hand-off ends only by delivery or by the caller's
   cancellation); login channel, event writer, metrics, node name and machine id are the processor's own.  Any other
   statement in that body (a guard with an early return, a loop, a defer, a derived context, a write to the
   processor) is not understood by the generator, the generated file no longer type-checks and these obligations
   re-open.  So [process c tok line wok ready] of the model is applied, once per call, to exactly the record handed over. *)
From AM Require Import Gen.EntryMetrics Model.EntryMetricsIR Proofs.EntryMetricsTie.
Theorem C06_entry_from_source : forall pid msg, entry_args gen_entry (pid, msg) = Some (pid, msg).
Proof. exact entry_from_source. Qed.
Print Assumptions C06_entry_from_source.

Theorem C06_entry_context_is_callers : en_lookup "ctx" (en_config gen_entry) = Some FromCtxParam.
Proof. exact entry_context_is_callers. Qed.
Print Assumptions C06_entry_context_is_callers.

Theorem C06_entry_single_call :
  en_callee gen_entry = "ProcessEntry" /\ en_result_returned gen_entry = true /\
  map fst (en_config gen_entry) = ["ctx"; "logins"; "logEntry"; "nodeName"; "machineID"; "when"; "pid"; "eventW"; "metrics"] /\
  en_lookup "when" (en_config gen_entry) = Some FromTimeNow.
Proof. exact entry_single_call. Qed.
Print Assumptions C06_entry_single_call.

Theorem C06_entry_inherits_processor_fields :
  en_inherited gen_entry ["logins"; "nodeName"; "machineID"; "eventW"; "metrics"] = true.
Proof. exact entry_inherits_processor_fields. Qed.
Print Assumptions C06_entry_inherits_processor_fields.

(* The long-lived processor (struct SshdProcessorer, NewSshdProcessor; regenerated on every run) has no field beyond
   those the per-line configuration sets afresh for every line, is built by a single return of that struct from the
   constructor's parameters, and is the only implementation of the entry point in its package: no state is carried
   from one line to the next, so identical lines (sshd prints them: every wrong password on one connection) are
   processed identically. *)
Theorem C06_processor_keeps_no_state :
  ct_fields gen_constructor = map fst (en_config gen_entry) /\
  ct_entry_impls gen_constructor = ["SshdProcessorer"] /\
  ct_result gen_constructor = "SshdProcessor" /\
  map fst (ct_inits gen_constructor) = ["ctx"; "logins"; "nodeName"; "machineID"; "eventW"; "metrics"].
Proof. exact processor_keeps_no_state. Qed.
Print Assumptions C06_processor_keeps_no_state.

(* ---------- the message the processor is given is the syslog line's own text ----------
   Gen/PureFuncs.v is REGENERATED on every run by translating the Go bodies of SyslogIngester.ParseSyslogMessage and of
   the argument preparation in SyslogIngester.Process into Gallina over executable models of the strings package
   (Lib/GoStrings.v; None = the operation panics).  The hand-written [parse] / [process_line] of Model/Syslog.v ARE those
   translations, for every line: the record is split at the first blank run after the PID token and nothing in the
   message is collapsed, decoded, unescaped or otherwise rewritten on its way to the processor (a call of any function
   the translator does not know makes the generated file ill-typed and re-opens these obligations). *)
From AM Require Import Lib.GoStrings Gen.PureFuncs Proofs.PureFuncsTie Model.Syslog.
Theorem C06_parse_from_source : forall e,
  option_map entry_pair (gen_parse_syslog_message e) = Some (Syslog.parse e).
Proof. exact parse_syslog_from_source_pair. Qed.
Print Assumptions C06_parse_from_source.

Theorem C06_process_line_from_source : forall line,
  option_map entry_pair (gen_process_line line) = Some (process_line line).
Proof. exact process_line_from_source. Qed.
Print Assumptions C06_process_line_from_source.

(* ---------- the line the UserLogin becomes (Model/JsonEnc.v, proofs in Proofs/JsonEncLemmas.v / JsonParseLemmas.v) ----------
   [login_view aid t e] is the JSON view of a processor event e with the AuditID aid drawn by NewAuditEvent and the
   formatted time t; [enc_line] the bytes handed to the file.  For EVERY record (any pid token, any message bytes),
   every event the processor writes for it is ONE line — one newline, the last byte — and a reader parsing that line
   gets back exactly the event's members in their fixed order, every string field being the sanitised field
   (valid UTF-8 unchanged, any other byte as U+FFFD): nothing in the message can forge a second event or a field.
   (The statements hold for every event value; they are instantiated here for the events C06 speaks about.) *)
From AM Require Import Model.JsonEnc Proofs.JsonEncLemmas Proofs.JsonParseLemmas.
Theorem C06_json_login_line : forall (c : cfg) (tok line : str) (wok ready : bool) (aid t : str) (e : event),
  In e (r_writes (process c tok line wok ready)) -> time_text_ok t = true ->
  count_occ ascii_dec (enc_line (login_view aid t e)) newline = 1%nat /\
  List.last (enc_line (login_view aid t e)) dq = newline /\
  parse (enc_event (login_view aid t e)) = POk (reader_view (login_view aid t e)) [].
Proof.
  intros c tok line wok ready aid t e _ Ht.
  destruct (enc_line_one_newline _ (login_view_ok aid t e Ht)) as [H1 H2].
  exact (conj H1 (conj H2 (parse_enc_event_view _ (login_view_readable aid t e Ht)))).
Qed.
Print Assumptions C06_json_login_line.

(* ====================================================================================================
   C06_regex_… — the regular-expression primitive under every theorem above (group R)

   The guards and handlers of Model/SshdProc.v call Lib.Regex.find / matches on the GENERATED item lists of
   Gen/SshdRegexes.v.  Until now "find returns Go's leftmost-first match" rested on the matcher being the
   textbook one.  Model/RegexSpec.v gives flat patterns a declarative semantics that does not mention the
   matcher's recursion - a PARSE assigns every item the piece of text it consumes, [Parse T its p ops ls e pcs];
   [Match] = a parse of the whole pattern at an offset inside the text; Go/Perl LEFTMOST-FIRST priority =
   smaller start offset first, then lexicographically by the star lengths in pattern order, LONGER first
   ([prefers], [lex_ge]); [Best] = the match no other match beats - and the statements below hold for EVERY item
   list (well-formed or not), EVERY text, EVERY start offset: no fuel, no length bound (find is a structural
   Fixpoint on the item list and the text, hence total; there is no out-of-fuel value).

   Covered Go regexps (what tools/go2v/regex.go:flatten admits after regexp/syntax Parse(Perl) + Simplify;
   everything else is emitted as UNSUPPORTED_<name>, which does not type-check): concatenations of literals
   (OpLiteral, no case folding), single-character classes (OpCharClass / OpAnyCharNotNL / OpAnyChar, a class
   must hold all or none of the non-ASCII runes: classBytes) alone or under greedy * / + (x+ = IOne x; IStar x;
   a single such item over a class WITH the non-ASCII runes that is not the head of x+ is IRune x: one UTF-8
   decoding step, go2v runeItems), capture groups (OpCapture), ^ and $ as text anchors (OpBeginText / OpEndText).
   Refused: alternation, nested or counted repetition, non-greedy operators, ?, word boundaries, multi-line
   anchors, case folding, and every pattern that is not rune-safe (go2v runeSafe; see C06_regex_rune_* below).

   Still assumed (trusted base), now exercised function by function on every run by stage harness/prims
   (Model/PrimsCheck.v): that Go's regexp implements this semantics for these patterns, and bytes vs runes
   (see C06_regex_rune_* below). *)
From AM Require Import Lib.Bytes Lib.Regex Model.RegexSpec Proofs.RegexSpecLemmas Gen.SshdRegexes.

(* SOUNDNESS + PRIORITY.  Whatever find returns is a match of the pattern - a parse, starting inside the text -
   it is THE leftmost-first match (no match starts earlier; among those starting there none has a longer
   earlier star), and the reported captures are exactly the text between the parse's group offsets. *)
Theorem C06_regex_find_sound : forall its T r,
  find its T = Some r ->
  exists ls pcs, Best its T (m_start r) ls (m_end r) pcs /\ m_caps r = rev (str_caps T pcs).
Proof. exact find_sound. Qed.
Print Assumptions C06_regex_find_sound.

(* COMPLETENESS.  If the pattern has any parse at any offset of the text, find returns a match (none is
   missed), and that match is not beaten by the given one. *)
Theorem C06_regex_find_complete : forall its T p ls e pcs,
  Match its T p ls e pcs ->
  exists r ls0 pcs0, find its T = Some r /\ Best its T (m_start r) ls0 (m_end r) pcs0 /\ prefers (m_start r) ls0 p ls.
Proof. exact find_complete. Qed.
Print Assumptions C06_regex_find_complete.

Theorem C06_regex_find_none : forall its T,
  find its T = None <-> forall p ls e pcs, ~ Match its T p ls e pcs.
Proof. exact find_none_iff. Qed.
Print Assumptions C06_regex_find_none.

(* THE CHARACTERISATION: find = the string view of the unique best match. *)
Theorem C06_regex_find_iff : forall its T r,
  find its T = Some r <->
  exists ls pcs, Best its T (m_start r) ls (m_end r) pcs /\ m_caps r = rev (str_caps T pcs).
Proof. exact find_iff. Qed.
Print Assumptions C06_regex_find_iff.

Theorem C06_regex_best_unique : forall its T p ls e pcs p' ls' e' pcs',
  Best its T p ls e pcs -> Best its T p' ls' e' pcs' -> p = p' /\ ls = ls' /\ e = e' /\ pcs = pcs'.
Proof. exact Best_unique. Qed.
Print Assumptions C06_regex_best_unique.

(* the order is a total order on the parses of one pattern (they have one length per star) *)
Theorem C06_regex_order : forall l l',
  (lex_ge l l' -> lex_ge l' l -> l = l') /\ (length l = length l' -> lex_ge l l' \/ lex_ge l' l) /\
  (forall l'', lex_ge l l' -> lex_ge l' l'' -> lex_ge l l'').
Proof. exact lex_ge_order. Qed.
Print Assumptions C06_regex_order.

Theorem C06_regex_parse_stars : forall T its p ops ls e pcs, Parse T its p ops ls e pcs -> length ls = nstars its.
Proof. exact Parse_stars. Qed.
Print Assumptions C06_regex_parse_stars.

(* MatchString *)
Theorem C06_regex_matches_iff : forall its T,
  matches its T = true <-> exists p ls e pcs, Match its T p ls e pcs.
Proof. exact matches_iff. Qed.
Print Assumptions C06_regex_matches_iff.

(* captures are verbatim sub-ranges of the text, inside the match: T = before ++ capture ++ after *)
Theorem C06_regex_captures_verbatim : forall its T r g v,
  find its T = Some r -> In (g, v) (m_caps r) ->
  exists a b, m_start r <= a /\ a <= b /\ b <= m_end r /\ m_end r <= length T /\
              v = sub T a b /\ T = (firstn a T ++ v ++ skipn b T)%list.
Proof. exact find_caps_substrings. Qed.
Print Assumptions C06_regex_captures_verbatim.

(* the matched text is the concatenation of the pieces the items consume (anchors and group marks consume
   nothing): [Shape its ls w] spells the pattern out as a word *)
Theorem C06_regex_match_is_concatenation : forall T its p ops ls e pcs,
  Parse T its p ops ls e pcs -> p <= length T -> Shape its ls (sub T p e).
Proof. exact Parse_shape. Qed.
Print Assumptions C06_regex_match_is_concatenation.

(* the matcher with accumulators (m) and the scan (find) are the string images of the instrumented matcher
   whose result the correspondence stage compares index by index with regexp.FindStringSubmatchIndex *)
Theorem C06_regex_find_idx_agrees : forall its T,
  match find_parse its T with
  | Some pm =>
      find its T = Some (rmatch_of T pm) /\
      find_idx its T = Some (N.of_nat (pm_start pm) :: N.of_nat (pm_end pm)
                             :: flat_map (group_idx (pm_caps pm)) (seq 1 (ngroups its))) /\
      forall g, cap g (rmatch_of T pm) =
                match lookup_g g (rev (pm_caps pm)) with Some (a, b) => sub T a b | None => [] end
  | None => find its T = None /\ find_idx its T = None
  end.
Proof. exact find_idx_agrees. Qed.
Print Assumptions C06_regex_find_idx_agrees.

Theorem C06_regex_find_parse_iff : forall its T pm,
  find_parse its T = Some pm <-> Best its T (pm_start pm) (pm_stars pm) (pm_end pm) (pm_caps pm).
Proof. exact find_parse_iff. Qed.
Print Assumptions C06_regex_find_parse_iff.

(* a list of star lengths accepted by the checker is a parse (used to exhibit the competitors below) *)
Theorem C06_regex_parse_with_sound : forall T its pos ops ls e pcs, pos <= length T ->
  parse_with its pos (skipn pos T) ops ls = Some (e, pcs) -> Parse T its pos ops ls e pcs.
Proof. exact parse_with_sound. Qed.
Print Assumptions C06_regex_parse_with_sound.

(* ---------- examples on generated patterns: the hypotheses are met on non-trivial inputs ---------- *)
Open Scope string_scope.

(* failedPasswordAuthRE, a user name that contains the literal " from " that follows its field, and a source that
   contains " port ": two fields must backtrack.  The match found: user "a from b", source "c port 1". *)
Definition ex_fp_text : str := s2l "Failed password for a from b from c port 1 port 22 ssh2".
Example C06_regex_example_failed_password :
  find_parse failedPasswordAuthRE ex_fp_text =
    Some {| pm_start := 0; pm_end := 55; pm_stars := [8; 8; 1; 0];
            pm_caps := [(1, (20, 28)); (2, (34, 42)); (3, (48, 50))] |}
  /\ Best failedPasswordAuthRE ex_fp_text 0 [8; 8; 1; 0] 55 [(1, (20, 28)); (2, (34, 42)); (3, (48, 50))]
  /\ (* a competitor: the user field cut at the FIRST " from " is a parse too, and it is beaten *)
     Match failedPasswordAuthRE ex_fp_text 0 [1; 15; 1; 0] 55 [(1, (20, 21)); (2, (27, 42)); (3, (48, 50))]
  /\ prefers 0 [8; 8; 1; 0] 0 [1; 15; 1; 0]
  /\ option_map (fun r => (cap 1 r, cap 2 r, cap 3 r)) (find failedPasswordAuthRE ex_fp_text)
     = Some (s2l "a from b", s2l "c port 1", s2l "22").
Proof.
  assert (E : find_parse failedPasswordAuthRE ex_fp_text =
    Some {| pm_start := 0; pm_end := 55; pm_stars := [8; 8; 1; 0];
            pm_caps := [(1, (20, 28)); (2, (34, 42)); (3, (48, 50))] |}) by (vm_compute; reflexivity).
  split; [exact E|]. split; [exact (proj1 (C06_regex_find_parse_iff _ _ _) E)|].
  split; [split; [vm_compute; apply Nat.leb_le; reflexivity|apply C06_regex_parse_with_sound; [apply Nat.leb_le; reflexivity|vm_compute; reflexivity]]|].
  split; [right; split; [reflexivity|apply LG_gt; apply Nat.ltb_lt; reflexivity]|].
  vm_compute. reflexivity.
Qed.

(* loginRE is unanchored: text in front of the message, a complete second message behind it.  The match starts
   at the FIRST message (offset 4) and its greedy user field reaches up to the second message's " from ". *)
Definition ex_login_text : str :=
  s2l "xyz Accepted publickey for u from h port 1 ssh2: RSA SHA256:k Accepted publickey for v from g port 2 ssh2: ED SHA256:j".
Example C06_regex_example_login :
  option_map (fun pm => (pm_start pm, pm_end pm, pm_stars pm)) (find_parse loginRE ex_login_text) = Some (4, 118, [59; 1; 1; 0; 8; 0])
  /\ (exists pcs, Best loginRE ex_login_text 4 [59; 1; 1; 0; 8; 0] 118 pcs)
  /\ (* the second message alone is a match too (start 62): it starts later, so it loses *)
     (exists pcs, Match loginRE ex_login_text 62 [1; 1; 1; 0; 8; 0] 118 pcs)
  /\ (* and so is the first message cut at its own fields (start 4, shorter user field) *)
     (exists e pcs, Match loginRE ex_login_text 4 [1; 1; 1; 0; 9; 0] e pcs)
  /\ option_map (fun r => cap 1 r) (find loginRE ex_login_text)
     = Some (s2l "u from h port 1 ssh2: RSA SHA256:k Accepted publickey for v").
Proof.
  destruct (find_parse loginRE ex_login_text) as [pm|] eqn:E; [|vm_compute in E; discriminate].
  assert (Hv : (pm_start pm, pm_end pm, pm_stars pm) = (4, 118, [59; 1; 1; 0; 8; 0])) by (vm_compute in E; injection E as <-; reflexivity).
  split; [cbn; f_equal; exact Hv|].
  split.
  { exists (pm_caps pm). injection Hv as <- <- <-. apply C06_regex_find_parse_iff. exact E. }
  split.
  { destruct (parse_with loginRE 62 (skipn 62 ex_login_text) [] [1; 1; 1; 0; 8; 0]) as [[e pcs]|] eqn:P; [|vm_compute in P; discriminate].
    assert (e = 118) by (vm_compute in P; injection P as <- _; reflexivity). subst e.
    exists pcs. split; [apply Nat.leb_le; reflexivity|]. apply C06_regex_parse_with_sound; [apply Nat.leb_le; reflexivity|exact P]. }
  split.
  { destruct (parse_with loginRE 4 (skipn 4 ex_login_text) [] [1; 1; 1; 0; 9; 0]) as [[e pcs]|] eqn:P; [|vm_compute in P; discriminate].
    exists e, pcs. split; [apply Nat.leb_le; reflexivity|]. apply C06_regex_parse_with_sound; [apply Nat.leb_le; reflexivity|exact P]. }
  vm_compute. reflexivity.
Qed.

(* ---------- bytes and runes ----------
   Go's regexp consumes RUNES (utf8.DecodeRuneInString steps; an invalid byte is U+FFFD, one byte), the items
   ILit / IOne / IStar consume BYTES.  DESIGN.md section 3 said the two coincide for the generated patterns; the
   function-level stage found that false for the two patterns ending in an unescaped dot
   (reverseMappingCheckFailedRE, doesNotMapBackToAddrRE: a final multi-byte rune is ONE `.` for Go, the byte item
   consumed one byte and `$` failed).  Repaired (group R): such an item is now IRune (below: on an ASCII byte it IS
   IOne, so the theorems above are unchanged), and the condition under which byte-level stars and rune-level stars
   stop at the same places is explicit, [rune_safe] (Model/RegexSpec.v), refused by go2v when violated and
   re-checked here of the generated patterns:
     - every class holds all or none of the bytes >= 0x80 ([classes_uniform]);
     - a single BYTE item over a class with them is the head of x+ ([items_rune_safe]);
     - a greedy star over such a class is followed, behind group marks, by an ASCII literal, a byte of an
       ASCII-only class, $ or the pattern's end ([follow_ok]);
     - the pattern is anchored or starts with an ASCII literal / ASCII-only class ([start_ok]).
   Proved at byte level: the offset of an ASCII byte and the end of the text are rune boundaries of Go's decoding
   loop in ANY byte string; hence such a star ends at a rune boundary in every parse, and IRune consumes exactly one
   decoding step.  What remains assumed: that Go's regexp, on rune-safe patterns, is this semantics (exercised by
   stage prims on multi-byte runes, invalid UTF-8 and NUL for all 20 patterns). *)
Example C06_regex_all_patterns_rune_safe : forallb (fun p => rune_safe (snd p)) all_regexes = true.
Proof. vm_compute. reflexivity. Qed.

Example C06_regex_all_patterns_listed : map fst all_regexes = all_regex_names /\ length all_regexes = 20.
Proof. vm_compute. split; reflexivity. Qed.

Theorem C06_regex_rune_on_ascii : forall k r pos x s ops cs,
  (N_of_ascii x <? 128)%N = true ->
  m (IRune k :: r) pos (x :: s) ops cs = m (IOne k :: r) pos (x :: s) ops cs.
Proof. exact m_rune_ascii. Qed.
Print Assumptions C06_regex_rune_on_ascii.

Theorem C06_regex_ascii_offset_is_boundary : forall T q,
  q = length T \/ (exists c, nth_error T q = Some c /\ is_ascii c = true) -> Boundary T q.
Proof. exact ascii_offset_is_boundary. Qed.
Print Assumptions C06_regex_ascii_offset_is_boundary.

Theorem C06_regex_star_ends_at_boundary : forall T k r p ops n ls e pcs,
  Parse T (IStar k :: r) p ops (n :: ls) e pcs ->
  follow_ok r = true -> classes_uniform r = true -> only_marks r = false -> Boundary T (p + n).
Proof. exact star_ends_at_boundary. Qed.
Print Assumptions C06_regex_star_ends_at_boundary.

Theorem C06_regex_rune_item_is_one_step : forall T k r p ops ls e pcs,
  Parse T (IRune k :: r) p ops ls e pcs -> Boundary T p ->
  exists c, nth_error T p = Some c /\ in_cls k c = true /\
            Boundary T (p + snd (Utf8.decode_rune (skipn p T))) /\
            Parse T r (p + snd (Utf8.decode_rune (skipn p T))) ops ls e pcs.
Proof. exact rune_item_is_one_step. Qed.
Print Assumptions C06_regex_rune_item_is_one_step.

(* the final dot of the reverse-mapping message is one rune: "é" (2 bytes), an invalid byte; not two runes *)
Example C06_regex_example_final_rune :
  let pre := s2l "reverse mapping checking getaddrinfo for a [b] failed" in
  matches reverseMappingCheckFailedRE (pre ++ s2l ".")%list = true /\
  matches reverseMappingCheckFailedRE (pre ++ hx "c3a9")%list = true /\
  matches reverseMappingCheckFailedRE (pre ++ hx "f09f9880")%list = true /\
  matches reverseMappingCheckFailedRE (pre ++ hx "ff")%list = true /\
  matches reverseMappingCheckFailedRE (pre ++ hx "e282")%list = false /\
  matches reverseMappingCheckFailedRE (pre ++ s2l "..")%list = false /\
  matches reverseMappingCheckFailedRE pre = false /\
  option_map (fun pm => (pm_end pm, pm_caps pm)) (find_parse reverseMappingCheckFailedRE (pre ++ hx "c3a9")%list)
    = Some (55, [(1, (41, 42)); (2, (44, 45))]).
Proof. vm_compute. repeat split; reflexivity. Qed.
Close Scope string_scope.


(* ====================================================================================================
   What arrives on the pipes is what the processors are handed (round 7).
   C06 is a statement about what the DAEMON emits for the records written to its pipes; the theorems above
   start at the record the processor is handed.  The reader between the two - NamedPipeIngester.Ingest, the
   wrappers of the two ingesters and their Process callbacks - is regenerated into Gen/IngestProg.v on every
   run; the statements below (proved in Proofs/IngestIRTie.v, restated here so that they are obligations of
   C06) say that for every chunking of the pipe's byte stream each newline-terminated record is handed to
   the callback exactly once, in order, with exactly its bytes (Model/Framing.v [ingest], about which C12's
   theorems are proved), that the pipe is opened read-only (so the last writer's close is end-of-stream and an
   unterminated tail is never joined to a later writer's bytes), and what the callback does with the
   record.  Any edit of the reader changes the generated program and these stop checking.
   ==================================================================================================== *)
From Coq Require Import Ascii String List.
From AM Require Import Model.Framing Model.IngestIR Gen.IngestProg Proofs.IngestIRTie.
Import ListNotations.
Open Scope string_scope.
Open Scope list_scope.
Open Scope nat_scope.

Theorem C06_records_reach_processor_unchanged : forall cs cb,
  run_ingest gen_Ingest cs (ascii_of_nat (wr_delim gen_auditlog_Ingest)) cb = Some (ingest cs newline cb) /\
  run_ingest gen_Ingest cs (ascii_of_nat (wr_delim gen_syslog_Ingest)) cb = Some (ingest cs newline cb).
Proof. exact wrapped_ingest_from_source. Qed.
Print Assumptions C06_records_reach_processor_unchanged.

(* the reader's statements: ReadString with the caller's delimiter, the line handed on as it was read *)
Theorem C06_pipe_reader_loop_from_source :
  ip_loop gen_Ingest = [
    IReadString "line" "err" DParam;
    IIf (CErrNotNil "err") [ILog "Errorf"; IReturn (EVar "err")] [];
    ICallback (TAssign "err") (SVar "line");
    IIf (CErrNotNil "err") [IReturn (EVar "err")] []].
Proof. exact loop_shape_from_source. Qed.
Print Assumptions C06_pipe_reader_loop_from_source.

(* the set-up: read-only open in a goroutine with a cancellable wait, errors returned unchanged, the file closed
   on cancellation and on return, the reader reads that file *)
Theorem C06_pipe_open_from_source :
  (exists i j, index_of is_onready (ip_setup gen_Ingest) = Some i /\
               index_of is_open (ip_setup gen_Ingest) = Some j /\ i < j) /\
  In (SOnReady "named-pipe-processor") (ip_setup gen_Ingest) /\
  In (SGoOpen "file" "err" ["O_RDONLY"] "ModeNamedPipe" "ready") (ip_setup gen_Ingest) /\
  In (SSelect [SArmDone ECtxErr; SArmRecv "ready"]) (ip_setup gen_Ingest) /\
  open_is_cancellable (ip_setup gen_Ingest) = true /\
  In (SIfErrReturn "err" (EVar "err")) (ip_setup gen_Ingest) /\
  In (SGoCloseOnCancel "file") (ip_setup gen_Ingest) /\
  read_is_cancellable (ip_setup gen_Ingest) = true /\
  In (SDeferClose "file") (ip_setup gen_Ingest) /\
  In (SNewReader "r" "file") (ip_setup gen_Ingest).
Proof. exact setup_from_source. Qed.
Print Assumptions C06_pipe_open_from_source.

(* sshd pipe: the callback removes exactly one trailing newline, the rest goes to ParseSyslogMessage and on to
   SshdProcessor.ProcessSshdLogEntry, whose error is returned unchanged; for a record as Ingest delivers it
   that is the record's body *)
Theorem C06_sshd_record_reaches_processor :
  gen_syslog_Process =
  {| pr_line := "line";
     pr_body := PParseAndProcess "ParseSyslogMessage" (STrimLit [10] (SVar "line"))
                                 "SshdProcessor" "ProcessSshdLogEntry" |} /\
  forall b, trim_suffix (map ascii_of_nat [10]) (b ++ [newline]) = b.
Proof. exact (conj syslog_process_from_source syslog_process_gets_body). Qed.
Print Assumptions C06_sshd_record_reaches_processor.
