(* C07 — A record delivered through the pipes is processed as if handed over directly. *)
From Coq Require Import Ascii String List Bool.
Import ListNotations.
From AM Require Import Lib.Bytes Model.Syslog Proofs.SyslogLemmas Model.SshdProc Model.SyslogIngest Proofs.SyslogIngestLemmas.
From AM Require Import Lib.GoStrings Gen.PureFuncs Proofs.PureFuncsTie.
Open Scope list_scope.

(* For every pid token without space, every padding n >= 0 and every message that does not
   begin with a space (newlines inside it are not even excluded): the record
   "<pid> <padding><message>\n" delivered through the syslog ingester yields EXACTLY the
   result (events, forwarded logins, counters, return value) the sshd processor yields for
   (pid, message), for every writer behaviour and hand-off outcome. *)
Theorem C07_sshd_framing : forall c tok n msg wok ready,
  ~ In sp tok -> hd_error msg <> Some sp ->
  via_ingester c (tok ++ sp :: repeat sp n ++ msg ++ [nl]) wok ready = process c tok msg wok ready.
Proof. exact framed_as_direct. Qed.
Print Assumptions C07_sshd_framing.

(* The message's internal spacing is preserved: re-joining the parts after the first space
   gives back exactly the text after the first space. *)
Theorem C07_internal_spacing : forall a b, ~ In sp a ->
  hd [] (split_sp (a ++ sp :: b)) = a /\ join_sp (tl (split_sp (a ++ sp :: b))) = b.
Proof. exact split_join. Qed.
Print Assumptions C07_internal_spacing.

Theorem C07_no_space_line : forall c line wok ready,
  ~ In sp (trim_nl line) -> via_ingester c line wok ready = process c [] [] wok ready.
Proof. exact no_space_empty_entry. Qed.
Print Assumptions C07_no_space_line.

(* The auditd half ("every auditd record line parses to the same audit message with or without
   its trailing newline"): go-libaudit's line parser is inside the model (Model/Auparse.v, tied to
   the real library by the auparse stage); the theorems C07_audit_* below prove the statement for
   every byte string and every message-type table. *)

Example C07_example :
  let c := {| c_node := s2l "n"; c_mid := s2l "m" |} in
  r_writes (via_ingester c (s2l "4242   Failed password for a  b from 1.2.3.4 port 22 ssh2" ++ [nl]) true true)
  = r_writes (process c (s2l "4242") (s2l "Failed password for a  b from 1.2.3.4 port 22 ssh2") true true)
  /\ length (r_writes (process c (s2l "4242") (s2l "Failed password for a  b from 1.2.3.4 port 22 ssh2") true true)) = 1.
Proof. vm_compute. split; reflexivity. Qed.

(* ---------- the framing model is the framing code ----------
   Gen/PureFuncs.v is REGENERATED on every run by translating the Go bodies of
   SyslogIngester.ParseSyslogMessage and of the argument preparation in SyslogIngester.Process into
   Gallina over executable models of the strings package (Lib/GoStrings.v: Split, Join, TrimLeft,
   TrimSuffix, ...; None = the operation panics).  The hand-written [parse] / [process_line] of
   Model/Syslog.v, about which C07_sshd_framing is proved, ARE those translations, for every line; in
   particular the translated code never panics. *)
Theorem C07_parse_from_source : forall e,
  option_map entry_pair (gen_parse_syslog_message e) = Some (Syslog.parse e).
Proof. exact parse_syslog_from_source_pair. Qed.
Print Assumptions C07_parse_from_source.

Theorem C07_process_line_from_source : forall line,
  option_map entry_pair (gen_process_line line) = Some (process_line line).
Proof. exact process_line_from_source. Qed.
Print Assumptions C07_process_line_from_source.

(* ---------- what the ingester hands over is what the processor's entry point processes ----------
   Gen/EntryMetrics.v is REGENERATED on every run from SshdProcessorer.ProcessSshdLogEntry: the per-line
   configuration takes its message from sm.Message and its PID token from sm.PID UNCHANGED (any call or
   operation on them makes the generated sketch differ), the remaining fields from the processor, and the
   result of ProcessEntry is returned as it is.  So [process c tok line] of the model is applied to exactly
   the (PID token, message) pair the syslog ingester produced. *)
From AM Require Import Gen.EntryMetrics Model.EntryMetricsIR Proofs.EntryMetricsTie.
Theorem C07_entry_from_source : forall pid msg, entry_args gen_entry (pid, msg) = Some (pid, msg).
Proof. exact entry_from_source. Qed.
Print Assumptions C07_entry_from_source.

(* ---------- the pipe loop that feeds the syslog ingester, from the source ----------
   The records Process receives are those NamedPipeIngester.Ingest cuts out of the byte stream; the model
   of that loop IS the interpretation of the loop regenerated from the source (see C12), and the syslog
   wrapper passes the newline delimiter and its own Process. *)
From AM Require Import Model.Framing Model.IngestIR Gen.IngestProg Proofs.IngestIRTie.
Theorem C07_ingest_from_source : forall cs d cb, run_ingest gen_Ingest cs d cb = Some (ingest cs d cb).
Proof. exact ingest_from_source. Qed.
Print Assumptions C07_ingest_from_source.

(* ---------- the audit half: what parseAuditLogs hands to the parser, from the source ----------
   Gen/AuditProg.v is REGENERATED on every run from processors/auditd/auditd.go; Model/AuditIR.v interprets it
   with auparse.ParseLogLine as the oracle [parse] and  line == ""  as [is_empty].  For EVERY line l that is
   not empty — whatever its length, whatever bytes it holds — the parser goroutine asks the oracle about l
   ITSELF (no trimming, no length filter, no other test stands between the receive and ParseLogLine) and does
   what the verdict says: the message is pushed to the reassembler, or the loop ends with the error that shows
   that line.  (An edit that filters, trims or rewrites the line makes this theorem, or the generated file, fail.) *)
From AM Require Model.AuditProc Model.AuditIR Gen.AuditProg Proofs.AuditIRTie.
Theorem C07_audit_line_unchanged_from_source :
  forall (line msg event cerr login AS : Type) (is_empty : line -> bool) (parse : line -> option msg)
         (mseq : msg -> BinNums.N) (mtype : msg -> nat) (coalesce : list msg -> option event) (old : event -> bool)
         (audit : AS -> event -> AS * option cerr) (rlogin : AS -> login -> AS * option cerr)
         (csess clogins : AS -> AuditIR.tmv -> AS) (dur : BinNums.Z -> nat)
         (mx tmo now : nat) (l : line) (p : AuditProc.pst line msg event cerr AS),
  is_empty l = false ->
  AuditIR.parser_step_gen line msg event cerr login AS is_empty parse mseq mtype coalesce old audit rlogin csess clogins dur
                          AuditProg.gen_audit (mx, tmo) now l p =
  Some (match parse l with
        | Some m => AuditProc.reass line msg event cerr AS mseq mtype coalesce old audit mx tmo
                      (AuditProc.consume line msg event cerr AS l p) (AuditProc.RPush now m)
        | None => AuditProc.set_perr line msg event cerr AS l (AuditProc.consume line msg event cerr AS l p)
        end).
Proof. exact AuditIRTie.parse_gets_line_unchanged. Qed.
Print Assumptions C07_audit_line_unchanged_from_source.

(* ---------- the audit half: the parser itself (go-libaudit auparse.ParseLogLine, Model/Auparse.v) ----------
   [type_of] is the library's message-type table, a parameter about which nothing is assumed.  The results
   are equalities of the FULL outcome: the same message (type, seconds, milliseconds, sequence, offset,
   RawData), the same error (errInvalidAuditHeader / errInvalidAuditMessageTypName), or - for both sides
   alike - the outcome PUnmodelled (a byte >= 0x80 in the type-name position or at an end of the text behind
   "msg=": strings.ToUpper / strings.TrimSpace leave ASCII; Model/Auparse.v says exactly when): the modelled
   domain is closed under the paddings below. *)
From Coq Require Import NArith ZArith.
From AM Require Import Model.Auparse Proofs.AuparseNum Proofs.AuparseLemmas Proofs.AuparseAudit.

(* EVERY line parses to the same result with or without its trailing newline *)
Theorem C07_audit_newline : forall (type_of : str -> option BinNums.N) (l : str),
  parse_log_line type_of (l ++ [nl]) = parse_log_line type_of l.
Proof. exact parse_log_line_newline. Qed.
Print Assumptions C07_audit_newline.

(* ... and more generally with any suffix of ASCII white space (' ' \t \n \v \f \r; CR LF in particular) *)
Theorem C07_audit_trailing_white_space : forall (type_of : str -> option BinNums.N) (l ws : str),
  all_space ws = true -> parse_log_line type_of (l ++ ws) = parse_log_line type_of l.
Proof. exact parse_log_line_trailing_ws. Qed.
Print Assumptions C07_audit_trailing_white_space.

(* ASCII white space directly behind the first "msg=" is ignored as well (it is not part of RawData) *)
Theorem C07_audit_white_space_after_msg : forall (type_of : str -> option BinNums.N) (l : str) (i : nat) (ws : str),
  go_index l msg_token = Some i -> all_space ws = true ->
  parse_log_line type_of (firstn (i + 4) l ++ ws ++ skipn (i + 4) l) = parse_log_line type_of l.
Proof. exact parse_log_line_ws_after_msg. Qed.
Print Assumptions C07_audit_white_space_after_msg.

(* Padding IN FRONT of the line is not ignored: with one more byte x before "type=" the type name is read
   one byte late, as "=" ++ T; the line is accepted iff THAT is a type name (it then carries that type), and
   is rejected with the message-type error when it is not (for the library's table: always, short of an
   "=...[n]" form). *)
Theorem C07_audit_leading_byte_shifts_type :
  forall (type_of : str -> option BinNums.N) x T lead s1 s2 s3 b trail,
  ~ In c_eq T ->
  (forall t sec msec sq,
     get_type type_of (c_eq :: T) = TyOk t -> all_space lead = true -> all_space trail = true ->
     parse_int 64%N s1 = NumOk sec -> parse_int 64%N s2 = NumOk msec -> parse_uint 32%N s3 = NumOk sq -> clean_end b ->
     parse_log_line type_of (x :: type_token ++ T ++ c_sp :: msg_token ++ lead ++ header_text s1 s2 s3 ++ b ++ trail)
     = POk (mkMsg t sec msec sq (index_of_message (c_rparen :: b)) (header_text s1 s2 s3 ++ b))) /\
  (get_type type_of (c_eq :: T) = TyErr ->
   parse_log_line type_of (x :: type_token ++ T ++ c_sp :: msg_token ++ lead ++ header_text s1 s2 s3 ++ b ++ trail)
   = PErrType).
Proof. exact leading_byte_shifts_type. Qed.
Print Assumptions C07_audit_leading_byte_shifts_type.

(* no slice expression of ParseLogLine / GetAuditMessageType / Parse / parseAuditHeader is ever out of range *)
Theorem C07_audit_parser_never_panics : forall (type_of : str -> option BinNums.N) (l : str),
  parse_log_line type_of l <> PPanic.
Proof. exact parse_log_line_never_panics. Qed.
Print Assumptions C07_audit_parser_never_panics.

(* The empty line and the blank line.  parseAuditLogs skips exactly the line "" (Gen/AuditProg.v's emptiness
   test is  line == "" : [audit_is_empty]).  The audit-log ingester hands lines over WITH their newline, so an
   empty line of the log arrives as "\n": that is not "", it is handed to the parser, the parser rejects it
   (no "msg="), and the generated parseAuditLogs ends with the parse error showing that line - for "\n" and
   for every non-empty line of ASCII white space. *)
Theorem C07_audit_blank_line_not_skipped :
  forall (type_of : str -> option BinNums.N) (ws : str), ws <> [] -> all_space ws = true ->
  audit_is_empty ws = false /\ parse_log_line type_of ws = PErrHeader /\
  audit_line_fate type_of ws = LStops PErrHeader /\ audit_line_fate type_of [] = LSkipped.
Proof. exact white_line_fate. Qed.
Print Assumptions C07_audit_blank_line_not_skipped.

Theorem C07_audit_blank_line_stops_from_source :
  forall (event cerr login AS : Type) (type_of : str -> option BinNums.N) (mtype : amsg -> nat)
         (coalesce : list amsg -> option event) (old : event -> bool)
         (audit : AS -> event -> AS * option cerr) (rlogin : AS -> login -> AS * option cerr)
         (csess clogins : AS -> AuditIR.tmv -> AS) (dur : BinNums.Z -> nat)
         (mx tmo now : nat) (ws : str) (p : AuditProc.pst str amsg event cerr AS),
  ws <> [] -> all_space ws = true ->
  AuditIR.parser_step_gen str amsg event cerr login AS audit_is_empty (parse_opt type_of) a_seq mtype coalesce old
                          audit rlogin csess clogins dur AuditProg.gen_audit (mx, tmo) now ws p =
  Some (AuditProc.set_perr str amsg event cerr AS ws (AuditProc.consume str amsg event cerr AS ws p)).
Proof. exact white_line_stops_from_source. Qed.
Print Assumptions C07_audit_blank_line_stops_from_source.

Theorem C07_audit_empty_line_skipped_from_source :
  forall (event cerr login AS : Type) (type_of : str -> option BinNums.N) (mtype : amsg -> nat)
         (coalesce : list amsg -> option event) (old : event -> bool)
         (audit : AS -> event -> AS * option cerr) (rlogin : AS -> login -> AS * option cerr)
         (csess clogins : AS -> AuditIR.tmv -> AS) (dur : BinNums.Z -> nat)
         (mx tmo now : nat) (p : AuditProc.pst str amsg event cerr AS),
  AuditIR.parser_step_gen str amsg event cerr login AS audit_is_empty (parse_opt type_of) a_seq mtype coalesce old
                          audit rlogin csess clogins dur AuditProg.gen_audit (mx, tmo) now [] p =
  Some (AuditProc.consume str amsg event cerr AS [] p).
Proof. exact empty_line_skipped_from_source. Qed.
Print Assumptions C07_audit_empty_line_skipped_from_source.

(* concrete runs; a three-entry table stands in for the library's *)
Definition c07_tbl (n : str) : option BinNums.N :=
  if seqb n (s2l "SYSCALL") then Some 1300%N else if seqb n (s2l "USER_CMD") then Some 1123%N
  else if seqb n (s2l "EOE") then Some 1320%N else None.

Example C07_audit_example_newline :
  let l := s2l "type=SYSCALL msg=audit(1690000000.123:4242): arch=c000003e syscall=59 success=yes" in
  parse_log_line c07_tbl (l ++ [nl]) = parse_log_line c07_tbl l /\
  parse_log_line c07_tbl (l ++ s2l " " ++ ["013"%char; nl]) = parse_log_line c07_tbl l /\
  parse_log_line c07_tbl l =
    POk (mkMsg 1300%N 1690000000%Z 123%Z 4242%N 1%Z (s2l "audit(1690000000.123:4242): arch=c000003e syscall=59 success=yes")) /\
  time_unix 1690000000%Z 123%Z = (1690000000, 123000000)%Z.
Proof. vm_compute. repeat split; reflexivity. Qed.

(* white space behind "msg=" is ignored; in front of "type=" or between the type and "msg=" it breaks the line *)
Example C07_audit_example_paddings :
  parse_log_line c07_tbl (s2l "type=EOE msg=  audit(1.002:3): ") = parse_log_line c07_tbl (s2l "type=EOE msg=audit(1.002:3): ") /\
  parse_log_line c07_tbl (s2l "type=EOE msg=audit(1.002:3): ") = POk (mkMsg 1320%N 1%Z 2%Z 3%N 1%Z (s2l "audit(1.002:3):")) /\
  parse_log_line c07_tbl (s2l " type=EOE msg=audit(1.002:3): ") = PErrType /\
  parse_log_line c07_tbl (s2l "type=EOE  msg=audit(1.002:3): ") = PErrType /\
  parse_log_line c07_tbl [nl] = PErrHeader /\ audit_line_fate c07_tbl [nl] = LStops PErrHeader /\
  audit_line_fate c07_tbl [] = LSkipped.
Proof. vm_compute. repeat split; reflexivity. Qed.

(* the modelled domain: a no-break space (0xC2 0xA0) at the end of the record is where strings.TrimSpace
   leaves ASCII; the model says so instead of guessing - and says the same with a newline appended *)
Example C07_audit_example_unmodelled :
  let l := s2l "type=EOE msg=audit(1.002:3): x" ++ ["194"%char; "160"%char] in
  parse_log_line c07_tbl l = PUnmodelled /\ parse_log_line c07_tbl (l ++ [nl]) = PUnmodelled.
Proof. vm_compute. split; reflexivity. Qed.

(* ====================================================================================================
   C07_strings_… — the string primitives under the syslog / sshd models (group R)

   Gen/PureFuncs.v (ParseSyslogMessage, Process's trimming, logRotationNumber, the sort comparator, ...) is
   written in the Gallina versions of Go's [strings] functions of Lib/GoStrings.v; the sshd handlers use
   Model/SshdProc.atoi for strconv.Atoi.  Each of these is (a) characterised here for ALL inputs and
   (b) compared with the real library function on every run (stage harness/prims -mode strings,
   Model/PrimsCheck.v).  Proofs: Proofs/GoStringsSpec.v. *)
From Coq Require Import Arith NArith ZArith.
From AM Require Import Proofs.GoStringsSpec.
Open Scope nat_scope.
Open Scope list_scope.

(* strings.Index: the FIRST occurrence; None (Go's -1) iff there is none; Index(s, "") = 0 *)
Theorem C07_strings_index_first : forall s sep i,
  go_index s sep = Some i <->
  i <= length s /\ occurs_at sep s i = true /\ forall j, j < i -> occurs_at sep s j = false.
Proof. exact go_index_some. Qed.
Print Assumptions C07_strings_index_first.

Theorem C07_strings_index_none : forall s sep,
  go_index s sep = None <-> forall j, j <= length s -> occurs_at sep s j = false.
Proof. exact go_index_none. Qed.
Print Assumptions C07_strings_index_none.

Theorem C07_strings_index_empty_sep : forall s, go_index s [] = Some 0.
Proof. exact go_index_empty. Qed.
Print Assumptions C07_strings_index_empty_sep.

Theorem C07_strings_index_split : forall s sep i,
  go_index s sep = Some i -> s = firstn i s ++ sep ++ skipn (i + length sep) s.
Proof. exact go_index_split. Qed.
Print Assumptions C07_strings_index_split.

(* strings.Cut *)
Theorem C07_strings_cut_found : forall s sep i,
  go_index s sep = Some i ->
  go_cut s sep = (firstn i s, skipn (i + length sep) s, true) /\
  s = firstn i s ++ sep ++ skipn (i + length sep) s.
Proof. exact go_cut_found. Qed.
Print Assumptions C07_strings_cut_found.

Theorem C07_strings_cut_not_found : forall s sep, go_index s sep = None -> go_cut s sep = (s, [], false).
Proof. exact go_cut_not_found. Qed.
Print Assumptions C07_strings_cut_not_found.

(* strings.Split for a NON-EMPTY separator: cut at the leftmost occurrence, continue behind it *)
Theorem C07_strings_split_unfold : forall sep, sep <> [] -> forall s,
  go_split s sep = match go_index s sep with
                   | Some i => firstn i s :: go_split (skipn (i + length sep) s) sep
                   | None => [s]
                   end.
Proof. exact go_split_unfold. Qed.
Print Assumptions C07_strings_split_unfold.

Theorem C07_strings_join_split : forall sep, sep <> [] -> forall s, go_join (go_split s sep) sep = s.
Proof. exact go_join_split. Qed.
Print Assumptions C07_strings_join_split.

(* number of pieces = non-overlapping leftmost occurrences (strings.Count) + 1; no piece holds the separator *)
Theorem C07_strings_split_length : forall s sep, length (go_split s sep) = S (go_count s sep).
Proof. exact go_split_length. Qed.
Print Assumptions C07_strings_split_length.

Theorem C07_strings_count_unfold : forall sep, sep <> [] -> forall s,
  go_count s sep = match go_index s sep with
                   | Some i => S (go_count (skipn (i + length sep) s) sep)
                   | None => 0
                   end.
Proof. exact go_count_unfold. Qed.
Print Assumptions C07_strings_count_unfold.

Theorem C07_strings_split_pieces_free : forall sep, sep <> [] -> forall s,
  Forall (fun p => go_index p sep = None) (go_split s sep).
Proof. exact go_split_pieces_free. Qed.
Print Assumptions C07_strings_split_pieces_free.

(* the EMPTY separator: the model yields len(s)+1 empty strings, Go splits into UTF-8 sequences - outside the
   model's domain: tools/go2v refuses a separator that is not a non-empty constant; harness/prims counts such
   cases as outside the domain *)
Theorem C07_strings_split_empty_sep_model : forall s, go_split s [] = repeat [] (S (length s)).
Proof. exact go_split_empty_sep. Qed.
Print Assumptions C07_strings_split_empty_sep_model.

(* HasPrefix / HasSuffix / TrimPrefix / TrimSuffix: exactly one removal, and only if present *)
Theorem C07_strings_has_prefix : forall s p, go_has_prefix s p = true <-> exists t, s = p ++ t.
Proof. exact go_has_prefix_iff. Qed.
Print Assumptions C07_strings_has_prefix.

Theorem C07_strings_has_suffix : forall s x, go_has_suffix s x = true <-> exists t, s = t ++ x.
Proof. exact go_has_suffix_iff. Qed.
Print Assumptions C07_strings_has_suffix.

Theorem C07_strings_trim_prefix : forall p t, go_trim_prefix (p ++ t) p = t.
Proof. exact go_trim_prefix_app. Qed.
Print Assumptions C07_strings_trim_prefix.

Theorem C07_strings_trim_prefix_absent : forall s p, go_has_prefix s p = false -> go_trim_prefix s p = s.
Proof. exact go_trim_prefix_none. Qed.
Print Assumptions C07_strings_trim_prefix_absent.

Theorem C07_strings_trim_suffix : forall t x, go_trim_suffix (t ++ x) x = t.
Proof. exact go_trim_suffix_app. Qed.
Print Assumptions C07_strings_trim_suffix.

Theorem C07_strings_trim_suffix_absent : forall s x, go_has_suffix s x = false -> go_trim_suffix s x = s.
Proof. exact go_trim_suffix_none. Qed.
Print Assumptions C07_strings_trim_suffix_absent.

(* strings.TrimLeft on a cutset of BYTES (= Go's for ASCII cutsets): the longest prefix of cutset bytes goes *)
Theorem C07_strings_trim_left : forall s cutset,
  exists a, s = a ++ go_trim_left s cutset /\ forallb (in_cutset cutset) a = true /\
            match go_trim_left s cutset with [] => True | c :: _ => in_cutset cutset c = false end.
Proof. exact go_trim_left_spec. Qed.
Print Assumptions C07_strings_trim_left.

(* a < b on strings: the strict lexicographic byte order - declaratively, and a strict TOTAL order *)
Theorem C07_strings_lt_is_lexicographic : forall a b, str_ltb a b = true <-> lex_lt a b.
Proof. exact str_ltb_iff. Qed.
Print Assumptions C07_strings_lt_is_lexicographic.

Theorem C07_strings_lt_trichotomy : forall a b,
  (str_ltb a b = true /\ a <> b /\ str_ltb b a = false) \/
  (a = b /\ str_ltb a b = false /\ str_ltb b a = false) \/
  (str_ltb b a = true /\ a <> b /\ str_ltb a b = false).
Proof. exact str_ltb_trichotomy. Qed.
Print Assumptions C07_strings_lt_trichotomy.

Theorem C07_strings_lt_trans : forall a b c, str_ltb a b = true -> str_ltb b c = true -> str_ltb a c = true.
Proof. exact str_ltb_trans. Qed.
Print Assumptions C07_strings_lt_trans.

Theorem C07_strings_lt_irrefl : forall a, str_ltb a a = false.
Proof. exact str_ltb_irrefl. Qed.
Print Assumptions C07_strings_lt_irrefl.

(* uint64 / int32 helpers = arithmetic modulo 2^64 / 2^32 *)
Theorem C07_strings_u64_add : forall a b, go_u64_add a b = ((a + b) mod 2 ^ 64)%N.
Proof. exact go_u64_add_spec. Qed.
Print Assumptions C07_strings_u64_add.

Theorem C07_strings_u64_mul : forall a b, go_u64_mul a b = ((a * b) mod 2 ^ 64)%N.
Proof. exact go_u64_mul_spec. Qed.
Print Assumptions C07_strings_u64_mul.

Theorem C07_strings_u64_sub : forall a b, Z.of_N (go_u64_sub a b) = ((Z.of_N a - Z.of_N b) mod 2 ^ 64)%Z.
Proof. exact go_u64_sub_spec. Qed.
Print Assumptions C07_strings_u64_sub.

Theorem C07_strings_i32_wrap : forall z,
  (- 2 ^ 31 <= go_i32 z < 2 ^ 31)%Z /\ ((go_i32 z - z) mod 2 ^ 32 = 0)%Z /\
  ((- 2 ^ 31 <= z < 2 ^ 31)%Z -> go_i32 z = z).
Proof. exact go_i32_wrap. Qed.
Print Assumptions C07_strings_i32_wrap.

Theorem C07_strings_u64_of_i32 : forall z, Z.of_N (go_u64_of_i32 z) = (z mod 2 ^ 64)%Z.
Proof. exact go_u64_of_i32_spec. Qed.
Print Assumptions C07_strings_u64_of_i32.

(* strconv.Atoi, exactly: optional sign, at least one digit, digits only, value in the int64 range *)
Theorem C07_strings_atoi : forall s z,
  atoi s = Some z <->
  exists neg body, atoi_syntax s neg body /\ body <> [] /\ forallb is_digit body = true /\
                   z = (if neg then - digits_value body else digits_value body)%Z /\
                   (int64_min <= z <= int64_max)%Z.
Proof. exact atoi_spec. Qed.
Print Assumptions C07_strings_atoi.

(* well-formed but out of range = error; and Go's fast path: up to 18 digits never overflow *)
Theorem C07_strings_atoi_range : forall (neg : bool) (body : str),
  body <> [] -> forallb is_digit body = true ->
  let s : str := if neg then "-"%char :: body else body in
  let z : Z := (if neg then - digits_value body else digits_value body)%Z in
  atoi s = if ((int64_min <=? z) && (z <=? int64_max))%Z then Some z else None.
Proof. exact atoi_range_error. Qed.
Print Assumptions C07_strings_atoi_range.

Theorem C07_strings_atoi_short : forall (neg : bool) (body : str),
  body <> [] -> forallb is_digit body = true -> length body <= 18 ->
  atoi (if neg then "-"%char :: body else body : str) = Some (if neg then - digits_value body else digits_value body : Z)%Z.
Proof. exact atoi_short. Qed.
Print Assumptions C07_strings_atoi_short.

(* ---------- examples: hypotheses met, characteristic runs ---------- *)
Example C07_strings_example_split :
  go_split (s2l "aaa") (s2l "aa") = [[]; s2l "a"] /\          (* non-overlapping, leftmost *)
  go_count (s2l "aaaa") (s2l "aa") = 2 /\
  go_split (s2l "a:b::c") (s2l ":") = [s2l "a"; s2l "b"; []; s2l "c"] /\
  go_join (go_split (s2l "a:b::c") (s2l ":")) (s2l ":") = s2l "a:b::c" /\
  go_index (s2l "ababa") (s2l "aba") = Some 0 /\ go_index (s2l "xaba") (s2l "aba") = Some 1 /\
  go_cut (s2l "k=v=w") (s2l "=") = (s2l "k", s2l "v=w", true) /\
  go_trim_left (s2l "  x ") (s2l " ") = s2l "x " /\
  go_trim_prefix (s2l "ababc") (s2l "ab") = s2l "abc" /\
  str_ltb (s2l "audit.log.10") (s2l "audit.log.9") = true.
Proof. vm_compute. repeat split; reflexivity. Qed.

Example C07_strings_example_atoi :
  atoi (s2l "9223372036854775807") = Some 9223372036854775807%Z /\
  atoi (s2l "9223372036854775808") = None /\
  atoi (s2l "-9223372036854775808") = Some (-9223372036854775808)%Z /\
  atoi (s2l "-9223372036854775809") = None /\
  atoi (s2l "+7") = Some 7%Z /\ atoi (s2l "-0") = Some 0%Z /\ atoi (s2l "007") = Some 7%Z /\
  atoi (s2l "1_000") = None /\ atoi (s2l " 1") = None /\ atoi (s2l "+") = None /\ atoi [] = None /\ atoi (s2l "+-1") = None /\
  (exists neg body, atoi_syntax (s2l "-42") neg body /\ body <> [] /\ forallb is_digit body = true /\ digits_value body = 42%Z).
Proof.
  vm_compute. repeat split; try reflexivity.
  exists true, (s2l "42"). repeat split; [constructor|discriminate].
Qed.
