(* C07 — A record delivered through the pipes is processed as if handed over directly. *)
From Coq Require Import Ascii String List Bool.
Import ListNotations.
From AM Require Import Lib.Bytes Model.Syslog Proofs.SyslogLemmas Model.SshdProc Model.SyslogIngest Proofs.SyslogIngestLemmas.
From AM Require Import Lib.GoStrings Gen.PureFuncs Proofs.PureFuncsTie.
Open Scope list_scope.

(* For every pid token without space, every padding n >= 0 and every message that does not
   begin with a space (newlines inside it are not even excluded): the record
   "<pid> <padding><message>\n" delivered through the syslog ingester yields EXACTLY the
   result (events, forwarded logins, counters, return value) the sshd processor yields for
   (pid, message), for every writer behaviour and hand-off outcome. *)
Theorem C07_sshd_framing : forall c tok n msg wok ready,
  ~ In sp tok -> hd_error msg <> Some sp ->
  via_ingester c (tok ++ sp :: repeat sp n ++ msg ++ [nl]) wok ready = process c tok msg wok ready.
Proof. exact framed_as_direct. Qed.
Print Assumptions C07_sshd_framing.

(* The message's internal spacing is preserved: re-joining the parts after the first space
   gives back exactly the text after the first space. *)
Theorem C07_internal_spacing : forall a b, ~ In sp a ->
  hd [] (split_sp (a ++ sp :: b)) = a /\ join_sp (tl (split_sp (a ++ sp :: b))) = b.
Proof. exact split_join. Qed.
Print Assumptions C07_internal_spacing.

Theorem C07_no_space_line : forall c line wok ready,
  ~ In sp (trim_nl line) -> via_ingester c line wok ready = process c [] [] wok ready.
Proof. exact no_space_empty_entry. Qed.
Print Assumptions C07_no_space_line.

(* The auditd half ("every auditd record line parses to the same audit message with or without
   its trailing newline") is a contract of the third-party parser (auparse.Parse trims white
   space); it is checked on the implementation by the harness (parser level) and is not a
   theorem: see DESIGN.md, C07, Partial. *)

Example C07_example :
  let c := {| c_node := s2l "n"; c_mid := s2l "m" |} in
  r_writes (via_ingester c (s2l "4242   Failed password for a  b from 1.2.3.4 port 22 ssh2" ++ [nl]) true true)
  = r_writes (process c (s2l "4242") (s2l "Failed password for a  b from 1.2.3.4 port 22 ssh2") true true)
  /\ length (r_writes (process c (s2l "4242") (s2l "Failed password for a  b from 1.2.3.4 port 22 ssh2") true true)) = 1.
Proof. vm_compute. split; reflexivity. Qed.

(* ---------- the framing model is the framing code ----------
   Gen/PureFuncs.v is REGENERATED on every run by translating the Go bodies of
   SyslogIngester.ParseSyslogMessage and of the argument preparation in SyslogIngester.Process into
   Gallina over executable models of the strings package (Lib/GoStrings.v: Split, Join, TrimLeft,
   TrimSuffix, ...; None = the operation panics).  The hand-written [parse] / [process_line] of
   Model/Syslog.v, about which C07_sshd_framing is proved, ARE those translations, for every line; in
   particular the translated code never panics. *)
Theorem C07_parse_from_source : forall e,
  option_map entry_pair (gen_parse_syslog_message e) = Some (Syslog.parse e).
Proof. exact parse_syslog_from_source_pair. Qed.
Print Assumptions C07_parse_from_source.

Theorem C07_process_line_from_source : forall line,
  option_map entry_pair (gen_process_line line) = Some (process_line line).
Proof. exact process_line_from_source. Qed.
Print Assumptions C07_process_line_from_source.

(* ---------- what the ingester hands over is what the processor's entry point processes ----------
   Gen/EntryMetrics.v is REGENERATED on every run from SshdProcessorer.ProcessSshdLogEntry: the per-line
   configuration takes its message from sm.Message and its PID token from sm.PID UNCHANGED (any call or
   operation on them makes the generated sketch differ), the remaining fields from the processor, and the
   result of ProcessEntry is returned as it is.  So [process c tok line] of the model is applied to exactly
   the (PID token, message) pair the syslog ingester produced. *)
From AM Require Import Gen.EntryMetrics Model.EntryMetricsIR Proofs.EntryMetricsTie.
Theorem C07_entry_from_source : forall pid msg, entry_args gen_entry (pid, msg) = Some (pid, msg).
Proof. exact entry_from_source. Qed.
Print Assumptions C07_entry_from_source.

(* ---------- the pipe loop that feeds the syslog ingester, from the source ----------
   The records Process receives are those NamedPipeIngester.Ingest cuts out of the byte stream; the model
   of that loop IS the interpretation of the loop regenerated from the source (see C12), and the syslog
   wrapper passes the newline delimiter and its own Process. *)
From AM Require Import Model.Framing Model.IngestIR Gen.IngestProg Proofs.IngestIRTie.
Theorem C07_ingest_from_source : forall cs d cb, run_ingest gen_Ingest cs d cb = Some (ingest cs d cb).
Proof. exact ingest_from_source. Qed.
Print Assumptions C07_ingest_from_source.

(* ---------- the audit half: what parseAuditLogs hands to the parser, from the source ----------
   Gen/AuditProg.v is REGENERATED on every run from processors/auditd/auditd.go; Model/AuditIR.v interprets it
   with auparse.ParseLogLine as the oracle [parse] and  line == ""  as [is_empty].  For EVERY line l that is
   not empty — whatever its length, whatever bytes it holds — the parser goroutine asks the oracle about l
   ITSELF (no trimming, no length filter, no other test stands between the receive and ParseLogLine) and does
   what the verdict says: the message is pushed to the reassembler, or the loop ends with the error that shows
   that line.  (An edit that filters, trims or rewrites the line makes this theorem, or the generated file, fail.) *)
From AM Require Model.AuditProc Model.AuditIR Gen.AuditProg Proofs.AuditIRTie.
Theorem C07_audit_line_unchanged_from_source :
  forall (line msg event cerr login AS : Type) (is_empty : line -> bool) (parse : line -> option msg)
         (mseq : msg -> BinNums.N) (mtype : msg -> nat) (coalesce : list msg -> option event) (old : event -> bool)
         (audit : AS -> event -> AS * option cerr) (rlogin : AS -> login -> AS * option cerr)
         (csess clogins : AS -> AuditIR.tmv -> AS) (dur : BinNums.Z -> nat)
         (mx tmo now : nat) (l : line) (p : AuditProc.pst line msg event cerr AS),
  is_empty l = false ->
  AuditIR.parser_step_gen line msg event cerr login AS is_empty parse mseq mtype coalesce old audit rlogin csess clogins dur
                          AuditProg.gen_audit (mx, tmo) now l p =
  Some (match parse l with
        | Some m => AuditProc.reass line msg event cerr AS mseq mtype coalesce old audit mx tmo
                      (AuditProc.consume line msg event cerr AS l p) (AuditProc.RPush now m)
        | None => AuditProc.set_perr line msg event cerr AS l (AuditProc.consume line msg event cerr AS l p)
        end).
Proof. exact AuditIRTie.parse_gets_line_unchanged. Qed.
Print Assumptions C07_audit_line_unchanged_from_source.
