(* C04 — Activity outside correlated SSH sessions is never emitted. *)
From Coq Require Import List Bool Arith ZArith NArith.
Import ListNotations.
From AM Require Import Lib.Assoc Model.Tracker Proofs.TrackerInv Proofs.TrackerMore.
From AM Require Import Model.TrackerConc Proofs.TrackerConcLift.
From AM Require Gen.TrackerLocks.

(* At every prefix h of any history (no well-formedness needed) and for the next operation o:
   whatever o makes the correlator write is an event of a numeric session (never "" / "unset")
   whose LOGIN record has been processed by then and whose pid is the pid of a login delivered
   by then.  Hence: nothing for sessions without a LOGIN record, nothing for sessions without a
   matching SSH login, nothing before the login is known. *)
Theorem C04_silence_step : forall (h : list top) (o : top) st' out r,
  tstep (final h) o = (st', out, r) ->
  forall l e, In (l, e) out ->
  exists s ev0 now0,
    a_ses e = SId s /\
    In (Audit ev0 now0) (h ++ [o]) /\ a_ses ev0 = SId s /\ a_type ev0 = TLogin /\ a_pid ev0 = Some (l_pid l) /\
    In_login l (h ++ [o]).
Proof. exact step_emits_only_correlated. Qed.
Print Assumptions C04_silence_step.

(* The outputs of a history are exactly the outputs of its steps (so the step form covers
   every prefix). *)
Theorem C04_outs_by_steps : forall h o, outs (h ++ [o]) = outs h ++ snd (fst (tstep (final h) o)).
Proof. exact outs_snoc. Qed.
Print Assumptions C04_outs_by_steps.

(* An event of a session the correlator does not track (never opened, or ended) that is not a
   LOGIN record is ignored: no state change, nothing written. *)
Theorem C04_untracked_ignored : forall st ev now s,
  a_ses ev = SId s -> aget N.eqb s (sess st) = None -> is_login (a_type ev) = false ->
  tstep st (Audit ev now) = (st, [], ROk).
Proof. exact stray_ignored. Qed.
Print Assumptions C04_untracked_ignored.

(* Events without session or with the kernel's unset session change nothing. *)
Theorem C04_no_session : forall st ev now,
  a_ses ev = SNone \/ a_ses ev = SUnset -> tstep st (Audit ev now) = (st, [], ROk).
Proof. intros st ev now [H|H]; cbn; unfold audit_event; rewrite H; reflexivity. Qed.
Print Assumptions C04_no_session.

(* Non-vacuity: cron-like (LOGIN, no login), console-like (no LOGIN record), unset session: nothing emitted. *)
Example C04_example :
  outs [ Audit {| a_id := 0; a_ses := SId 5; a_type := TLogin; a_pid := Some 50%Z |} 1%Z;
         Audit {| a_id := 1; a_ses := SId 5; a_type := TOther 3; a_pid := Some 51%Z |} 3%Z;
         Audit {| a_id := 2; a_ses := SId 6; a_type := TOther 3; a_pid := Some 60%Z |} 5%Z;
         RemoteLogin {| l_id := 0; l_pid := 60%Z; l_at := 0%Z; l_valid := true |} 0;
         Audit {| a_id := 3; a_ses := SUnset; a_type := TLogin; a_pid := Some 60%Z |} 7%Z;
         Audit {| a_id := 4; a_ses := SId 6; a_type := TCredDisp; a_pid := Some 60%Z |} 9%Z ] = [].
Proof. vm_compute. reflexivity. Qed.

(* ---------- the same statement for CONCURRENT deliveries ----------
   The daemon delivers logins, audit events and cleanup from different goroutines.  GENERATED from
   sessiontracker.go: every exported method of the correlator is one critical section of one mutex
   (C04_calls_atomic).  Under that mutex every complete execution of every thread system under every
   schedule writes what the sequential correlator writes on the linearization [lin] (calls in the
   order they began, each thread's program order kept; Proofs/TrackerConcLemmas.v), so the theorem
   above holds of every concurrent execution. *)
Theorem C04_calls_atomic : Gen.TrackerLocks.tracker_calls_locked = true.
Proof. vm_compute. reflexivity. Qed.
Print Assumptions C04_calls_atomic.

Theorem C04_silence_concurrent : forall progs sched (l : login) (e : aev),
  all_done (exec true progs sched) = true ->
  In (l, e) (s_out (exec true progs sched)) ->
  let h := lin progs sched in
  exists s ev0 now0,
    a_ses e = SId s /\ in_hist e h /\
    In (Audit ev0 now0) h /\ a_ses ev0 = SId s /\ a_type ev0 = TLogin /\ a_pid ev0 = Some (l_pid l) /\
    In_login l h.
Proof. exact identity_concurrent. Qed.
Print Assumptions C04_silence_concurrent.

(* ---------- the correlator of the model is the correlator of the source ----------
   Gen/TrackerProg.v is REGENERATED on every run by translating sessiontracker.go (RemoteLogin,
   AuditdEvent with both of its branches, the two cleanups, writeAndClearCache, the map operations
   they perform, deferred deletes, early returns and error classes) into a small deep-embedded
   language (Model/TrackerIR.v).  For EVERY state and EVERY operation the hand-written [tstep] of
   Model/Tracker.v, on which the theorems of this file rest, IS the interpretation of the generated
   programs, and that interpretation never gets stuck. *)
From AM Require Model.TrackerIR Gen.TrackerProg Proofs.TrackerIRTie.
Theorem C04_tracker_from_source : forall st o,
  Proofs.TrackerIRTie.run_generated st o = Some (Model.Tracker.tstep st o).
Proof. exact Proofs.TrackerIRTie.tracker_from_source. Qed.
Print Assumptions C04_tracker_from_source.


(* ====================================================================================================
   What arrives on the pipes is what the processors are handed (round 7).
   C04 is a statement about what the DAEMON emits for the records written to its pipes; the theorems above
   start at the record the processor is handed.  The reader between the two - NamedPipeIngester.Ingest, the
   wrappers of the two ingesters and their Process callbacks - is regenerated into Gen/IngestProg.v on every
   run; the statements below (proved in Proofs/IngestIRTie.v, restated here so that they are obligations of
   C04) say that for every chunking of the pipe's byte stream each newline-terminated record is handed to
   the callback exactly once, in order, with exactly its bytes (Model/Framing.v [ingest], about which C12's
   theorems are proved), that the pipe is opened read-only (so the last writer's close is end-of-stream and an
   unterminated tail is never joined to a later writer's bytes), and what the callback does with the
   record.  Any edit of the reader changes the generated program and these stop checking.
   ==================================================================================================== *)
From Coq Require Import Ascii String List.
From AM Require Import Model.Framing Model.IngestIR Gen.IngestProg Proofs.IngestIRTie.
Import ListNotations.
Open Scope string_scope.
Open Scope list_scope.
Open Scope nat_scope.

Theorem C04_records_reach_processor_unchanged : forall cs cb,
  run_ingest gen_Ingest cs (ascii_of_nat (wr_delim gen_auditlog_Ingest)) cb = Some (ingest cs newline cb) /\
  run_ingest gen_Ingest cs (ascii_of_nat (wr_delim gen_syslog_Ingest)) cb = Some (ingest cs newline cb).
Proof. exact wrapped_ingest_from_source. Qed.
Print Assumptions C04_records_reach_processor_unchanged.

(* the reader's statements: ReadString with the caller's delimiter, the line handed on as it was read *)
Theorem C04_pipe_reader_loop_from_source :
  ip_loop gen_Ingest = [
    IReadString "line" "err" DParam;
    IIf (CErrNotNil "err") [ILog "Errorf"; IReturn (EVar "err")] [];
    ICallback (TAssign "err") (SVar "line");
    IIf (CErrNotNil "err") [IReturn (EVar "err")] []].
Proof. exact loop_shape_from_source. Qed.
Print Assumptions C04_pipe_reader_loop_from_source.

(* the set-up: read-only open in a goroutine with a cancellable wait, errors returned unchanged, the file closed
   on cancellation and on return, the reader reads that file *)
Theorem C04_pipe_open_from_source :
  (exists i j, index_of is_onready (ip_setup gen_Ingest) = Some i /\
               index_of is_open (ip_setup gen_Ingest) = Some j /\ i < j) /\
  In (SOnReady "named-pipe-processor") (ip_setup gen_Ingest) /\
  In (SGoOpen "file" "err" ["O_RDONLY"] "ModeNamedPipe" "ready") (ip_setup gen_Ingest) /\
  In (SSelect [SArmDone ECtxErr; SArmRecv "ready"]) (ip_setup gen_Ingest) /\
  open_is_cancellable (ip_setup gen_Ingest) = true /\
  In (SIfErrReturn "err" (EVar "err")) (ip_setup gen_Ingest) /\
  In (SGoCloseOnCancel "file") (ip_setup gen_Ingest) /\
  read_is_cancellable (ip_setup gen_Ingest) = true /\
  In (SDeferClose "file") (ip_setup gen_Ingest) /\
  In (SNewReader "r" "file") (ip_setup gen_Ingest).
Proof. exact setup_from_source. Qed.
Print Assumptions C04_pipe_open_from_source.

(* audit pipe: the callback is one select with a ctx.Done arm (returns ctx.Err()) and the send of the line,
   unchanged, on AuditLogChan (returns nil) *)
Theorem C04_audit_record_reaches_processor :
  gen_auditlog_Process =
  {| pr_line := "line";
     pr_body := PSelect [PArmDone ECtxErr; PArmSend "AuditLogChan" (SVar "line") ENil] |}.
Proof. exact auditlog_process_from_source. Qed.
Print Assumptions C04_audit_record_reaches_processor.
