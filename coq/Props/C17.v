(* C17 — Client-chosen text cannot forge or suppress the record of a failed login. *)
From Coq Require Import Ascii String List Bool Arith ZArith NArith.
Import ListNotations.
From AM Require Import Lib.Bytes Lib.Regex Proofs.RegexLemmas Model.SshdProc Proofs.SshdFields Proofs.SshdForms.
From AM Require Import Gen.SshdDispatch Gen.SshdHandlers Model.SshdSketch Proofs.SshdHandlersTie.
Open Scope string_scope.
Open Scope list_scope.

(* For EVERY user name u without newline — spaces, " from ", " port ", whole forged fragments
   included —, every peer address s without white space and every decimal port p, each of the
   three messages in which sshd prints a client-supplied name followed by the peer address and
   port yields exactly one failed event whose source and port are the ones sshd appended and
   whose account is u verbatim.  (The "invalid user " prefix sshd may print before the name in
   two of them is covered by taking u := "invalid user " ++ name.)
   The regular expressions and the dispatch table are GENERATED from the current source. *)
Theorem C17_failed_password : forall c tok u s p wok ready,
  no_nl u -> no_space s -> digits p ->
  process c tok (fmt_failed_password u s p) wok ready = failure_result wok (ev_user_src_port c tok u s p).
Proof. exact process_failed_password. Qed.
Print Assumptions C17_failed_password.

Theorem C17_max_attempts : forall c tok u s p wok ready,
  no_nl u -> no_space s -> digits p ->
  process c tok (fmt_max_attempts u s p) wok ready = failure_result wok (ev_user_src_port c tok u s p).
Proof. exact process_max_attempts. Qed.
Print Assumptions C17_max_attempts.

Theorem C17_invalid_user : forall c tok u s p wok ready,
  no_nl u -> s <> [] -> no_space s -> digits p ->
  process c tok (fmt_invalid_user u s p) wok ready = failure_result wok (ev_user_src_port c tok u s p).
Proof. exact process_invalid_user. Qed.
Print Assumptions C17_invalid_user.

(* Non-vacuity: a forged fragment inside the name; the recorded source is the genuine one. *)
Example C17_example :
  let c := {| c_node := s2l "n"; c_mid := s2l "m" |} in
  let r := process c (s2l "77") (fmt_invalid_user (s2l "x from 6.6.6.6 port 1") (s2l "1.2.3.4") (s2l "22")) true true in
  map (fun e => (ev_src e, ev_port e, ev_logged_as e)) (r_writes r)
  = [(s2l "1.2.3.4", Some (s2l "22"), s2l "x from 6.6.6.6 port 1")].
Proof. vm_compute. reflexivity. Qed.
Example C17_example_hyps :
  no_nl (s2l "x from 6.6.6.6 port 1") /\ no_space (s2l "1.2.3.4") /\ digits (s2l "22").
Proof. repeat split; try reflexivity. discriminate. Qed.

(* ---------- the handlers of the model are the handlers of the source ----------
   Gen/SshdHandlers.v is REGENERATED on every run by symbolic evaluation of each handler's Go body
   (which capture group / constant / processor field feeds which event field, outcome, metric calls,
   whether and with which credential the login is handed on).  For the 18 handlers that have a
   sketch, the hand-written handler of Model/SshdProc.v IS the interpretation of that sketch; the
   two without a flat sketch (public key: three branches; invalid certificate: no regex) are covered
   by the decision-tree form below. *)
Theorem C17_handlers_from_source : forall h hs, handler_sketch h = Some hs ->
  forall c tok line wok ready, run_sketch hs c tok line wok ready = Some (run_handler h c tok line wok ready).
Proof. exact run_sketch_is_run_handler. Qed.
Print Assumptions C17_handlers_from_source.

Theorem C17_handlers_without_sketch : forall h, handler_sketch h = None ->
  h = h_processAcceptPublicKeyEntry \/ h = h_processCertificateInvalidEntry.
Proof. exact sketch_coverage. Qed.
Print Assumptions C17_handlers_without_sketch.

(* All 20 handlers: the hand-written handler IS the interpretation [run_generated] of the decision tree that
   go2v regenerates from the handler's Go body on every run (Gen/SshdHandlers.v: [handler_prog]); this
   includes the three-branch public-key handler (second regex on the rest of the line, slice start
   len(match)+1 with its panic guard) and the invalid-certificate handler (reason = line from the length
   of the prefix literal on, fallback text). *)
Theorem C17_all_handlers_from_source : forall h c tok line wok ready,
  run_generated h c tok line wok ready = Some (run_handler h c tok line wok ready).
Proof. exact all_handlers_from_source. Qed.
Print Assumptions C17_all_handlers_from_source.

(* ---------- what the ingester hands over is what the processor's entry point processes ----------
   Gen/EntryMetrics.v is REGENERATED on every run from SshdProcessorer.ProcessSshdLogEntry: the per-line
   configuration takes its message from sm.Message and its PID token from sm.PID UNCHANGED (any call or
   operation on them makes the generated sketch differ), the remaining fields from the processor, and the
   result of ProcessEntry is returned as it is.  So [process c tok line] of the model is applied to exactly
   the (PID token, message) pair the syslog ingester produced. *)
From AM Require Import Gen.EntryMetrics Model.EntryMetricsIR Proofs.EntryMetricsTie.
Theorem C17_entry_from_source : forall pid msg, entry_args gen_entry (pid, msg) = Some (pid, msg).
Proof. exact entry_from_source. Qed.
Print Assumptions C17_entry_from_source.

Theorem C17_entry_context_is_callers : en_lookup "ctx" (en_config gen_entry) = Some FromCtxParam.
Proof. exact entry_context_is_callers. Qed.
Print Assumptions C17_entry_context_is_callers.

(* the body of ProcessSshdLogEntry is ONE call of ProcessEntry on a fresh per-line configuration whose result is
   returned: no guard / early return, loop, defer, derived context or write to the long-lived processor (the generator
   has no form for them: the generated file would not type-check) *)
Theorem C17_entry_single_call :
  en_callee gen_entry = "ProcessEntry" /\ en_result_returned gen_entry = true /\
  map fst (en_config gen_entry) = ["ctx"; "logins"; "logEntry"; "nodeName"; "machineID"; "when"; "pid"; "eventW"; "metrics"] /\
  en_lookup "when" (en_config gen_entry) = Some FromTimeNow.
Proof. exact entry_single_call. Qed.
Print Assumptions C17_entry_single_call.

(* ---------- the message the processor is given is the syslog line's own text ----------
   Gen/PureFuncs.v is REGENERATED on every run by translating the Go bodies of SyslogIngester.ParseSyslogMessage and of
   the argument preparation in SyslogIngester.Process into Gallina over executable models of the strings package
   (Lib/GoStrings.v; None = the operation panics).  The hand-written [parse] / [process_line] of Model/Syslog.v ARE those
   translations, for every line: the record is split at the first blank run after the PID token and nothing in the
   message is collapsed, decoded, unescaped or otherwise rewritten on its way to the processor (a call of any function
   the translator does not know makes the generated file ill-typed and re-opens these obligations). *)
From AM Require Import Lib.GoStrings Gen.PureFuncs Proofs.PureFuncsTie Model.Syslog.
Theorem C17_parse_from_source : forall e,
  option_map entry_pair (gen_parse_syslog_message e) = Some (Syslog.parse e).
Proof. exact parse_syslog_from_source_pair. Qed.
Print Assumptions C17_parse_from_source.

Theorem C17_process_line_from_source : forall line,
  option_map entry_pair (gen_process_line line) = Some (process_line line).
Proof. exact process_line_from_source. Qed.
Print Assumptions C17_process_line_from_source.

(* ---------- the regular-expression primitive (group R; statements and their reading in Props/C06.v, C06_regex_…) ----------
   What a handler reads out of a failed-login line is the capture of THE leftmost-first match (unique; no other parse of
   the line starts earlier or has a longer earlier greedy field), and every capture is a verbatim sub-range of the
   line: client-chosen text can move a field boundary only to where another parse of the whole pattern exists and
   is preferred by that fixed order - which the C17 theorems above exclude form by form. *)
From AM Require Import Model.RegexSpec Proofs.RegexSpecLemmas.
Theorem C17_regex_capture_of_best_match : forall its line r,
  find its line = Some r ->
  (exists ls pcs, Best its line (m_start r) ls (m_end r) pcs /\ m_caps r = rev (str_caps line pcs)) /\
  (forall g v, In (g, v) (m_caps r) ->
     exists a b, m_start r <= a /\ a <= b /\ b <= m_end r /\ m_end r <= length line /\ v = sub line a b).
Proof. exact capture_of_best_match. Qed.
Print Assumptions C17_regex_capture_of_best_match.


(* ====================================================================================================
   What arrives on the pipes is what the processors are handed (round 7).
   C17 is a statement about what the DAEMON emits for the records written to its pipes; the theorems above
   start at the record the processor is handed.  The reader between the two - NamedPipeIngester.Ingest, the
   wrappers of the two ingesters and their Process callbacks - is regenerated into Gen/IngestProg.v on every
   run; the statements below (proved in Proofs/IngestIRTie.v, restated here so that they are obligations of
   C17) say that for every chunking of the pipe's byte stream each newline-terminated record is handed to
   the callback exactly once, in order, with exactly its bytes (Model/Framing.v [ingest], about which C12's
   theorems are proved), that the pipe is opened read-only (so the last writer's close is end-of-stream and an
   unterminated tail is never joined to a later writer's bytes), and what the callback does with the
   record.  Any edit of the reader changes the generated program and these stop checking.
   ==================================================================================================== *)
From Coq Require Import Ascii String List.
From AM Require Import Model.Framing Model.IngestIR Gen.IngestProg Proofs.IngestIRTie.
Import ListNotations.
Open Scope string_scope.
Open Scope list_scope.
Open Scope nat_scope.

Theorem C17_records_reach_processor_unchanged : forall cs cb,
  run_ingest gen_Ingest cs (ascii_of_nat (wr_delim gen_auditlog_Ingest)) cb = Some (ingest cs newline cb) /\
  run_ingest gen_Ingest cs (ascii_of_nat (wr_delim gen_syslog_Ingest)) cb = Some (ingest cs newline cb).
Proof. exact wrapped_ingest_from_source. Qed.
Print Assumptions C17_records_reach_processor_unchanged.

(* the reader's statements: ReadString with the caller's delimiter, the line handed on as it was read *)
Theorem C17_pipe_reader_loop_from_source :
  ip_loop gen_Ingest = [
    IReadString "line" "err" DParam;
    IIf (CErrNotNil "err") [ILog "Errorf"; IReturn (EVar "err")] [];
    ICallback (TAssign "err") (SVar "line");
    IIf (CErrNotNil "err") [IReturn (EVar "err")] []].
Proof. exact loop_shape_from_source. Qed.
Print Assumptions C17_pipe_reader_loop_from_source.

(* the set-up: read-only open in a goroutine with a cancellable wait, errors returned unchanged, the file closed
   on cancellation and on return, the reader reads that file *)
Theorem C17_pipe_open_from_source :
  (exists i j, index_of is_onready (ip_setup gen_Ingest) = Some i /\
               index_of is_open (ip_setup gen_Ingest) = Some j /\ i < j) /\
  In (SOnReady "named-pipe-processor") (ip_setup gen_Ingest) /\
  In (SGoOpen "file" "err" ["O_RDONLY"] "ModeNamedPipe" "ready") (ip_setup gen_Ingest) /\
  In (SSelect [SArmDone ECtxErr; SArmRecv "ready"]) (ip_setup gen_Ingest) /\
  open_is_cancellable (ip_setup gen_Ingest) = true /\
  In (SIfErrReturn "err" (EVar "err")) (ip_setup gen_Ingest) /\
  In (SGoCloseOnCancel "file") (ip_setup gen_Ingest) /\
  read_is_cancellable (ip_setup gen_Ingest) = true /\
  In (SDeferClose "file") (ip_setup gen_Ingest) /\
  In (SNewReader "r" "file") (ip_setup gen_Ingest).
Proof. exact setup_from_source. Qed.
Print Assumptions C17_pipe_open_from_source.

(* sshd pipe: the callback removes exactly one trailing newline, the rest goes to ParseSyslogMessage and on to
   SshdProcessor.ProcessSshdLogEntry, whose error is returned unchanged; for a record as Ingest delivers it
   that is the record's body *)
Theorem C17_sshd_record_reaches_processor :
  gen_syslog_Process =
  {| pr_line := "line";
     pr_body := PParseAndProcess "ParseSyslogMessage" (STrimLit [10] (SVar "line"))
                                 "SshdProcessor" "ProcessSshdLogEntry" |} /\
  forall b, trim_suffix (map ascii_of_nat [10]) (b ++ [newline]) = b.
Proof. exact (conj syslog_process_from_source syslog_process_gets_body). Qed.
Print Assumptions C17_sshd_record_reaches_processor.
