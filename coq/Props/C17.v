(* C17 — Client-chosen text cannot forge or suppress the record of a failed login. *)
From Coq Require Import Ascii String List Bool Arith ZArith NArith.
Import ListNotations.
From AM Require Import Lib.Bytes Lib.Regex Proofs.RegexLemmas Model.SshdProc Proofs.SshdFields Proofs.SshdForms.
Open Scope string_scope.
Open Scope list_scope.

(* For EVERY user name u without newline — spaces, " from ", " port ", whole forged fragments
   included —, every peer address s without white space and every decimal port p, each of the
   three messages in which sshd prints a client-supplied name followed by the peer address and
   port yields exactly one failed event whose source and port are the ones sshd appended and
   whose account is u verbatim.  (The "invalid user " prefix sshd may print before the name in
   two of them is covered by taking u := "invalid user " ++ name.)
   The regular expressions and the dispatch table are GENERATED from the current source. *)
Theorem C17_failed_password : forall c tok u s p wok ready,
  no_nl u -> no_space s -> digits p ->
  process c tok (fmt_failed_password u s p) wok ready = failure_result wok (ev_user_src_port c tok u s p).
Proof. exact process_failed_password. Qed.
Print Assumptions C17_failed_password.

Theorem C17_max_attempts : forall c tok u s p wok ready,
  no_nl u -> no_space s -> digits p ->
  process c tok (fmt_max_attempts u s p) wok ready = failure_result wok (ev_user_src_port c tok u s p).
Proof. exact process_max_attempts. Qed.
Print Assumptions C17_max_attempts.

Theorem C17_invalid_user : forall c tok u s p wok ready,
  no_nl u -> s <> [] -> no_space s -> digits p ->
  process c tok (fmt_invalid_user u s p) wok ready = failure_result wok (ev_user_src_port c tok u s p).
Proof. exact process_invalid_user. Qed.
Print Assumptions C17_invalid_user.

(* Non-vacuity: a forged fragment inside the name; the recorded source is the genuine one. *)
Example C17_example :
  let c := {| c_node := s2l "n"; c_mid := s2l "m" |} in
  let r := process c (s2l "77") (fmt_invalid_user (s2l "x from 6.6.6.6 port 1") (s2l "1.2.3.4") (s2l "22")) true true in
  map (fun e => (ev_src e, ev_port e, ev_logged_as e)) (r_writes r)
  = [(s2l "1.2.3.4", Some (s2l "22"), s2l "x from 6.6.6.6 port 1")].
Proof. vm_compute. reflexivity. Qed.
Example C17_example_hyps :
  no_nl (s2l "x from 6.6.6.6 port 1") /\ no_space (s2l "1.2.3.4") /\ digits (s2l "22").
Proof. repeat split; try reflexivity. discriminate. Qed.
