(* C20 — The directory reader delivers each complete line exactly once, oldest first.
   This file contains only the property statements; every proof is one [exact]. *)
From Coq Require Import Ascii String List Bool Arith NArith Permutation Sorted.
Import ListNotations.
From AM Require Import Lib.Bytes Model.DirReader Proofs.DirReaderLemmas.
From AM Require Import Lib.GoStrings Gen.PureFuncs Proofs.PureFuncsTie.

(* Names.  For every directory listing without repeated names: the names read are exactly the
   audit logs listed (other entries are dropped), ordered so that a larger suffix number comes
   first — numerically, for all numbers — and audit.log comes last.  Explicitly: the result is
   audit.log.n for a strictly descending list of numbers (exactly the numbers present),
   followed by audit.log if it is present. *)
Theorem C20_sort : forall l : list name,
  NoDup l ->
  Permutation (sort_names l) (filter is_log l) /\
  StronglySorted older (sort_names l) /\
  (forall a, In a (sort_names l) <-> In a l /\ a <> Other).
Proof. exact sort_correct. Qed.
Print Assumptions C20_sort.

Theorem C20_sort_shape : forall l : list name,
  NoDup l ->
  exists ns,
    sort_names l = map Rot ns ++ (if existsb (name_eqb Live) l then [Live] else []) /\
    StronglySorted (fun x y => y < x) ns /\
    (forall n, In n ns <-> In (Rot n) l).
Proof. exact sort_shape. Qed.
Print Assumptions C20_sort_shape.

(* Start-up.  The lines of the files present are delivered file after file in that order, of
   each file its complete lines; afterwards the tail state fits audit.log (offset = end of its
   delivered whole-line prefix), which is the hypothesis of the tailing theorems. *)
Theorem C20_initial : forall d : dir,
  snd (startup d) = map (fun a => fst (lines (content d a))) (sort_names (map fst d)) /\
  tail_inv (fst (startup d)) (content d Live).
Proof. exact initial_correct. Qed.
Print Assumptions C20_initial.

(* Tailing.  For every sequence of appends (of any bytes: partial lines, several lines, empty),
   rotations, remove-and-create, truncations and attribute changes, each followed by its
   file-system events: what was delivered of the current file before, followed by what tailing
   delivers, is exactly the complete lines of every incarnation of audit.log, in order. *)
Theorem C20_tail : forall (ops : list op) (st : rstate) (live : str),
  tail_inv st live ->
  fst (lines live) ++ concat (run_tail st live ops) = spec_all live ops.
Proof. exact tail_correct. Qed.
Print Assumptions C20_tail.

(* ... operation by operation: an append delivers exactly the lines that its bytes complete,
   the first of them including the unterminated rest written earlier; nothing else delivers. *)
Theorem C20_tail_steps : forall (ops : list op) (st : rstate) (live : str),
  tail_inv st live ->
  run_tail st live ops = spec_steps (snd (lines live)) ops.
Proof. exact tail_steps_correct. Qed.
Print Assumptions C20_tail_steps.

(* ... and at every moment (p = what has happened so far, q = what will). *)
Theorem C20_tail_prefix : forall (p q : list op) (st : rstate) (live : str),
  tail_inv st live ->
  exists rest,
    concat (run_tail st live (p ++ q)) = concat (run_tail st live p) ++ rest /\
    fst (lines live) ++ concat (run_tail st live p) = spec_all live p.
Proof. exact tail_correct_prefix. Qed.
Print Assumptions C20_tail_prefix.

(* What "complete lines" means: [lines s] is the one decomposition of s into newline-free
   lines, each followed by a newline, and a newline-free rest.  So a line is delivered only
   once its newline has been written, and without it. *)
Theorem C20_lines_meaning : forall s : str,
  join (fst (lines s)) ++ snd (lines s) = s /\
  (forall l, In l (fst (lines s)) -> ~ In nl l) /\ ~ In nl (snd (lines s)) /\
  (forall ls tl, (forall l, In l ls -> ~ In nl l) -> ~ In nl tl -> lines (join ls ++ tl) = (ls, tl)).
Proof.
  intros s. split; [apply lines_join_inv|]. split; [apply lines_no_nl|]. split; [apply lines_no_nl|].
  exact lines_unique.
Qed.
Print Assumptions C20_lines_meaning.

(* within one incarnation the delivered lines do not depend on how the bytes were cut into appends *)
Theorem C20_split_independent : forall (bs : list str) (cur : str),
  spec_all cur (map Append bs) = fst (lines (cur ++ concat bs)).
Proof. exact spec_all_appends. Qed.
Print Assumptions C20_split_independent.

(* The whole run, start-up then tailing, from the directory content and the operations alone. *)
Theorem C20_run : forall (d : dir) (ops : list op),
  let live := content d Live in
  let names := sort_names (map fst d) in
  run d ops =
    (names,
     map (fun a => fst (lines (content d a))) names,
     spec_steps (snd (lines live)) ops) /\
  fst (lines live) ++ concat (spec_steps (snd (lines live)) ops) = spec_all live ops.
Proof. exact run_correct. Qed.
Print Assumptions C20_run.

(* Non-vacuity. Twelve rotated files (numbers 1..10, 100, 999 listed out of order), a stray
   entry, audit.log ending in an unterminated rest. *)
Example C20_example_sort :
  sort_names [Rot 3; Rot 10; Live; Rot 1; Other; Rot 999; Rot 9; Rot 2; Rot 100; Rot 4; Rot 5; Rot 6; Rot 7; Rot 8] =
  [Rot 999; Rot 100; Rot 10; Rot 9; Rot 8; Rot 7; Rot 6; Rot 5; Rot 4; Rot 3; Rot 2; Rot 1; Live].
Proof. vm_compute. reflexivity. Qed.

(* audit.log.10 = "j\n", audit.log.9 = "i\n", audit.log = "a\nb" ; then: "c" appended (nothing
   delivered), "\nd\n\n" appended ("bc", "d", "" delivered), rotation, "e\nf" appended, truncation
   (the rest "f" is gone), "g\n" appended, attribute change. *)
Example C20_example_run :
  run [(Rot 9, hx "690a"); (Live, hx "610a62"); (Rot 10, hx "6a0a")]
      [Append (hx "63"); Append (hx "0a640a0a"); Rotate; Append (hx "650a66"); Truncate;
       Append (hx "670a"); Chmod] =
  ([Rot 10; Rot 9; Live],
   [[hx "6a"]; [hx "69"]; [hx "61"]],
   [[]; [hx "6263"; hx "64"; []]; []; [hx "65"]; []; [hx "67"]; []]).
Proof. vm_compute. reflexivity. Qed.

(* the tail-state hypothesis is satisfiable other than by start-up: mid-file state *)
Example C20_example_inv : tail_inv (RS 2 3) (hx "610a62").
Proof. unfold tail_inv. vm_compute. split; [reflexivity|right; split; repeat constructor]. Qed.

(* Why [startup_lastsz] matters (the pinned tree leaves lastSz = 0 after start-up): from the
   state offset 4, lastSz 0 over audit.log = "old\n", a truncation followed by "new\n" delivers
   nothing — the line is lost; from the state the model's start-up leaves, it is delivered. *)
Example C20_example_unset_lastsz_loses_line :
  run_tail (RS 4 0) (hx "6f6c640a") [Truncate; Append (hx "6e65770a")] = [[]; []] /\
  run_tail (fst (startup [(Live, hx "6f6c640a")])) (hx "6f6c640a") [Truncate; Append (hx "6e65770a")] = [[]; [hx "6e6577"]].
Proof. vm_compute. split; reflexivity. Qed.

(* ---------- the order of the model is the comparator of the source ----------
   Gen/PureFuncs.v is REGENERATED on every run from logRotationNumber and from the closure handed to
   sort.Slice in sortLogNamesOldToNew (uint64 arithmetic modelled exactly, mod 2^64; the rune loop as a
   byte loop, which the translator justifies by evaluating the loop's guard on every non-ASCII rune).
   On rendered names ("audit.log", "audit.log." ++ canonical decimal of n, n < 2^64) the generated
   comparator is the strict part of the model's order [before], and the generated rotation number of
   "audit.log.N" is N: what C20_sort is about is what the code compares. *)
Theorem C20_rotation_number_from_source : forall n,
  gen_log_rotation_number (render_name (Rot n)) = Some (go_u64 (N.of_nat n), true).
Proof. exact log_rotation_number_render. Qed.
Print Assumptions C20_rotation_number_from_source.

Theorem C20_comparator_from_source : forall a b,
  is_log a = true -> is_log b = true -> small a -> small b ->
  gen_log_name_less (render_name a) (render_name b) = Some (negb (before b a)).
Proof. exact log_name_less_render. Qed.
Print Assumptions C20_comparator_from_source.

(* for ALL byte strings (leading zeros, suffixes >= 2^64 that wrap, non-decimal suffixes): the generated
   functions meet these closed-form specifications and never panic *)
Theorem C20_rotation_number_spec : forall name, gen_log_rotation_number name = Some (log_rotation_number_model name).
Proof. exact log_rotation_number_spec. Qed.
Print Assumptions C20_rotation_number_spec.

(* ---------- the reader of the model is the reader of the source ----------
   Gen/DirReaderProg.v is REGENERATED on every run by translating readLines, readFilePathLines,
   rotatingFile.read (with setOffset / incOffsetBy / getOffset) and loopWithError of dirreader.go into a
   small deep-embedded language (Model/DirReaderIR.v; bufio.ReadString, Open / Stat / Seek and the
   fsnotify / back-off plumbing are stated contracts of the interpreter).  For ALL inputs, in the
   error-free file-system environment the model is about: [read_lines] is the generated readLines,
   [on_event] is the generated read, [startup] is the generated start-up phase of loopWithError (incl.
   the initialisation of offset AND lastSz from the initial read of the live file), and a whole run of
   the model (start-up, then the events of each operation) is a run of the generated loop. *)
From AM Require Import Model.DirReaderIR Gen.DirReaderProg Proofs.DirReaderIRTie.
Theorem C20_dirreader_from_source :
  (forall s, run_readlines gen_readLines s = RLDone (fst (read_lines s)) (snd (read_lines s)) ErrNil) /\
  (forall st file e,
     run_read gen_methods gen_readLines gen_read st file e =
     RDDone (fst (on_event st file e)) (snd (on_event st file e)) ErrNil) /\
  (forall plen d,
     run_loop gen_methods gen_readLines gen_readFilePathLines gen_read gen_loopWithError plen (content d)
       (sort_names (map fst d)) (init_choices (sort_names (map fst d))) =
     LBlocked (fst (startup d)) (snd (startup d)) [] 1 []).
Proof. exact dirreader_from_source. Qed.
Print Assumptions C20_dirreader_from_source.

Theorem C20_run_from_source : forall (plen : pval -> nat) (d : dir) (ops : list op),
  let names := sort_names (map fst d) in
  exists st out,
    run_loop gen_methods gen_readLines gen_readFilePathLines gen_read gen_loopWithError plen (content d) names
      (init_choices names ++ map CEvent (ops_events (content d Live) ops)) = LBlocked st out [] 1 [] /\
    concat out = concat (snd (startup d)) ++ concat (run_tail (fst (startup d)) (content d Live) ops) /\
    st = fst (end_tail (fst (startup d)) (content d Live) ops).
Proof. exact run_from_source. Qed.
Print Assumptions C20_run_from_source.

(* ---------- bufio.ReadString in the directory reader: the stated contract is now a theorem ----------
   Model/DirReaderIR.v interprets  x, err := r.ReadString(delim)  by a contract on the bytes the reader has
   not delivered yet ([d_src]: the file from the saved offset on): [dcut] finds the delimiter -> the bytes up
   to and including it with a nil error, the rest stays; none -> all remaining bytes with io.EOF, nothing
   stays.  Model/Bufio.v is bufio.Reader itself at array level (see Props/C12.v, the C12_bufio theorems).  Here:
   [file_reader src b] -- b is a bufio reader (any buffer size, any state) over a reader that ends with
   io.EOF and never serves 100 empty reads in a row, and the bytes b has still to return are src.
   bufio.NewReaderSize over the file from the offset on is such a reader, for every way read(2) cuts those
   bytes into pieces cs; and every ReadString call makes exactly the interpreter's step. *)
From AM Require Import Model.Bufio Proofs.BufioLemmas Proofs.BufioDirReader.

Theorem C20_bufio_new_reader : forall (size : nat) (cs : list str),
  progress_ok cs -> file_reader (concat cs) (new_reader_size (eof_source cs) size).
Proof. exact file_reader_new. Qed.
Print Assumptions C20_bufio_new_reader.

Theorem C20_bufio_read_string_contract : forall (d : ascii) (src : str) (b : reader),
  file_reader src b ->
  match dcut d src with
  | Some (l, rest) => exists b', read_string_b d b = RSOk l None b' /\ file_reader rest b'
  | None => exists b', read_string_b d b = RSOk src (Some EEOF) b' /\ file_reader [] b'
  end.
Proof. exact file_reader_read_string. Qed.
Print Assumptions C20_bufio_read_string_contract.

(* readLines as a whole on the bufio model (ctx never done): the lines and numBytesRead of [read_lines],
   error nil -- for every buffer size and every cutting of the bytes; so a later read from the saved offset
   (off + numBytesRead) starts exactly after the last complete line *)
Theorem C20_bufio_read_lines : forall (size : nat) (cs : list str),
  progress_ok cs ->
  bufio_read_lines size (eof_source cs) = (fst (read_lines (concat cs)), snd (read_lines (concat cs)), RLNil).
Proof. exact bufio_read_lines_eq. Qed.
Print Assumptions C20_bufio_read_lines.

(* "ab\ncd\nxy" read in pieces of 1, 4 and 3 bytes through a 16-byte buffer: two lines, 6 bytes counted *)
Example C20_bufio_example :
  progress_ok [s2l "a"; s2l "b" ++ [nl] ++ s2l "cd"; [nl] ++ s2l "xy"] /\
  bufio_read_lines 16 (eof_source [s2l "a"; s2l "b" ++ [nl] ++ s2l "cd"; [nl] ++ s2l "xy"]) =
  ([s2l "ab"; s2l "cd"], 6, RLNil).
Proof. split; [apply nonempty_progress_ok; repeat constructor; discriminate|vm_compute; reflexivity]. Qed.
