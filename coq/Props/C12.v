(* C12 — Pipe framing: each terminated record delivered once, in order, any chunking.
   This file contains only the property statements; every proof is one [exact].

   Reading guide (Model/Framing.v):
     ingest cs d cb   the Ingest loop reading the chunks cs (the pieces in which the bytes
                      arrive at the reader, any partition of the stream) with delimiter d and
                      callback cb : call index -> record -> accepted?; the result is
                      (records handed to the callback in order, what Ingest returned)
     RetCallbackErr k Ingest returned the error of the callback's k-th call (k from 0), RetEOF
                      it returned end-of-stream
     frame d bodies t the stream  body_0 d body_1 d ... body_n-1 d t
     terminate d b    b followed by d (a record as the callback receives it)
     records d bs / tail d bs   the d-terminated pieces of bs (with their d) / what follows
                      the last d
     fail_at k / never_fail     the callback that refuses exactly its k-th call / none *)
From Coq Require Import Ascii String List Bool Arith.
Import ListNotations.
From AM Require Import Lib.Bytes Model.Framing Proofs.FramingLemmas.

(* However the stream is split into chunks, the outcome is that of the unsplit stream. *)
Theorem C12_chunk_independent : forall (cs : list str) (d : ascii) (cb : callback),
  ingest cs d cb = ingest [concat cs] d cb.
Proof. exact chunk_independent. Qed.
Print Assumptions C12_chunk_independent.

(* Every stream is, in exactly one way, a sequence of delimiter-free bodies each followed by the
   delimiter, and a delimiter-free tail; [records]/[tail] compute that decomposition. *)
Theorem C12_stream_shape : forall (d : ascii) (bs : str),
  (exists bodies t, bs = frame d bodies t /\ (forall b, In b bodies -> ~ In d b) /\ ~ In d t /\
                    records d bs = map (terminate d) bodies /\ tail d bs = t) /\
  (forall bodies t, (forall b, In b bodies -> ~ In d b) -> ~ In d t -> bs = frame d bodies t ->
                    records d bs = map (terminate d) bodies /\ tail d bs = t).
Proof. exact stream_shape. Qed.
Print Assumptions C12_stream_shape.

(* The callback never refuses: for every partition cs of the stream body_0 d ... body_n-1 d t,
   it is called once per body, in order, with exactly that body (plus the delimiter); the tail
   t is not delivered; Ingest returns end-of-stream (an error, not nil). *)
Theorem C12_all_delivered : forall (d : ascii) (bodies : list str) (t : str) (cs : list str),
  (forall b, In b bodies -> ~ In d b) -> ~ In d t ->
  concat cs = frame d bodies t ->
  ingest cs d never_fail = (map (terminate d) bodies, RetEOF).
Proof. exact ingest_framed_never_fail. Qed.
Print Assumptions C12_all_delivered.

(* The callback refuses its k-th call: records 0..k are delivered, nothing after, and Ingest
   returns that call's error; if there are no more than k records, as above. *)
Theorem C12_stops_at_error : forall (d : ascii) (bodies : list str) (t : str) (cs : list str) (k : nat),
  (forall b, In b bodies -> ~ In d b) -> ~ In d t ->
  concat cs = frame d bodies t ->
  ingest cs d (fail_at k) =
  if k <? length bodies then (map (terminate d) (firstn (S k) bodies), RetCallbackErr k)
  else (map (terminate d) bodies, RetEOF).
Proof. exact ingest_framed_fail_at. Qed.
Print Assumptions C12_stops_at_error.

(* Any callback (its verdict may depend on the call index and on the record): either it
   accepts every record, all are delivered and end-of-stream is returned; or the records up to
   and including the first refused one are delivered and that call's error is returned. *)
Theorem C12_spec : forall (cs : list str) (d : ascii) (cb : callback),
  let rs := records d (concat cs) in
  ((forall i x, nth_error rs i = Some x -> cb i x = true) /\ ingest cs d cb = (rs, RetEOF)) \/
  (exists pre r post, rs = pre ++ r :: post /\
      (forall i x, nth_error pre i = Some x -> cb i x = true) /\ cb (length pre) r = false /\
      ingest cs d cb = (pre ++ [r], RetCallbackErr (length pre))).
Proof. exact ingest_chunks_spec. Qed.
Print Assumptions C12_spec.

(* The same read from the result. *)
Theorem C12_return : forall (cs : list str) (d : ascii) (cb : callback),
  let rs := records d (concat cs) in
  (snd (ingest cs d cb) = RetEOF <-> (forall i x, nth_error rs i = Some x -> cb i x = true)) /\
  (snd (ingest cs d cb) = RetEOF -> fst (ingest cs d cb) = rs) /\
  (forall k, snd (ingest cs d cb) = RetCallbackErr k ->
     fst (ingest cs d cb) = firstn (S k) rs /\ k < length rs /\
     (exists r, nth_error rs k = Some r /\ cb k r = false) /\
     (forall i x, i < k -> nth_error rs i = Some x -> cb i x = true)).
Proof. exact ingest_ret. Qed.
Print Assumptions C12_return.

(* The loop always ends by returning an error of one of the two kinds. *)
Theorem C12_returns : forall (cs : list str) (d : ascii) (cb : callback),
  snd (ingest cs d cb) <> RetOutOfFuel.
Proof. exact ingest_never_out_of_fuel. Qed.
Print Assumptions C12_returns.

(* What was delivered, concatenated, is a prefix of the stream that stays clear of the
   unterminated tail. *)
Theorem C12_tail_never_delivered : forall (cs : list str) (d : ascii) (cb : callback),
  exists rest, concat cs = concat (fst (ingest cs d cb)) ++ rest ++ tail d (concat cs) /\
               ~ In d (tail d (concat cs)).
Proof. exact tail_never_delivered. Qed.
Print Assumptions C12_tail_never_delivered.

Theorem C12_delivered_prefix : forall (cs : list str) (d : ascii) (cb : callback),
  exists rest, concat cs = concat (fst (ingest cs d cb)) ++ rest.
Proof. exact delivered_prefix_stream. Qed.
Print Assumptions C12_delivered_prefix.

(* Every delivered record is one body and its terminator: no delimiter inside. *)
Theorem C12_delivered_shape : forall (cs : list str) (d : ascii) (cb : callback) (r : str),
  In r (fst (ingest cs d cb)) -> exists b, r = b ++ [d] /\ ~ In d b.
Proof. exact delivered_shape. Qed.
Print Assumptions C12_delivered_shape.

(* Non-vacuity.  The stream "ab\n\ncd ef\nxyz" (records "ab", "", "cd ef"; tail "xyz"). *)
Definition C12_nl : ascii := "010"%char.
Definition C12_stream : str := s2l "ab" ++ [C12_nl] ++ [C12_nl] ++ s2l "cd ef" ++ [C12_nl] ++ s2l "xyz".
Definition C12_bytewise : list str := map (fun c => [c]) C12_stream.

Example C12_example_one_chunk :
  ingest [C12_stream] C12_nl never_fail =
  ([s2l "ab" ++ [C12_nl]; [C12_nl]; s2l "cd ef" ++ [C12_nl]], RetEOF).
Proof. vm_compute. reflexivity. Qed.

Example C12_example_byte_at_a_time :
  length C12_bytewise = 13 /\
  ingest C12_bytewise C12_nl never_fail = ingest [C12_stream] C12_nl never_fail.
Proof. vm_compute. split; reflexivity. Qed.

Example C12_example_split_inside_records :
  ingest [s2l "a"; s2l "b" ++ [C12_nl; C12_nl] ++ s2l "cd"; []; s2l " ef" ++ [C12_nl] ++ s2l "xy"; s2l "z"] C12_nl never_fail
  = ingest [C12_stream] C12_nl never_fail.
Proof. vm_compute. reflexivity. Qed.

(* the callback refuses its second call (index 1): two records delivered, the third never *)
Example C12_example_callback_fails :
  ingest C12_bytewise C12_nl (fail_at 1) = ([s2l "ab" ++ [C12_nl]; [C12_nl]], RetCallbackErr 1).
Proof. vm_compute. reflexivity. Qed.

(* a verdict that depends on the content: refuse the first empty record *)
Example C12_example_content_dependent :
  ingest C12_bytewise C12_nl (fun _ r => negb (seqb r [C12_nl])) = ([s2l "ab" ++ [C12_nl]; [C12_nl]], RetCallbackErr 1).
Proof. vm_compute. reflexivity. Qed.

(* nothing terminated: nothing delivered, end-of-stream returned *)
Example C12_example_no_delimiter :
  ingest [s2l "xy"; s2l "z"] C12_nl never_fail = ([], RetEOF) /\ ingest [] C12_nl never_fail = ([], RetEOF).
Proof. vm_compute. split; reflexivity. Qed.

From AM Require Import Model.IngestIR Gen.IngestProg Proofs.IngestIRTie.
Open Scope nat_scope.
Open Scope list_scope.

(* ---------- the loop of the model is the loop of the source ----------
   Gen/IngestProg.v is REGENERATED on every run from NamedPipeIngester.Ingest (set-up and loop), the two
   wrapper Ingest methods and both Process callbacks.  For every chunking of the stream, every delimiter
   and every callback, [ingest] of Model/Framing.v (about which the C12 theorems above are proved) IS the
   interpretation of the generated loop, with bufio.Reader.ReadString given its stated contract
   [read_string]: the callback receives the line exactly as ReadString returned it, and what Ingest returns
   is the reader's own end-of-stream error or the failing callback's own error, never nil, never wrapped. *)
Theorem C12_ingest_from_source : forall cs d cb, run_ingest gen_Ingest cs d cb = Some (ingest cs d cb).
Proof. exact ingest_from_source. Qed.
Print Assumptions C12_ingest_from_source.

Theorem C12_errors_unwrapped_from_source : forall cs d cb, exists dl e,
  run_ingest_raw gen_Ingest cs d cb = Some (dl, Some e) /\
  (e = VEOF \/ exists k r, e = VCb k /\ length dl = S k /\ nth_error dl k = Some r /\ cb k r = false).
Proof. exact ingest_errors_unwrapped. Qed.
Print Assumptions C12_errors_unwrapped_from_source.

(* both wrappers (audit log, sshd log) pass the newline delimiter and their own Process as callback *)
Theorem C12_wrapped_ingest_from_source : forall cs cb,
  run_ingest gen_Ingest cs (ascii_of_nat (wr_delim gen_auditlog_Ingest)) cb = Some (ingest cs newline cb) /\
  run_ingest gen_Ingest cs (ascii_of_nat (wr_delim gen_syslog_Ingest)) cb = Some (ingest cs newline cb).
Proof. exact wrapped_ingest_from_source. Qed.
Print Assumptions C12_wrapped_ingest_from_source.
