(* C12 — Pipe framing: each terminated record delivered once, in order, any chunking.
   This file contains only the property statements; every proof is one [exact].

   Reading guide (Model/Framing.v):
     ingest cs d cb   the Ingest loop reading the chunks cs (the pieces in which the bytes
                      arrive at the reader, any partition of the stream) with delimiter d and
                      callback cb : call index -> record -> accepted?; the result is
                      (records handed to the callback in order, what Ingest returned)
     RetCallbackErr k Ingest returned the error of the callback's k-th call (k from 0), RetEOF
                      it returned end-of-stream
     frame d bodies t the stream  body_0 d body_1 d ... body_n-1 d t
     terminate d b    b followed by d (a record as the callback receives it)
     records d bs / tail d bs   the d-terminated pieces of bs (with their d) / what follows
                      the last d
     fail_at k / never_fail     the callback that refuses exactly its k-th call / none *)
From Coq Require Import Ascii String List Bool Arith.
Import ListNotations.
From AM Require Import Lib.Bytes Model.Framing Proofs.FramingLemmas.

(* However the stream is split into chunks, the outcome is that of the unsplit stream. *)
Theorem C12_chunk_independent : forall (cs : list str) (d : ascii) (cb : callback),
  ingest cs d cb = ingest [concat cs] d cb.
Proof. exact chunk_independent. Qed.
Print Assumptions C12_chunk_independent.

(* Every stream is, in exactly one way, a sequence of delimiter-free bodies each followed by the
   delimiter, and a delimiter-free tail; [records]/[tail] compute that decomposition. *)
Theorem C12_stream_shape : forall (d : ascii) (bs : str),
  (exists bodies t, bs = frame d bodies t /\ (forall b, In b bodies -> ~ In d b) /\ ~ In d t /\
                    records d bs = map (terminate d) bodies /\ tail d bs = t) /\
  (forall bodies t, (forall b, In b bodies -> ~ In d b) -> ~ In d t -> bs = frame d bodies t ->
                    records d bs = map (terminate d) bodies /\ tail d bs = t).
Proof. exact stream_shape. Qed.
Print Assumptions C12_stream_shape.

(* The callback never refuses: for every partition cs of the stream body_0 d ... body_n-1 d t,
   it is called once per body, in order, with exactly that body (plus the delimiter); the tail
   t is not delivered; Ingest returns end-of-stream (an error, not nil). *)
Theorem C12_all_delivered : forall (d : ascii) (bodies : list str) (t : str) (cs : list str),
  (forall b, In b bodies -> ~ In d b) -> ~ In d t ->
  concat cs = frame d bodies t ->
  ingest cs d never_fail = (map (terminate d) bodies, RetEOF).
Proof. exact ingest_framed_never_fail. Qed.
Print Assumptions C12_all_delivered.

(* The callback refuses its k-th call: records 0..k are delivered, nothing after, and Ingest
   returns that call's error; if there are no more than k records, as above. *)
Theorem C12_stops_at_error : forall (d : ascii) (bodies : list str) (t : str) (cs : list str) (k : nat),
  (forall b, In b bodies -> ~ In d b) -> ~ In d t ->
  concat cs = frame d bodies t ->
  ingest cs d (fail_at k) =
  if k <? length bodies then (map (terminate d) (firstn (S k) bodies), RetCallbackErr k)
  else (map (terminate d) bodies, RetEOF).
Proof. exact ingest_framed_fail_at. Qed.
Print Assumptions C12_stops_at_error.

(* Any callback (its verdict may depend on the call index and on the record): either it
   accepts every record, all are delivered and end-of-stream is returned; or the records up to
   and including the first refused one are delivered and that call's error is returned. *)
Theorem C12_spec : forall (cs : list str) (d : ascii) (cb : callback),
  let rs := records d (concat cs) in
  ((forall i x, nth_error rs i = Some x -> cb i x = true) /\ ingest cs d cb = (rs, RetEOF)) \/
  (exists pre r post, rs = pre ++ r :: post /\
      (forall i x, nth_error pre i = Some x -> cb i x = true) /\ cb (length pre) r = false /\
      ingest cs d cb = (pre ++ [r], RetCallbackErr (length pre))).
Proof. exact ingest_chunks_spec. Qed.
Print Assumptions C12_spec.

(* The same read from the result. *)
Theorem C12_return : forall (cs : list str) (d : ascii) (cb : callback),
  let rs := records d (concat cs) in
  (snd (ingest cs d cb) = RetEOF <-> (forall i x, nth_error rs i = Some x -> cb i x = true)) /\
  (snd (ingest cs d cb) = RetEOF -> fst (ingest cs d cb) = rs) /\
  (forall k, snd (ingest cs d cb) = RetCallbackErr k ->
     fst (ingest cs d cb) = firstn (S k) rs /\ k < length rs /\
     (exists r, nth_error rs k = Some r /\ cb k r = false) /\
     (forall i x, i < k -> nth_error rs i = Some x -> cb i x = true)).
Proof. exact ingest_ret. Qed.
Print Assumptions C12_return.

(* The loop always ends by returning an error of one of the two kinds. *)
Theorem C12_returns : forall (cs : list str) (d : ascii) (cb : callback),
  snd (ingest cs d cb) <> RetOutOfFuel.
Proof. exact ingest_never_out_of_fuel. Qed.
Print Assumptions C12_returns.

(* What was delivered, concatenated, is a prefix of the stream that stays clear of the
   unterminated tail. *)
Theorem C12_tail_never_delivered : forall (cs : list str) (d : ascii) (cb : callback),
  exists rest, concat cs = concat (fst (ingest cs d cb)) ++ rest ++ tail d (concat cs) /\
               ~ In d (tail d (concat cs)).
Proof. exact tail_never_delivered. Qed.
Print Assumptions C12_tail_never_delivered.

Theorem C12_delivered_prefix : forall (cs : list str) (d : ascii) (cb : callback),
  exists rest, concat cs = concat (fst (ingest cs d cb)) ++ rest.
Proof. exact delivered_prefix_stream. Qed.
Print Assumptions C12_delivered_prefix.

(* Every delivered record is one body and its terminator: no delimiter inside. *)
Theorem C12_delivered_shape : forall (cs : list str) (d : ascii) (cb : callback) (r : str),
  In r (fst (ingest cs d cb)) -> exists b, r = b ++ [d] /\ ~ In d b.
Proof. exact delivered_shape. Qed.
Print Assumptions C12_delivered_shape.

(* Non-vacuity.  The stream "ab\n\ncd ef\nxyz" (records "ab", "", "cd ef"; tail "xyz"). *)
Definition C12_nl : ascii := "010"%char.
Definition C12_stream : str := s2l "ab" ++ [C12_nl] ++ [C12_nl] ++ s2l "cd ef" ++ [C12_nl] ++ s2l "xyz".
Definition C12_bytewise : list str := map (fun c => [c]) C12_stream.

Example C12_example_one_chunk :
  ingest [C12_stream] C12_nl never_fail =
  ([s2l "ab" ++ [C12_nl]; [C12_nl]; s2l "cd ef" ++ [C12_nl]], RetEOF).
Proof. vm_compute. reflexivity. Qed.

Example C12_example_byte_at_a_time :
  length C12_bytewise = 13 /\
  ingest C12_bytewise C12_nl never_fail = ingest [C12_stream] C12_nl never_fail.
Proof. vm_compute. split; reflexivity. Qed.

Example C12_example_split_inside_records :
  ingest [s2l "a"; s2l "b" ++ [C12_nl; C12_nl] ++ s2l "cd"; []; s2l " ef" ++ [C12_nl] ++ s2l "xy"; s2l "z"] C12_nl never_fail
  = ingest [C12_stream] C12_nl never_fail.
Proof. vm_compute. reflexivity. Qed.

(* the callback refuses its second call (index 1): two records delivered, the third never *)
Example C12_example_callback_fails :
  ingest C12_bytewise C12_nl (fail_at 1) = ([s2l "ab" ++ [C12_nl]; [C12_nl]], RetCallbackErr 1).
Proof. vm_compute. reflexivity. Qed.

(* a verdict that depends on the content: refuse the first empty record *)
Example C12_example_content_dependent :
  ingest C12_bytewise C12_nl (fun _ r => negb (seqb r [C12_nl])) = ([s2l "ab" ++ [C12_nl]; [C12_nl]], RetCallbackErr 1).
Proof. vm_compute. reflexivity. Qed.

(* nothing terminated: nothing delivered, end-of-stream returned *)
Example C12_example_no_delimiter :
  ingest [s2l "xy"; s2l "z"] C12_nl never_fail = ([], RetEOF) /\ ingest [] C12_nl never_fail = ([], RetEOF).
Proof. vm_compute. split; reflexivity. Qed.

From AM Require Import Model.IngestIR Gen.IngestProg Proofs.IngestIRTie.
Open Scope nat_scope.
Open Scope list_scope.

(* ---------- the loop of the model is the loop of the source ----------
   Gen/IngestProg.v is REGENERATED on every run from NamedPipeIngester.Ingest (set-up and loop), the two
   wrapper Ingest methods and both Process callbacks.  For every chunking of the stream, every delimiter
   and every callback, [ingest] of Model/Framing.v (about which the C12 theorems above are proved) IS the
   interpretation of the generated loop, with bufio.Reader.ReadString given its stated contract
   [read_string]: the callback receives the line exactly as ReadString returned it, and what Ingest returns
   is the reader's own end-of-stream error or the failing callback's own error, never nil, never wrapped. *)
Theorem C12_ingest_from_source : forall cs d cb, run_ingest gen_Ingest cs d cb = Some (ingest cs d cb).
Proof. exact ingest_from_source. Qed.
Print Assumptions C12_ingest_from_source.

Theorem C12_errors_unwrapped_from_source : forall cs d cb, exists dl e,
  run_ingest_raw gen_Ingest cs d cb = Some (dl, Some e) /\
  (e = VEOF \/ exists k r, e = VCb k /\ length dl = S k /\ nth_error dl k = Some r /\ cb k r = false).
Proof. exact ingest_errors_unwrapped. Qed.
Print Assumptions C12_errors_unwrapped_from_source.

(* both wrappers (audit log, sshd log) pass the newline delimiter and their own Process as callback *)
Theorem C12_wrapped_ingest_from_source : forall cs cb,
  run_ingest gen_Ingest cs (ascii_of_nat (wr_delim gen_auditlog_Ingest)) cb = Some (ingest cs newline cb) /\
  run_ingest gen_Ingest cs (ascii_of_nat (wr_delim gen_syslog_Ingest)) cb = Some (ingest cs newline cb).
Proof. exact wrapped_ingest_from_source. Qed.
Print Assumptions C12_wrapped_ingest_from_source.

(* ====================================================================================================
   bufio.Reader inside the model.  Until here [read_string] (Model/Framing.v) was the STATED contract of
   bufio.Reader.ReadString.  Model/Bufio.v is the library code itself at array level (buf, r, w, err;
   NewReaderSize, fill, readErr, Buffered, ReadSlice, collectFragments, ReadString, over a scripted
   io.Reader); the theorems below PROVE the contract of it, for every buffer size, every reader state and
   every script; harness/bufio + Model/BufioCheck.v compare the model call by call with the real package.

   Reading guide (Model/Bufio.v, Proofs/BufioLemmas.v):
     mkSource cs l fe n     the underlying io.Reader: each Read(p) is served from the first chunk of cs
                            (min(len p, len chunk) bytes, nil; an empty chunk is a (0, nil) read); after the
                            chunks the bytes l with the error fe, then (0, fe) for ever; n counts the calls
     new_reader_size rd size   bufio.NewReaderSize(rd, size): a buffer of max(size, 16) bytes
     read_string_b d b      b.ReadString(d) = RSOk string err b' | RSPanic _ | RSOutOfFuel
     bufd b                 the buffered bytes b.buf[b.r:b.w];  T b = bufd b ++ all bytes the script holds
     pending rd             what the script still holds, as chunks for [read_string]
     progress_ok cs         cs has no 100 (= maxConsecutiveEmptyReads) consecutive empty chunks
     exhausted rd           no chunk and no last bytes left: every further Read returns (0, fe)
     reachable rd size b    b is new_reader_size rd size after any number of ReadString calls
     wf b                   r <= w <= len buf, len buf >= 1; a pending b.err is the script's final error with
                            the script exhausted; the script's final error is not bufio.ErrBufferFull
   ==================================================================================================== *)
From Coq Require Import Lia.
From AM Require Import Model.Bufio Proofs.BufioLemmas.

(* 1. Invariant of every reachable state: r <= w <= len(buf) = max(size, 16). *)
Theorem C12_bufio_reachable_bounds : forall (rd : source) (size : nat) (b : reader),
  ferr rd <> EBufferFull -> reachable rd size b ->
  rpos b <= wpos b /\ wpos b <= length (buf b) /\ length (buf b) = Nat.max size min_read_buffer_size /\
  min_read_buffer_size <= length (buf b).
Proof. exact reachable_bounds. Qed.
Print Assumptions C12_bufio_reachable_bounds.

Theorem C12_bufio_reachable_wf : forall (rd : source) (size : nat) (b : reader),
  ferr rd <> EBufferFull -> reachable rd size b ->
  wf b /\ length (buf b) = Nat.max size min_read_buffer_size /\ ferr (rsrc b) = ferr rd.
Proof. exact reachable_invariant. Qed.
Print Assumptions C12_bufio_reachable_wf.

(* Every ReadString call on a reachable state returns (no panic "tried to fill full buffer", no slice
   out of range, the fuel of the two for-loops is never exhausted) -- for EVERY script, runs of empty
   reads included. *)
Theorem C12_bufio_read_string_returns : forall (rd : source) (size : nat) (b : reader) (d : ascii),
  ferr rd <> EBufferFull -> reachable rd size b ->
  exists out e b', read_string_b d b = RSOk out e b' /\ reachable rd size b'.
Proof. exact reachable_read_string_returns. Qed.
Print Assumptions C12_bufio_read_string_returns.

(* fill, called as ReadSlice calls it (room in the buffer, b.err == nil), does not panic, leaves r = 0
   and does not change the bytes still to be returned *)
Theorem C12_bufio_fill_never_panics : forall b : reader,
  wf b -> rerr b = None -> buffered_n b < length (buf b) ->
  exists b', fill b = FillOk b' /\ bounds b' /\ rpos b' = 0 /\ T b' = T b.
Proof. exact fill_never_panics. Qed.
Print Assumptions C12_bufio_fill_never_panics.

Theorem C12_bufio_read_slice_returns : forall (d : ascii) (b : reader), wf b ->
  exists line e b', read_slice d b = RSOk line e b' /\ bounds b' /\ T b = line ++ T b'.
Proof. exact read_slice_returns. Qed.
Print Assumptions C12_bufio_read_slice_returns.

(* 2. THE CONTRACT.  Every state with the invariant, every delimiter, every buffer size, every script
   that never serves 100 empty reads in a row: ReadString returns exactly what [read_string] says on
   (buffered bytes, what the script still holds) -- the line and a nil error, and then the new state's
   buffered bytes ++ script bytes are the contract's rest ++ remaining chunks; or, at the end of the
   script, all remaining bytes with the script's final error (io.EOF or not), the buffer empty, nothing
   pending.  Records longer than the buffer (ErrBufferFull, full buffers collected) are inside. *)
Theorem C12_bufio_contract : forall (d : ascii) (b : reader),
  wf b -> progress_ok (chunks (rsrc b)) ->
  match read_string d (bufd b) (pending (rsrc b)) with
  | RdLine l rest cs' =>
      exists b', read_string_b d b = RSOk l None b' /\
        wf b' /\ progress_ok (chunks (rsrc b')) /\
        length (buf b') = length (buf b) /\ ferr (rsrc b') = ferr (rsrc b) /\
        bufd b' ++ concat (pending (rsrc b')) = rest ++ concat cs'
  | RdEOF rem =>
      exists b', read_string_b d b = RSOk rem (Some (ferr (rsrc b))) b' /\
        wf b' /\ length (buf b') = length (buf b) /\ ferr (rsrc b') = ferr (rsrc b) /\
        bufd b' = [] /\ exhausted (rsrc b') /\ rerr b' = None
  end.
Proof. exact bufio_read_string_contract. Qed.
Print Assumptions C12_bufio_contract.

(* the same over the states a reader reaches, hypotheses on the script given to NewReaderSize only *)
Theorem C12_bufio_contract_reachable : forall (rd : source) (size : nat) (d : ascii) (b : reader),
  ferr rd <> EBufferFull -> progress_ok (chunks rd) -> reachable rd size b ->
  match read_string d (bufd b) (pending (rsrc b)) with
  | RdLine l rest cs' =>
      exists b', read_string_b d b = RSOk l None b' /\ reachable rd size b' /\
        bufd b' ++ concat (pending (rsrc b')) = rest ++ concat cs'
  | RdEOF rem =>
      exists b', read_string_b d b = RSOk rem (Some (ferr rd)) b' /\ reachable rd size b' /\
        bufd b' = [] /\ exhausted (rsrc b') /\ rerr b' = None
  end.
Proof. exact bufio_contract_reachable. Qed.
Print Assumptions C12_bufio_contract_reachable.

(* the first call on a fresh reader: the contract on ([], the script), whatever the size *)
Theorem C12_bufio_contract_fresh : forall (d : ascii) (rd : source) (size : nat),
  ferr rd <> EBufferFull -> progress_ok (chunks rd) ->
  match read_string d [] (pending rd) with
  | RdLine l rest cs' =>
      exists b', read_string_b d (new_reader_size rd size) = RSOk l None b' /\
        bufd b' ++ concat (pending (rsrc b')) = rest ++ concat cs'
  | RdEOF rem =>
      exists b', read_string_b d (new_reader_size rd size) = RSOk rem (Some (ferr rd)) b' /\
        bufd b' = [] /\ exhausted (rsrc b')
  end.
Proof. exact bufio_read_string_fresh. Qed.
Print Assumptions C12_bufio_contract_fresh.

(* With NO assumption on the script: a call returns the contract's line, or the contract's end of
   stream, or io.ErrNoProgress -- and the last only from a script with 100 empty reads in a row. *)
Theorem C12_bufio_contract_total : forall (d : ascii) (b : reader), wf b ->
  exists out e b', read_string_b d b = RSOk out e b' /\ wf b' /\
    length (buf b') = length (buf b) /\ ferr (rsrc b') = ferr (rsrc b) /\
    ( (e = None /\ exists rest cs', read_string d (bufd b) (pending (rsrc b)) = RdLine out rest cs' /\
                    bufd b' ++ concat (pending (rsrc b')) = rest ++ concat cs')
    \/ (e = Some (ferr (rsrc b)) /\ read_string d (bufd b) (pending (rsrc b)) = RdEOF out /\
        bufd b' = [] /\ exhausted (rsrc b') /\ rerr b' = None)
    \/ (e = Some ENoProgress /\ ~ progress_ok (chunks (rsrc b)) /\ ~ In d out /\
        T b = out ++ T b' /\ bufd b' = [] /\ rerr b' = None) ).
Proof. exact bufio_read_string_total. Qed.
Print Assumptions C12_bufio_contract_total.

(* Independence of the buffer size AND of the chunking, said directly: two readers (any sizes, any
   scripts, any states) that still have the same bytes to return and the same final error return the
   same string and the same error, and afterwards again have the same bytes to return. *)
Theorem C12_bufio_independent : forall (d : ascii) (b1 b2 : reader), wf b1 -> wf b2 ->
  progress_ok (chunks (rsrc b1)) -> progress_ok (chunks (rsrc b2)) ->
  T b1 = T b2 -> ferr (rsrc b1) = ferr (rsrc b2) ->
  exists out e b1' b2', read_string_b d b1 = RSOk out e b1' /\ read_string_b d b2 = RSOk out e b2' /\
                        T b1' = T b2'.
Proof. exact bufio_read_string_independent. Qed.
Print Assumptions C12_bufio_independent.

(* 3. THE LOOP.  Ingest run on the bufio model, any buffer size, any chunking without 100 consecutive
   empty chunks: exactly [ingest] -- so every C12 theorem above holds of it (C12_bufio_spec spells out
   C12_spec). *)
Theorem C12_bufio_ingest : forall (size : nat) (cs : list str) (d : ascii) (cb : callback),
  progress_ok cs ->
  bufio_ingest size cs d cb = (fst (ingest cs d cb), Some (snd (ingest cs d cb))).
Proof. exact bufio_ingest_eq. Qed.
Print Assumptions C12_bufio_ingest.

(* os.File: (0, nil) only for len(p) = 0, so no empty chunk at all *)
Theorem C12_bufio_ingest_file : forall (size : nat) (cs : list str) (d : ascii) (cb : callback),
  Forall (fun c => c <> []) cs ->
  bufio_ingest size cs d cb = (fst (ingest cs d cb), Some (snd (ingest cs d cb))).
Proof. exact bufio_ingest_eq_file. Qed.
Print Assumptions C12_bufio_ingest_file.

Theorem C12_bufio_spec : forall (size : nat) (cs : list str) (d : ascii) (cb : callback),
  progress_ok cs ->
  let rs := records d (concat cs) in
  ((forall i x, nth_error rs i = Some x -> cb i x = true) /\ bufio_ingest size cs d cb = (rs, Some RetEOF)) \/
  (exists pre r post, rs = pre ++ r :: post /\
      (forall i x, nth_error pre i = Some x -> cb i x = true) /\ cb (length pre) r = false /\
      bufio_ingest size cs d cb = (pre ++ [r], Some (RetCallbackErr (length pre)))).
Proof. exact bufio_ingest_chunks_spec. Qed.
Print Assumptions C12_bufio_spec.

(* Any script -- final error io.EOF or another one (os.ErrClosed after the close-on-cancel goroutine
   closed the file), the last read carrying bytes or not: the records delivered are [ingest]'s; Ingest
   returns the failing callback's error, else the script's final error UNCHANGED (ret_of: RetEOF becomes
   BReadErr (ferr rd)); the bytes after the last delimiter are dropped in both cases. *)
Theorem C12_bufio_ingest_any_final_error : forall (size : nat) (rd : source) (d : ascii) (cb : callback),
  ferr rd <> EBufferFull -> progress_ok (chunks rd) ->
  bufio_ingest_src size rd d cb =
  (fst (ingest (pending rd) d cb), ret_of (ferr rd) (snd (ingest (pending rd) d cb))).
Proof. exact bufio_ingest_src_spec. Qed.
Print Assumptions C12_bufio_ingest_any_final_error.

(* 4. io.ErrNoProgress.  The exact behaviour: nothing pending, no delimiter among the buffered bytes,
   the script serves 100 empty reads next => ReadString returns the buffered bytes with
   io.ErrNoProgress, consumes exactly those 100 reads, leaves the buffer empty and no error pending. *)
Theorem C12_bufio_no_progress : forall (d : ascii) (b : reader) (rest : list str),
  wf b -> rerr b = None -> ~ In d (bufd b) ->
  chunks (rsrc b) = repeat [] max_consecutive_empty_reads ++ rest ->
  exists b', read_string_b d b = RSOk (bufd b) (Some ENoProgress) b' /\
    wf b' /\ bufd b' = [] /\ rerr b' = None /\ length (buf b') = length (buf b) /\
    chunks (rsrc b') = rest /\ last (rsrc b') = last (rsrc b) /\ ferr (rsrc b') = ferr (rsrc b).
Proof. exact bufio_no_progress. Qed.
Print Assumptions C12_bufio_no_progress.

(* ... and only then (unless io.ErrNoProgress is the script's own final error) *)
Theorem C12_bufio_no_progress_only : forall (d : ascii) (b : reader) (out : str) (b' : reader),
  wf b -> read_string_b d b = RSOk out (Some ENoProgress) b' ->
  ferr (rsrc b) = ENoProgress \/
  exists pre rest, chunks (rsrc b) = pre ++ repeat [] max_consecutive_empty_reads ++ rest.
Proof. exact bufio_no_progress_only. Qed.
Print Assumptions C12_bufio_no_progress_only.

(* what the contract theorem's hypothesis excludes is exactly that *)
Theorem C12_bufio_excluded_exactly : forall cs : list str,
  ~ progress_ok cs <-> exists pre rest, cs = pre ++ repeat [] max_consecutive_empty_reads ++ rest.
Proof. exact not_progress_ok_iff. Qed.
Print Assumptions C12_bufio_excluded_exactly.

(* Why the script's error must not be bufio.ErrBufferFull: collectFragments takes it for a full buffer
   and goes round for ever (the real package does the same); in the model every fuel runs out. *)
Theorem C12_bufio_buffer_full_source_diverges : forall (d : ascii) (fuel : nat) (full : list str) (b : reader),
  bounds b -> rerr b = None -> bufd b = [] -> exhausted (rsrc b) -> ferr (rsrc b) = EBufferFull ->
  collect_loop fuel d full b = CFOutOfFuel.
Proof. exact bufio_buffer_full_source_diverges. Qed.
Print Assumptions C12_bufio_buffer_full_source_diverges.

(* ---------- non-vacuity and concrete runs ---------- *)

(* the stream of C12_stream in four chunks with empty reads between them, final error io.EOF *)
Definition C12_bufio_script : source :=
  mkSource [s2l "a"; s2l "b" ++ [C12_nl; C12_nl] ++ s2l "cd"; []; []; s2l " ef" ++ [C12_nl] ++ s2l "xy"; s2l "z"] [] EEOF 0.

Example C12_bufio_example_script_ok :
  ferr C12_bufio_script <> EBufferFull /\ progress_ok (chunks C12_bufio_script) /\
  concat (pending C12_bufio_script) = C12_stream.
Proof. split; [discriminate|]. split; [|reflexivity]. cbn. unfold max_consecutive_empty_reads. repeat split; lia. Qed.

(* the state after the first ReadString: r = 3, w = 6 ("ab\n" returned, "\ncd" buffered), reachable,
   hence wf: a non-trivial state that meets the hypotheses of C12_bufio_contract *)
Example C12_bufio_example_state : exists b,
  read_string_b C12_nl (new_reader_size C12_bufio_script 16) = RSOk (s2l "ab" ++ [C12_nl]) None b /\
  reachable C12_bufio_script 16 b /\ wf b /\ progress_ok (chunks (rsrc b)) /\
  rpos b = 3 /\ wpos b = 6 /\ length (buf b) = 16 /\ bufd b = [C12_nl] ++ s2l "cd" /\ served (rsrc b) = 2.
Proof.
  eexists. split; [vm_compute; reflexivity|].
  assert (Hr : reachable C12_bufio_script 16
                 (mkReader (s2l "ab" ++ [C12_nl; C12_nl] ++ s2l "cd" ++ repeat Ascii.zero 10) 3 6 None
                    (mkSource [[]; []; s2l " ef" ++ [C12_nl] ++ s2l "xy"; s2l "z"] [] EEOF 2))).
  { eapply (reach_call _ _ C12_nl); [apply reach_new|]. vm_compute. reflexivity. }
  split; [exact Hr|].
  assert (Hne : ferr C12_bufio_script <> EBufferFull) by (cbn; discriminate).
  split; [exact (proj1 (reachable_invariant _ _ _ Hne Hr))|].
  split; [cbn; unfold max_consecutive_empty_reads; repeat split; lia|].
  repeat split.
Qed.

(* the whole run, buffer of 16 bytes: the three records, then "xyz" with io.EOF, then ("", io.EOF) *)
Example C12_bufio_example_run :
  bufio_ingest 16 (chunks C12_bufio_script) C12_nl never_fail =
  ([s2l "ab" ++ [C12_nl]; [C12_nl]; s2l "cd ef" ++ [C12_nl]], Some RetEOF) /\
  bufio_ingest 0 C12_bytewise C12_nl (fail_at 1) = ([s2l "ab" ++ [C12_nl]; [C12_nl]], Some (RetCallbackErr 1)).
Proof. vm_compute. split; reflexivity. Qed.

(* a record of 40 bytes through a buffer of 16: two full buffers are collected, then the final fragment *)
Example C12_bufio_example_longer_than_buffer :
  let rd := mkSource [repeat "x"%char 25; repeat "x"%char 14 ++ [C12_nl] ++ s2l "tail"] [] EOther 0 in
  exists b, read_string_b C12_nl (new_reader_size rd 16) = RSOk (repeat "x"%char 39 ++ [C12_nl]) None b /\
            bufd b = s2l "tail" /\
  exists b', read_string_b C12_nl b = RSOk (s2l "tail") (Some EOther) b' /\ bufd b' = [] /\
             bufio_ingest_src 16 rd C12_nl never_fail = ([repeat "x"%char 39 ++ [C12_nl]], BReadErr EOther).
Proof.
  cbv zeta. eexists. split; [vm_compute; reflexivity|]. split; [vm_compute; reflexivity|].
  eexists. split; [vm_compute; reflexivity|]. split; vm_compute; reflexivity.
Qed.

(* 100 empty reads in the middle of a record: the first call returns what was read so far with
   io.ErrNoProgress, the next call carries on and returns the rest of the record with a nil error *)
Example C12_bufio_example_no_progress :
  let rd := mkSource (s2l "ab" :: repeat [] 100 ++ [s2l "c" ++ [C12_nl]]) [] EEOF 0 in
  ~ progress_ok (chunks rd) /\
  exists b, read_string_b C12_nl (new_reader_size rd 16) = RSOk (s2l "ab") (Some ENoProgress) b /\
            chunks (rsrc b) = [s2l "c" ++ [C12_nl]] /\ served (rsrc b) = 101 /\
  exists b', read_string_b C12_nl b = RSOk (s2l "c" ++ [C12_nl]) None b'.
Proof.
  cbv zeta. split.
  - apply not_progress_ok_iff. exists [s2l "ab"], [s2l "c" ++ [C12_nl]]. reflexivity.
  - eexists. split; [vm_compute; reflexivity|]. split; [vm_compute; reflexivity|]. split; [vm_compute; reflexivity|].
    eexists. vm_compute. reflexivity.
Qed.

(* 99 empty reads are fine: the contract's hypothesis holds and the record comes back whole *)
Example C12_bufio_example_99_empty_reads :
  let cs := s2l "ab" :: repeat [] 99 ++ [s2l "c" ++ [C12_nl]] in
  progress_ok cs /\ bufio_ingest 16 cs C12_nl never_fail = ([s2l "abc" ++ [C12_nl]], Some RetEOF).
Proof.
  cbv zeta. split; [|vm_compute; reflexivity].
  assert (H : forall n, n < 100 -> progress_ok (repeat [] n ++ [s2l "c" ++ [C12_nl]])).
  { induction n as [|n IH]; intros Hn.
    - cbn. unfold max_consecutive_empty_reads. repeat split; lia.
    - cbn [repeat app]. split; [|apply IH; lia].
      change ([] :: repeat [] n ++ [s2l "c" ++ [C12_nl]]) with (repeat [] (S n) ++ [s2l "c" ++ [C12_nl]]).
      rewrite empties_repeat. cbn. unfold max_consecutive_empty_reads. lia. }
  apply progress_ok_nonempty; [discriminate|]. apply H. lia.
Qed.

(* a script whose error is bufio.ErrBufferFull: ReadString does not return (here: out of fuel) *)
Example C12_bufio_example_buffer_full_source :
  read_string_b C12_nl (new_reader_size (mkSource [] [] EBufferFull 0) 16) = RSOutOfFuel.
Proof. vm_compute. reflexivity. Qed.
