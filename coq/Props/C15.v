(* C15 — No audit record is skipped silently.
   Only statements; every proof is one [exact].  The model is Model/AuditProc.v:
   auparse.ParseLogLine [parse], aucoalesce [coalesce], the After filter [old] and the
   correlator [audit]/[rlogin] are ORACLES and appear as explicit arguments of every theorem
   (nothing is assumed about them); go-libaudit's reassembler is hand-modelled. *)
From Coq Require Import List Bool Arith ZArith NArith Permutation.
Import ListNotations.
From AM Require Import Model.AuditProc Proofs.AuditProcLemmas Model.AuditProcCheck.
From AM Require Gen.Consts.

(* parseAuditLogs: it stops at the FIRST non-empty line the parser rejects, returning an error
   that carries exactly that line, after having pushed every earlier non-empty line; when no
   line is rejected every non-empty line is pushed. *)
Theorem C15_parse_first :
  forall (line msg : Type) (is_empty : line -> bool) (parse : line -> option msg) (ls : list line),
  match snd (parse_loop line msg is_empty parse ls) with
  | Some l => exists pre post, ls = pre ++ l :: post /\ is_empty l = false /\ parse l = None /\
                (forall x, In x pre -> is_empty x = false -> parse x <> None) /\
                fst (parse_loop line msg is_empty parse ls) = pushes line msg is_empty parse pre
  | None => (forall x, In x ls -> is_empty x = false -> parse x <> None) /\
            fst (parse_loop line msg is_empty parse ls) = pushes line msg is_empty parse ls
  end.
Proof. exact parse_loop_spec. Qed.
Print Assumptions C15_parse_first.

(* Read, for EVERY input history (lines with arrival times, Maintain ticks, logins, cancellation;
   any expiry, any overflow of maxInFlight, any callback failure), at the moment the deferred
   Close has flushed:
   - the groups ReassemblyComplete received contain every pushed non-EOE record exactly once
     (eviction by overflow or expiry hands the event over too: it never discards records);
   - they are the groups the reassembler forms of the calls made before Read returned;
   - the pushed records are exactly what the parse loop makes of the lines it consumed, those
     lines are a prefix of the stream, and Read's result is the parse error of the first
     rejected line whenever the loop stopped;
   - Read can only be still running if every line of the stream was consumed. *)
Theorem C15_conservation :
  forall (line msg event cerr login AS : Type) (is_empty : line -> bool) (parse : line -> option msg)
         (mseq : msg -> N) (mtype : msg -> nat) (coalesce : list msg -> option event) (old : event -> bool)
         (audit : AS -> event -> AS * option cerr) (rlogin : AS -> login -> AS * option cerr)
         (maxsz timeout : nat) (a : AS) (ins : list (inp line login)),
  let o := read line msg event cerr login AS is_empty parse mseq mtype coalesce old audit rlogin maxsz timeout a ins in
  let fin := o_fin _ _ _ _ _ o in
  Permutation (concat (cb_groups _ _ _ _ (p_cb _ _ _ _ _ fin)))
              (filter (non_eoe msg mtype) (ops_msgs msg (p_ops _ _ _ _ _ fin))) /\
  cb_groups _ _ _ _ (p_cb _ _ _ _ _ fin) = groups_of msg mseq mtype maxsz timeout (p_ops _ _ _ _ _ (o_ret _ _ _ _ _ o)) /\
  ops_msgs msg (p_ops _ _ _ _ _ fin) = ops_msgs msg (p_ops _ _ _ _ _ (o_ret _ _ _ _ _ o)) /\
  parse_loop line msg is_empty parse (p_consumed _ _ _ _ _ fin) =
    (ops_msgs msg (p_ops _ _ _ _ _ fin), perr_of _ _ _ (o_res _ _ _ _ _ o)) /\
  (exists rest, lines_of line login ins = p_consumed _ _ _ _ _ fin ++ rest) /\
  (o_res _ _ _ _ _ o = RNone _ _ _ -> p_consumed _ _ _ _ _ fin = lines_of line login ins).
Proof. exact conservation. Qed.
Print Assumptions C15_conservation.

(* The reassembler: if no call is later than the event timeout (no expiry), the buffer never
   holds more than maxInFlight events when CleanUp checks it, and no record follows a
   terminating record (EOE, PROCTITLE, type <= 1299 or >= 2100) of its own event, then,
   whatever the interleaving, the groups handed over (Close included) are: exactly one group per
   sequence number that has records, holding all its records in arrival order. *)
Theorem C15_grouping :
  forall (msg : Type) (mseq : msg -> N) (mtype : msg -> nat) (maxsz timeout : nat) (ops : list (rop msg)),
  (forall o, In o ops -> op_time msg o <= timeout /\ o <> RClose) ->
  size_ok msg mseq mtype maxsz timeout (rinit msg) ops ->
  term_last msg mseq mtype (ops_msgs msg ops) ->
  exists seqs,
    NoDup seqs /\
    groups_of msg mseq mtype maxsz timeout ops = map (fun s => recs_of msg mseq mtype s (ops_msgs msg ops)) seqs /\
    (forall s, In s seqs <-> recs_of msg mseq mtype s (ops_msgs msg ops) <> []).
Proof. exact grouping. Qed.
Print Assumptions C15_grouping.

(* A condition on the stream alone that implies the size hypothesis: the pushed records carry at
   most maxInFlight distinct sequence numbers (S lists them). *)
Theorem C15_size_ok_few_seqs :
  forall (msg : Type) (mseq : msg -> N) (mtype : msg -> nat) (maxsz timeout : nat) (ops : list (rop msg)) (S : list N),
  length S <= maxsz -> (forall m, In m (ops_msgs msg ops) -> In (mseq m) S) ->
  size_ok msg mseq mtype maxsz timeout (rinit msg) ops.
Proof. exact size_ok_few_seqs. Qed.
Print Assumptions C15_size_ok_few_seqs.

(* The same for Read: the calls it made on the reassembler before returning. *)
Theorem C15_read_grouping :
  forall (line msg event cerr login AS : Type) (is_empty : line -> bool) (parse : line -> option msg)
         (mseq : msg -> N) (mtype : msg -> nat) (coalesce : list msg -> option event) (old : event -> bool)
         (audit : AS -> event -> AS * option cerr) (rlogin : AS -> login -> AS * option cerr)
         (maxsz timeout : nat) (a : AS) (ins : list (inp line login)),
  let o := read line msg event cerr login AS is_empty parse mseq mtype coalesce old audit rlogin maxsz timeout a ins in
  let ops := p_ops _ _ _ _ _ (o_ret _ _ _ _ _ o) in
  (forall x, In x ops -> op_time msg x <= timeout) ->
  size_ok msg mseq mtype maxsz timeout (rinit msg) ops ->
  term_last msg mseq mtype (ops_msgs msg ops) ->
  exists seqs,
    NoDup seqs /\
    cb_groups _ _ _ _ (p_cb _ _ _ _ _ (o_fin _ _ _ _ _ o)) = map (fun s => recs_of msg mseq mtype s (ops_msgs msg ops)) seqs /\
    (forall s, In s seqs <-> recs_of msg mseq mtype s (ops_msgs msg ops) <> []).
Proof. exact read_grouping. Qed.
Print Assumptions C15_read_grouping.

(* Errors of the callback (coalescing failed, or the correlator returned an error: unparsable
   PID in a LOGIN record, write error): if the callback produced any error before Read returned,
   Read returns the FIRST of them; the errors dropped by the non-blocking send are exactly the
   later ones, produced while that first one was still in the channel.  If it produced none,
   none was dropped. *)
Theorem C15_errors :
  forall (line msg event cerr login AS : Type) (is_empty : line -> bool) (parse : line -> option msg)
         (mseq : msg -> N) (mtype : msg -> nat) (coalesce : list msg -> option event) (old : event -> bool)
         (audit : AS -> event -> AS * option cerr) (rlogin : AS -> login -> AS * option cerr)
         (maxsz timeout : nat) (a : AS) (ins : list (inp line login)),
  let o := read line msg event cerr login AS is_empty parse mseq mtype coalesce old audit rlogin maxsz timeout a ins in
  let c := p_cb _ _ _ _ _ (o_ret _ _ _ _ _ o) in
  match cb_errs _ _ _ _ c with
  | [] => (forall e, o_res _ _ _ _ _ o <> RSlot _ _ _ e) /\ cb_dropped _ _ _ _ c = []
  | e :: rest => o_res _ _ _ _ _ o = RSlot _ _ _ e /\ cb_dropped _ _ _ _ c = rest
  end.
Proof. exact errors. Qed.
Print Assumptions C15_errors.

(* The capacity-1 channel by itself, for ANY interleaving of non-blocking sends and receives:
   every error sent is received, still pending, or was dropped (nothing vanishes unaccounted);
   the first error sent into an empty channel is the first one received (or still pending);
   nothing is dropped when every send is followed by a receive before the next send. *)
Theorem C15_slot :
  forall (E : Type),
  (forall ops slot, let '(s, got, dr) := slot_run E slot ops in
     Permutation (pending E slot ++ sends E ops) (got ++ pending E s ++ dr)) /\
  (forall e r, let '(s, got, dr) := slot_run E None (SSend e :: r) in
     (exists got', got = e :: got') \/ (got = [] /\ s = Some e)) /\
  (forall ops slot, alternating E (match slot with Some _ => true | None => false end) ops ->
     snd (slot_run E slot ops) = []).
Proof. exact (fun E => conj (slot_account E) (conj (slot_first E) (slot_no_drop E))). Qed.
Print Assumptions C15_slot.

(* The limits the running processor uses are GENERATED from processors/auditd/auditd.go. *)
Theorem C15_limits :
  Gen.Consts.maxEventsInFlight = 1000%Z /\ Gen.Consts.eventTimeout_ns = 2000000000%Z /\
  Gen.Consts.reassemblerInterval_ns = 500000000%Z.
Proof. exact (conj eq_refl (conj eq_refl eq_refl)). Qed.
Print Assumptions C15_limits.

(* ---------- non-vacuity: concrete streams (types: 1300 SYSCALL, 1302 PATH, 1327 PROCTITLE,
   1320 EOE, 1112 USER_LOGIN); a group is shown as the indices of its lines ---------- *)
Definition ex_groups (maxsz : nat) (failat : list nat) (ls : list cline) : list (list nat) :=
  map (map c_idx) (cb_groups _ _ _ _ (p_cb _ _ _ _ _ (l1_final maxsz 2000 failat (map K1Line ls)))).

(* two kernel events interleaved record by record, then a single-record event *)
Example C15_example_interleaved :
  ex_groups 1000 [] [LM 5 1300 false; LM 6 1300 false; LM 5 1302 false; LM 6 1302 false; LM 6 1327 false;
                     LM 5 1327 false; LM 5 1320 false; LE; LM 7 1112 false]
  = [[0; 2; 5]; [1; 3; 4]; [8]].
Proof. vm_compute. reflexivity. Qed.

(* a malformed line at position 3: the loop stops there, names it, and what was pushed before is
   still handed over when Close flushes *)
Example C15_example_malformed :
  let s := l1_final 1000 2000 [] (map K1Line [LM 5 1300 false; LE; LM 6 1300 false; LB; LM 5 1327 false]) in
  option_map fst (p_perr _ _ _ _ _ s) = Some 3 /\ length (p_consumed _ _ _ _ _ s) = 4 /\
  map (map c_idx) (cb_groups _ _ _ _ (p_cb _ _ _ _ _ s)) = [[0]; [2]].
Proof. vm_compute. repeat split; reflexivity. Qed.

(* what happens beyond maxInFlight (here 1): the open event 5 is evicted — and handed over — when
   event 6 arrives; each of its later records is evicted as soon as it is put in front of 6, so
   it forms a group of its own (nothing is lost, the group is split), and EventsLost is called
   with the wrapped-around gap 5 - 5 - 1 *)
Example C15_example_overflow :
  let s := l1_final 1 2000 [] (map K1Line [LM 5 1300 false; LM 6 1300 false; LM 5 1302 false; LM 5 1327 false; LM 6 1327 false]) in
  map (map c_idx) (cb_groups _ _ _ _ (p_cb _ _ _ _ _ s)) = [[0]; [2]; [3]; [1; 4]] /\
  cb_lost _ _ _ _ (p_cb _ _ _ _ _ s) = [4294967295%N; 4294967295%N].
Proof. vm_compute. split; reflexivity. Qed.

(* three groups become deliverable in one PushMessage call (5 was blocking 6 and 7); the Auditor
   fails on the second and third: Read returns the second call's error, the third was dropped
   while it was pending *)
Example C15_example_errors :
  let o := read iline cm ev1 nat unit nat c_empty c_parse c_seq c_ty coalesce1 old1 (audit1 [1; 2])
                (fun a _ => (a, None)) 1000 2000 0
                (map (fun il => ILine _ _ 0 il)
                     (combine (seq 0 5) [LM 5 1300 false; LM 6 1300 false; LM 6 1327 false; LM 7 1112 false; LM 5 1327 false])) in
  (match o_res _ _ _ _ _ o with RSlot _ _ _ (EAudit _ _ g k) => Some (map c_idx g, k) | _ => None end) = Some ([1; 2], 1) /\
  map (fun e => match e with EAudit _ _ _ k => k | _ => 0 end) (cb_dropped _ _ _ _ (p_cb _ _ _ _ _ (o_ret _ _ _ _ _ o))) = [2] /\
  map (map c_idx) (cb_groups _ _ _ _ (p_cb _ _ _ _ _ (o_fin _ _ _ _ _ o))) = [[0; 4]; [1; 2]; [3]].
Proof. vm_compute. repeat split; reflexivity. Qed.

(* GENERATED from auditd.go: the channel the callback reports errors into has capacity 1 — the
   "slot" of the model.  (With capacity 0 the non-blocking send would drop an error whenever
   Read's goroutine is not waiting in its select at that instant.) *)
Theorem C15_error_slot_capacity : Gen.Consts.reassemblerErrorsCap = 1%Z.
Proof. reflexivity. Qed.
Print Assumptions C15_error_slot_capacity.

(* ---------- the correlator oracle of these statements is the correlator of the source ----------
   The statements above take the correlator as an oracle (audit / rlogin); the end-to-end correspondence
   instantiates it with Model/Tracker.v, and that model IS the interpretation of programs regenerated
   from sessiontracker.go on every run: in particular which branches return a write error (so that the
   processor stops) is read from the source. *)
From AM Require Model.Tracker Model.TrackerIR Gen.TrackerProg Proofs.TrackerIRTie.
Theorem C15_tracker_from_source : forall st o,
  Proofs.TrackerIRTie.run_generated st o = Some (Model.Tracker.tstep st o).
Proof. exact Proofs.TrackerIRTie.tracker_from_source. Qed.
Print Assumptions C15_tracker_from_source.

(* ---------- the processor model of these statements is the processor of the source ----------
   Model/AuditProc.v's [deliver], [on_line] / [parse_loop], [poll] / [step], [shutdown] and [read] are the
   interpretation (Model/AuditIR.v) of programs regenerated on every run from processors/auditd/auditd.go
   (Read, maintainReassemblerLoop, parseAuditLogs) and reassembler_callback.go (ReassemblyComplete,
   EventsLost): Gen/AuditProg.v.  For all inputs and all oracles (the same as above, plus the correlator's two
   cleanups [csess]/[clogins] and the unit conversion [dur] of Go durations, which the model has no use for). *)
From Coq Require Import String.
From AM Require Import Model.AuditIR Gen.AuditProg Proofs.AuditIRTie.

Section C15_processor_from_source.
  Variables line msg event cerr login AS : Type.
  Variable is_empty : line -> bool.
  Variable parse : line -> option msg.
  Variable mseq : msg -> N.
  Variable mtype : msg -> nat.
  Variable coalesce : list msg -> option event.
  Variable old : event -> bool.
  Variable audit : AS -> event -> AS * option cerr.
  Variable rlogin : AS -> login -> AS * option cerr.
  Variable csess clogins : AS -> tmv -> AS.
  Variable dur : Z -> nat.

  (* the limits Read hands to NewReassembler, from Gen/Consts.v *)
  Let mx : nat := Z.to_nat Gen.Consts.maxEventsInFlight.
  Let tmo : nat := dur Gen.Consts.eventTimeout_ns.

  (* ReassemblyComplete, on the callback's own state: note the group, CoalesceMessages, its error into the
     errors channel by a NON-BLOCKING send, return; an event before After is dropped; ResolveIDs; AuditdEvent; its
     error into the errors channel likewise *)
  Theorem C15_processor_from_source_deliver : forall (p : pst line msg event cerr AS) (g : list msg),
    option_map (p_cb line msg event cerr AS)
      (complete_gen line msg event cerr login AS is_empty parse coalesce old audit rlogin csess clogins dur
                    gen_ReassemblyComplete p g) =
    Some (deliver msg event cerr AS coalesce old audit (p_cb line msg event cerr AS p) g).
  Proof. exact (deliver_from_source line msg event cerr login AS is_empty parse coalesce old audit rlogin csess clogins dur). Qed.

  (* EventsLost only logs (the model records the count) *)
  Theorem C15_processor_from_source_lost : forall (p : pst line msg event cerr AS) (n : N),
    lost_gen line msg event cerr login AS is_empty parse coalesce old audit rlogin csess clogins dur gen_EventsLost p n =
    Some (on_cb line msg event cerr AS (note_lost msg event cerr AS n) p).
  Proof. exact (lost_from_source line msg event cerr login AS is_empty parse coalesce old audit rlogin csess clogins dur). Qed.

  (* PushMessage / Maintain / Close = the library step, then the generated callbacks *)
  Theorem C15_processor_from_source_reass : forall m t (p : pst line msg event cerr AS) (o : rop msg),
    reass_of line msg event cerr login AS is_empty parse mseq mtype coalesce old audit rlogin csess clogins dur gen_audit m t p o =
    Some (reass line msg event cerr AS mseq mtype coalesce old audit m t p o).
  Proof. exact (reass_from_source line msg event cerr login AS is_empty parse mseq mtype coalesce old audit rlogin csess clogins dur). Qed.

  (* parseAuditLogs, one received line: consumed; skipped if empty; ParseLogLine; its error ends the loop (the
     returned error shows that line and wraps the parser's); otherwise PushMessage *)
  Theorem C15_processor_from_source_on_line : forall m t now l (p : pst line msg event cerr AS),
    parser_step_gen line msg event cerr login AS is_empty parse mseq mtype coalesce old audit rlogin csess clogins dur
                    gen_audit (m, t) now l p =
    Some (on_line line msg event cerr AS is_empty parse mseq mtype coalesce old audit m t now l p).
  Proof. exact (on_line_from_source line msg event cerr login AS is_empty parse mseq mtype coalesce old audit rlogin csess clogins dur). Qed.

  (* ... cancellation (seen by the ctx.Err() check or by the select): ctx.Err() is returned, nothing consumed *)
  Theorem C15_processor_from_source_parse_cancel : forall lim b (p : pst line msg event cerr AS),
    parse_iter_gen line msg event cerr login AS is_empty parse mseq mtype coalesce old audit rlogin csess clogins dur
                   gen_audit lim (EvCancel line login b) p = Some (p, Some (Some (XCtx line msg cerr))).
  Proof. exact (parse_cancel_from_source line msg event cerr login AS is_empty parse mseq mtype coalesce old audit rlogin csess clogins dur). Qed.

  (* ... the context already done while a line is waiting: the check at the top of the loop returns first; no line
     is consumed after cancellation *)
  Theorem C15_processor_from_source_line_after_cancel : forall lim now l (p : pst line msg event cerr AS),
    parse_iter_gen line msg event cerr login AS is_empty parse mseq mtype coalesce old audit rlogin csess clogins dur
                   gen_audit lim (EvLineCancelled line login now l) p = Some (p, Some (Some (XCtx line msg cerr))).
  Proof. exact (parse_line_after_cancel_from_source line msg event cerr login AS is_empty parse mseq mtype coalesce old audit rlogin csess clogins dur). Qed.

  (* ... and a finite stream: what was pushed and the line it stopped at are [parse_loop] of the stream *)
  Theorem C15_processor_from_source_parse_loop : forall m t a (ls : list (nat * line)),
    exists p', parser_run_gen line msg event cerr login AS is_empty parse mseq mtype coalesce old audit rlogin csess clogins dur
                              gen_audit (m, t) ls (pinit line msg event cerr AS a) = Some p' /\
               parse_loop line msg is_empty parse (map snd ls) =
               (ops_msgs msg (p_ops line msg event cerr AS p'), p_perr line msg event cerr AS p').
  Proof. exact (parse_loop_from_source line msg event cerr login AS is_empty parse mseq mtype coalesce old audit rlogin csess clogins dur). Qed.

  (* maintainReassemblerLoop: a tick = Maintain, go on; Maintain's error (closed reassembler) = return; ctx.Done = return *)
  Theorem C15_processor_from_source_maintain : forall d m t now (p : pst line msg event cerr AS),
    maintain_iter_gen line msg event cerr login AS is_empty parse mseq mtype coalesce old audit rlogin csess clogins dur
                      gen_audit d (m, t) false (EvTick line login now) p =
      Some (reass line msg event cerr AS mseq mtype coalesce old audit m t p (RMaintain now), None) /\
    maintain_iter_gen line msg event cerr login AS is_empty parse mseq mtype coalesce old audit rlogin csess clogins dur
                      gen_audit d (m, t) true (EvTick line login now) p = Some (p, Some None) /\
    (forall closed b,
       maintain_iter_gen line msg event cerr login AS is_empty parse mseq mtype coalesce old audit rlogin csess clogins dur
                         gen_audit d (m, t) closed (EvCancel line login b) p = Some (p, Some None)).
  Proof. exact (maintain_from_source line msg event cerr login AS is_empty parse mseq mtype coalesce old audit rlogin csess clogins dur). Qed.

  (* Read's set-up part: the state is untouched; the reassembler gets the generated limits and the callback
     {au: the tracker, errors: a capacity-1 channel, after: o.After} (otherwise there is no [st]); deferred, in the
     order they run: ticker.Stop, cancel + wait for the channel the parser goroutine closes, reassembler.Close;
     goroutines: the parser (on the derived context) and the maintain loop with the generated period; OnReady once;
     the clean-up ticker has the generated period *)
  Theorem C15_processor_from_source_setup : forall (p : pst line msg event cerr AS) ev, exists st body n,
    read_setup_gen line msg event cerr login AS is_empty parse mseq mtype coalesce old audit rlogin csess clogins dur
                   gen_audit p ev = Some (st, body) /\
    i_p _ _ _ _ _ _ st = p /\
    i_lim _ _ _ _ _ _ st = Some (mx, tmo) /\
    i_defers _ _ _ _ _ _ st = [DStop; DJoin n; DClose] /\
    In (GParser n) (i_gos _ _ _ _ _ _ st) /\ List.length (i_gos _ _ _ _ _ _ st) = 2 /\
    has_parser _ _ _ _ _ _ st = true /\
    maintain_period _ _ _ _ _ _ st = Some Gen.Consts.reassemblerInterval_ns /\
    i_ready _ _ _ _ _ _ st = ["auditd-processor"%string] /\
    In (VTicker _ _ _ _ _ Gen.Consts.staleDataCleanupInterval_ns) (map snd (i_env _ _ _ _ _ _ st)).
  Proof. exact (read_setup_from_source line msg event cerr login AS is_empty parse mseq mtype coalesce old audit rlogin csess clogins dur). Qed.

  (* every input of the model (a line for the parser goroutine, a tick of the maintain goroutine, a login, the
     cancellation), followed by Read's select: the model's [step]; when an arm returns, the class of the returned
     error is the model's result (parser error / callback error / login error, each wrapped; ctx.Err()), the
     parser goroutine has been waited for, and the deferred Close has run: [shutdown] *)
  Theorem C15_processor_from_source_step : forall (p : pst line msg event cerr AS) (i : inp line login),
    read_step_gen line msg event cerr login AS is_empty parse mseq mtype coalesce old audit rlogin csess clogins dur gen_audit p i =
    Some (outcome_of line msg event cerr AS mseq mtype coalesce old audit mx tmo
            (step line msg event cerr login AS is_empty parse mseq mtype coalesce old audit rlogin mx tmo p i)).
  Proof. exact (read_step_from_source line msg event cerr login AS is_empty parse mseq mtype coalesce old audit rlogin csess clogins dur). Qed.

  (* the select by itself = [poll] *)
  Theorem C15_processor_from_source_poll : forall (p : pst line msg event cerr AS),
    read_poll_gen line msg event cerr login AS is_empty parse mseq mtype coalesce old audit rlogin csess clogins dur gen_audit p =
    Some (outcome_of line msg event cerr AS mseq mtype coalesce old audit mx tmo (poll line msg event cerr AS p)).
  Proof. exact (read_poll_from_source line msg event cerr login AS is_empty parse mseq mtype coalesce old audit rlogin csess clogins dur). Qed.

  (* the clean-up arm (no counterpart in the model: the correlator is an oracle there): both cleanups, sessions
     first, with the same cut-off  time.Now() - staleDataCleanupInterval ; the loop goes on *)
  Theorem C15_processor_from_source_cleanup : forall now (p : pst line msg event cerr AS),
    read_arm_gen line msg event cerr login AS is_empty parse mseq mtype coalesce old audit rlogin csess clogins dur
                 gen_audit (EvTick line login now) p =
    let cut := TmNowAdd now (- Gen.Consts.staleDataCleanupInterval_ns) in
    Some (set_as line msg event cerr AS (clogins (csess (as_of line msg event cerr AS p) cut) cut) p, RNone line msg cerr, None).
  Proof. exact (read_arm_cleanup_from_source line msg event cerr login AS is_empty parse mseq mtype coalesce old audit rlogin csess clogins dur). Qed.

  (* Read as a whole, from its first statement, over any input history = [read] *)
  Theorem C15_processor_from_source_read : forall (a : AS) (ins : list (inp line login)),
    let o := read line msg event cerr login AS is_empty parse mseq mtype coalesce old audit rlogin mx tmo a ins in
    run_read line msg event cerr login AS is_empty parse mseq mtype coalesce old audit rlogin csess clogins dur gen_audit a ins =
    Some (o_ret _ _ _ _ _ o, o_res _ _ _ _ _ o,
          match o_res _ _ _ _ _ o with RNone _ _ _ => None | _ => Some (o_fin _ _ _ _ _ o) end).
  Proof. exact (read_from_source line msg event cerr login AS is_empty parse mseq mtype coalesce old audit rlogin csess clogins dur). Qed.
End C15_processor_from_source.

(* both error channels Read makes have capacity 1, read off the generated program *)
Theorem C15_processor_from_source_channels :
  Forall (fun s => match s with SMakeErrChan _ cap => cap = 1 | _ => True end) (af_body gen_Read).
Proof. exact read_error_channels_capacity. Qed.

Print Assumptions C15_processor_from_source_deliver.
Print Assumptions C15_processor_from_source_lost.
Print Assumptions C15_processor_from_source_reass.
Print Assumptions C15_processor_from_source_on_line.
Print Assumptions C15_processor_from_source_parse_cancel.
Print Assumptions C15_processor_from_source_line_after_cancel.
Print Assumptions C15_processor_from_source_parse_loop.
Print Assumptions C15_processor_from_source_maintain.
Print Assumptions C15_processor_from_source_setup.
Print Assumptions C15_processor_from_source_step.
Print Assumptions C15_processor_from_source_poll.
Print Assumptions C15_processor_from_source_cleanup.
Print Assumptions C15_processor_from_source_read.
Print Assumptions C15_processor_from_source_channels.

(* ---------- the daemon configures no After filter ----------
   ReassemblyComplete returns without reporting anything when event.Timestamp.Before(s.after) — the [old] oracle of the
   statements above.  The audit worker's closure in RunNamedPipe (regenerated into Gen/WorkerBodies.v, normalised by
   Model/WorkerWiring.v) builds the processor from exactly the fields Audits, Logins, EventW, Health: After is the
   zero time, so in the daemon [old] is constantly false and no record is skipped for its timestamp. *)
From Coq Require Import String.
From AM Require Import Model.WorkerWiring Gen.WorkerBodies Proofs.WorkerWiringTie.
Theorem C15_no_time_filter_in_the_daemon :
  exists fs, bind_opt (ret_of 2) (fun e => option_map fields_of (recv_of e)) = Some fs /\
             List.length fs = 4 /\ ~ In "After"%string fs /\ In "Audits"%string fs /\ In "Logins"%string fs /\
             In "EventW"%string fs /\ In "Health"%string fs.
Proof. exact audit_processor_has_no_time_filter. Qed.
Print Assumptions C15_no_time_filter_in_the_daemon.

(* ---------- go-libaudit's reassembler, translated from the pinned module ----------
   Model/AuditProc.v's Section Reassembler ([put], [cleanup], [rstep], [lost_of], [last_of]: the oracle [rstep] of the
   statements above) is tied to THIRD-PARTY code: reassembler.go of the module /repo/go.mod pins
   (github.com/elastic/go-libaudit/v2, replaced by github.com/metal-toolbox/go-libaudit/v2).  tools/go2v/reassemblergen.go
   resolves the module directory the way `go list -m` does and regenerates Gen/ReassemblerProg.v on every run: the bodies of
   eventList.Put / CleanUp / Clear / remove, event.Add / IsExpired, sequenceNumSlice.Less, abs, Reassembler.PushMessage /
   Maintain / Close / callback, statement by statement (IR and interpreter: Model/ReassemblerIR.v; the interpreter keeps
   l.seqs AND l.events with a heap of event objects, as the source does).  The statements below are proved for all inputs
   in Proofs/ReassemblerIRTie.v.  [Rep c evs ps]: the interpreter state c represents the model's buffer evs (l.seqs = its
   numbers in its order; l.events maps exactly those numbers to pairwise distinct objects ps holding the events' content);
   [RepSt]: the same for a whole model state with the limits; [abs_state] builds a representing state for every model state.

   THE WINDOW CONDITION.  sort.Sort (reached by l.seqs.Sort()) has a defined result only when Less is a strict total order
   on the numbers present; with the roll-over rule (|a-b| > 2^24-1 reverses the comparison) Less is NOT transitive in
   general ([C15_reassembler_from_source_less_not_transitive]).  It is
     - the plain order [<] on any set of numbers pairwise closer than 2^24 ([in_window]): there the generated program
       is the plain-order model the theorems of this file speak about;
     - a strict total order on two such clusters lying further apart than 2^24-1 ([two_clusters], e.g. either side of
       the 2^32 wrap): there the generated program is the ORDER-GENERIC model [put_by seq_less] / [rstep_by seq_less]
       (Model/AuditProc.v, Section ReassemblerBy; [put_by N.ltb = put]), the upper cluster sorting first. *)
From AM Require Import Model.ReassemblerIR Gen.ReassemblerProg Proofs.ReassemblerIRRun Proofs.ReassemblerIRTie.
From Coq Require Import Sorting.Sorted.

Section C15_reassembler_from_source.
  Variable msg : Type.
  Variable mseq : msg -> N.          (* AuditMessage.Sequence, a uint32 *)
  Variable mtype : msg -> nat.       (* AuditMessage.RecordType *)

  (* sequenceNumSlice.Less (+ abs, maxSortRange), as sort.Sort consults it, is the model's [seq_less] *)
  Theorem C15_reassembler_from_source_less : forall (c : cst msg) a b,
    less_of msg (callee msg mseq mtype gen_reassembler 3) c a b = Some (seq_less a b).
  Proof. exact (less_from_source msg mseq mtype). Qed.

  (* eventList.Put (+ event.Add, the sort) = the plain-order [put], inside a window *)
  Theorem C15_reassembler_from_source_put : forall d (c : cst msg) evs ps m,
    Rep msg c evs ps -> c_locked c = false -> (mseq m < two32)%N ->
    StronglySorted N.lt (map e_seq evs) -> in_window (mseq m :: map e_seq evs) ->
    exists c' ps',
      callee msg mseq mtype gen_reassembler (4 + d) FnPut (Some VListObj) [VMsg (Some m)] c = Some (c', []) /\
      Rep msg c' (put msg mseq mtype (c_timeout c) (c_now c) m evs) ps' /\ same_rest msg c c' /\ c_last c' = c_last c.
  Proof. exact (put_from_source msg mseq mtype). Qed.

  (* ... = the order-generic [put_by seq_less] whenever Less is transitive on the numbers present *)
  Theorem C15_reassembler_from_source_put_by : forall d (c : cst msg) evs ps m,
    Rep msg c evs ps -> c_locked c = false -> (mseq m < two32)%N ->
    sorted_by seq_less (map e_seq evs) -> less_trans_on (mseq m :: map e_seq evs) ->
    exists c' ps',
      callee msg mseq mtype gen_reassembler (4 + d) FnPut (Some VListObj) [VMsg (Some m)] c = Some (c', []) /\
      Rep msg c' (put_by msg mseq mtype seq_less (c_timeout c) (c_now c) m evs) ps' /\ same_rest msg c c' /\
      c_last c' = c_last c.
  Proof. exact (put_by_from_source msg mseq mtype). Qed.

  (* eventList.CleanUp (+ IsExpired, remove) = [cleanup]: the evicted objects in order with their record lists, the lost
     count [lost_of], lastSeq = [last_of]; the kept events stay represented *)
  Theorem C15_reassembler_from_source_cleanup : forall d (c : cst msg) evs ps maxsz,
    Rep msg c evs ps -> c_locked c = false -> c_maxsz c = Z.of_nat maxsz -> (c_last c < two32)%N ->
    let ev := fst (cleanup msg maxsz (c_now c) evs) in
    let kept := snd (cleanup msg maxsz (c_now c) evs) in
    exists c' pe pk,
      ps = pe ++ pk /\
      callee msg mseq mtype gen_reassembler (3 + d) FnCleanUp (Some VListObj) [] c =
        Some (c', [VEvs (map Some pe); VInt (Z.of_N (lost_of msg (c_last c) ev))]) /\
      Rep msg c' kept pk /\ carries msg (c_heap c) pe (map e_msgs ev) /\
      c_last c' = last_of msg (c_last c) ev /\ (c_last c' < two32)%N /\ c_heap c' = c_heap c /\ same_rest msg c c'.
  Proof. exact (cleanup_from_source msg mseq mtype). Qed.

  (* eventList.Clear = everything evicted, in order *)
  Theorem C15_reassembler_from_source_clear : forall d (c : cst msg) evs ps,
    Rep msg c evs ps -> c_locked c = false -> (c_last c < two32)%N ->
    exists c',
      callee msg mseq mtype gen_reassembler (3 + d) FnClear (Some VListObj) [] c =
        Some (c', [VEvs (map Some ps); VInt (Z.of_N (lost_of msg (c_last c) evs))]) /\
      Rep msg c' [] [] /\ carries msg (c_heap c) ps (map e_msgs evs) /\
      c_last c' = last_of msg (c_last c) evs /\ (c_last c' < two32)%N /\ c_heap c' = c_heap c /\ same_rest msg c c'.
  Proof. exact (clear_from_source msg mseq mtype). Qed.

  (* PushMessage / Maintain / Close on an open reassembler = the model's [rstep] (plain order, inside a window): the new
     state is represented, the Stream receives one ReassemblyComplete per evicted event in order and then EventsLost iff the
     lost count is non-zero, Close sets the closed flag *)
  Theorem C15_reassembler_from_source_rstep : forall (c : cst msg) st maxsz timeout ps o,
    RepSt msg c st maxsz timeout ps -> c_closed c = 0%Z ->
    StronglySorted N.lt (map e_seq (r_evs st)) -> in_window (map e_seq (r_evs st)) -> op_in_window msg mseq st o ->
    exists c' ps',
      run_op msg mseq mtype o c = Some (c', op_ret msg o) /\
      RepSt msg c' (fst (fst (rstep msg mseq mtype maxsz timeout st o))) maxsz timeout ps' /\
      c_out c' = c_out c ++ cb_out msg (snd (fst (rstep msg mseq mtype maxsz timeout st o)))
                                       (snd (rstep msg mseq mtype maxsz timeout st o)) /\
      c_closed c' = op_closed msg o.
  Proof. exact (rstep_from_source msg mseq mtype). Qed.

  (* the same started from the abstraction of any model state satisfying the model's invariant *)
  Theorem C15_reassembler_from_source_rstep_abs : forall st maxsz timeout out o,
    StronglySorted N.lt (map e_seq (r_evs st)) -> Forall (fun s => (s < two32)%N) (map e_seq (r_evs st)) ->
    (r_last st < two32)%N -> in_window (map e_seq (r_evs st)) -> op_in_window msg mseq st o ->
    exists c' ps',
      run_op msg mseq mtype o (abs_state msg st maxsz timeout 0 out) = Some (c', op_ret msg o) /\
      RepSt msg c' (fst (fst (rstep msg mseq mtype maxsz timeout st o))) maxsz timeout ps' /\
      c_out c' = out ++ cb_out msg (snd (fst (rstep msg mseq mtype maxsz timeout st o)))
                                   (snd (rstep msg mseq mtype maxsz timeout st o)) /\
      c_closed c' = op_closed msg o.
  Proof. exact (rstep_from_source_abs msg mseq mtype). Qed.

  (* ... = the order-generic [rstep_by seq_less] whenever Less is transitive on the numbers present *)
  Theorem C15_reassembler_from_source_rstep_by : forall (c : cst msg) st maxsz timeout ps o,
    RepSt msg c st maxsz timeout ps -> c_closed c = 0%Z ->
    sorted_by seq_less (map e_seq (r_evs st)) -> op_order_ok msg mseq st o ->
    exists c' ps',
      run_op msg mseq mtype o c = Some (c', op_ret msg o) /\
      RepSt msg c' (fst (fst (rstep_by msg mseq mtype seq_less maxsz timeout st o))) maxsz timeout ps' /\
      c_out c' = c_out c ++ cb_out msg (snd (fst (rstep_by msg mseq mtype seq_less maxsz timeout st o)))
                                       (snd (rstep_by msg mseq mtype seq_less maxsz timeout st o)) /\
      c_closed c' = op_closed msg o.
  Proof. exact (rstep_by_from_source msg mseq mtype). Qed.

  (* whole histories from NewReassembler on, closed by Close: the groups ReassemblyComplete receives are [groups_of],
     the list Props/C15.v's grouping theorems describe, for every history whose numbers lie in one window *)
  Theorem C15_reassembler_from_source_groups : forall S maxsz timeout ops,
    in_window S -> ops_in msg mseq S ops ->
    exists c1 c2,
      run_ops msg mseq mtype ops (cinit msg (Z.of_nat maxsz) timeout) = Some c1 /\
      close msg mseq mtype gen_reassembler 0 c1 = Some (c2, [VNil]) /\
      groups_out msg (c_out c2) = groups_of msg mseq mtype maxsz timeout ops.
  Proof. exact (groups_from_source_in_window msg mseq mtype). Qed.

  (* ... and [groups_of_by seq_less] for every history whose numbers lie in a set on which Less is transitive *)
  Theorem C15_reassembler_from_source_groups_by : forall S maxsz timeout ops,
    less_trans_on S -> ops_in msg mseq S ops ->
    exists c1 c2,
      run_ops msg mseq mtype ops (cinit msg (Z.of_nat maxsz) timeout) = Some c1 /\
      close msg mseq mtype gen_reassembler 0 c1 = Some (c2, [VNil]) /\
      groups_out msg (c_out c2) = groups_of_by msg mseq mtype seq_less maxsz timeout ops.
  Proof. exact (groups_from_source msg mseq mtype). Qed.

  (* the record-type tests of Put and Add, with the auparse constants the translator resolved, are the model's *)
  Theorem C15_reassembler_from_source_is_eoe : forall call (c : cst msg) en m,
    get "msg" en = Some (VMsg (Some m)) ->
    eval msg mseq mtype call put_eoe_test c en = Some (c, VBool (is_eoe (mtype m))).
  Proof. exact (is_eoe_from_source msg mseq mtype). Qed.

  Theorem C15_reassembler_from_source_completes : forall call (c : cst msg) en m,
    get "msg" en = Some (VMsg (Some m)) ->
    eval msg mseq mtype call add_complete_test c en = Some (c, VBool (completes (mtype m))).
  Proof. exact (completes_from_source msg mseq mtype). Qed.

  (* Maintain after Close returns errReassemblerClosed and delivers nothing *)
  Theorem C15_reassembler_from_source_maintain_after_close : forall (c : cst msg) now,
    c_closed c = 1%Z ->
    maintain msg mseq mtype gen_reassembler now c = Some (with_now msg now c, [VErr (Some "errReassemblerClosed")]).
  Proof. exact (maintain_after_close msg mseq mtype). Qed.

  (* Close twice delivers once: the first flushes everything in order, a second Close (and a Maintain) only return the error *)
  Theorem C15_reassembler_from_source_close_twice : forall (c : cst msg) st maxsz timeout ps now now',
    RepSt msg c st maxsz timeout ps -> c_closed c = 0%Z ->
    exists c',
      close msg mseq mtype gen_reassembler now c = Some (c', [VNil]) /\
      c_out c' = c_out c ++ cb_out msg (r_evs st) (lost_of msg (r_last st) (r_evs st)) /\
      close msg mseq mtype gen_reassembler now' c' = Some (with_now msg now' c', [VErr (Some "errReassemblerClosed")]) /\
      maintain msg mseq mtype gen_reassembler now' c' = Some (with_now msg now' c', [VErr (Some "errReassemblerClosed")]) /\
      c_out (with_now msg now' c') = c_out c'.
  Proof. exact (close_twice msg mseq mtype). Qed.

  (* PushMessage(nil) does nothing *)
  Theorem C15_reassembler_from_source_push_nil : forall (c : cst msg) now,
    push_message msg mseq mtype gen_reassembler now None c = Some (with_now msg now c, []).
  Proof. exact (push_nil_from_source msg mseq mtype). Qed.

  (* NEW coverage — a roll-over: records numbered 2^32-2, 2^32-1, 0, 1 arriving in that order and all in flight are
     handed to ReassemblyComplete in THAT order by the generated program (Less treats 0 as greater than 2^32-1); the
     plain-order model would deliver 0 and 1 first, so it does not cover this history *)
  Theorem C15_reassembler_from_source_rollover : forall (m1 m2 m3 m4 : msg),
    mseq m1 = 4294967294%N -> mseq m2 = 4294967295%N -> mseq m3 = 0%N -> mseq m4 = 1%N ->
    (forall m, In m [m1; m2; m3; m4] -> is_eoe (mtype m) = false /\ completes (mtype m) = false) ->
    forall maxsz timeout t1 t2 t3 t4, 4 <= maxsz ->
    t4 <= t1 + timeout /\ t3 <= t1 + timeout /\ t2 <= t1 + timeout /\ t4 <= t2 + timeout /\ t3 <= t2 + timeout /\ t4 <= t3 + timeout ->
    (exists c1 c2,
       run_ops msg mseq mtype (rollover_ops msg m1 m2 m3 m4 t1 t2 t3 t4) (cinit msg (Z.of_nat maxsz) timeout) = Some c1 /\
       close msg mseq mtype gen_reassembler 0 c1 = Some (c2, [VNil]) /\
       groups_out msg (c_out c2) = [[m1]; [m2]; [m3]; [m4]]) /\
    groups_of msg mseq mtype maxsz timeout (rollover_ops msg m1 m2 m3 m4 t1 t2 t3 t4) = [[m3]; [m4]; [m1]; [m2]].
  Proof.
    intros m1 m2 m3 m4 q1 q2 q3 q4 ord maxsz timeout t1 t2 t3 t4 room noexp. split.
    - exact (rollover_from_source msg mseq mtype m1 m2 m3 m4 q1 q2 q3 q4 ord maxsz timeout t1 t2 t3 t4 room noexp).
    - exact (rollover_plain_model_differs msg mseq mtype m1 m2 m3 m4 q1 q2 q3 q4 ord maxsz timeout t1 t2 t3 t4 room noexp).
  Qed.
End C15_reassembler_from_source.

(* the ordering: Less is the plain order inside a window; beyond it the comparison is reversed; a strict total order on
   a window and on two clusters; not transitive in general *)
Theorem C15_reassembler_from_source_less_is_lt_in_window :
  forall a b, (seq_dist a b <= max_sort_range)%N -> seq_less a b = (a <? b)%N.
Proof. exact less_is_lt_in_window. Qed.

Theorem C15_reassembler_from_source_less_beyond_window :
  forall a b, (max_sort_range < seq_dist a b)%N -> seq_less a b = (b <? a)%N.
Proof. exact less_is_gt_beyond_window. Qed.

Theorem C15_reassembler_from_source_less_trans_in_window : forall l, in_window l -> less_trans_on l.
Proof. exact less_trans_in_window. Qed.

Theorem C15_reassembler_from_source_less_trans_two_clusters : forall l, two_clusters l -> less_trans_on l.
Proof. exact less_trans_two_clusters. Qed.

Theorem C15_reassembler_from_source_less_not_transitive :
  seq_less 0 16777215 = true /\ seq_less 16777215 33554430 = true /\ seq_less 0 33554430 = false /\
  seq_less 33554430 0 = true.
Proof. exact less_not_transitive. Qed.

(* the generated constants are the model's; Put, CleanUp and Clear hold the list's mutex from first statement to return;
   Sort is sort.Sort with the usual Len and Swap *)
Theorem C15_reassembler_from_source_constants :
  gen_AUDIT_EOE = Z.of_nat T_EOE /\ gen_AUDIT_PROCTITLE = Z.of_nat T_PROCTITLE /\
  gen_AUDIT_LAST_DAEMON = Z.of_nat T_LAST_DAEMON /\ gen_AUDIT_ANOM_LOGIN_FAILURES = Z.of_nat T_ANOM_LOGIN_FAILURES /\
  gen_maxSortRange = Z.of_N max_sort_range.
Proof. exact constants_from_source. Qed.

Theorem C15_reassembler_from_source_locks :
  Forall (fun f => match rf_body f with
                   | BCons (SLock (XVar l)) (BCons (SDeferUnlock (XVar l')) _) => rf_recv f = Some l /\ l' = l
                   | _ => False
                   end) [gen_Put; gen_CleanUp; gen_Clear] /\
  gen_sort_iface = {| si_sort_is_sort_Sort := true; si_len_is_len := true; si_swap_is_swap := true |}.
Proof. exact list_methods_locked. Qed.

Print Assumptions C15_reassembler_from_source_less.
Print Assumptions C15_reassembler_from_source_put.
Print Assumptions C15_reassembler_from_source_put_by.
Print Assumptions C15_reassembler_from_source_cleanup.
Print Assumptions C15_reassembler_from_source_clear.
Print Assumptions C15_reassembler_from_source_rstep.
Print Assumptions C15_reassembler_from_source_rstep_abs.
Print Assumptions C15_reassembler_from_source_rstep_by.
Print Assumptions C15_reassembler_from_source_groups.
Print Assumptions C15_reassembler_from_source_groups_by.
Print Assumptions C15_reassembler_from_source_is_eoe.
Print Assumptions C15_reassembler_from_source_completes.
Print Assumptions C15_reassembler_from_source_maintain_after_close.
Print Assumptions C15_reassembler_from_source_close_twice.
Print Assumptions C15_reassembler_from_source_push_nil.
Print Assumptions C15_reassembler_from_source_rollover.
Print Assumptions C15_reassembler_from_source_less_is_lt_in_window.
Print Assumptions C15_reassembler_from_source_less_beyond_window.
Print Assumptions C15_reassembler_from_source_less_trans_in_window.
Print Assumptions C15_reassembler_from_source_less_trans_two_clusters.
Print Assumptions C15_reassembler_from_source_less_not_transitive.
Print Assumptions C15_reassembler_from_source_constants.
Print Assumptions C15_reassembler_from_source_locks.

(* ---------- what the reported errors carry: errors.go, read from the source ----------
   The error Read returns for an unparsable line is a *parseAuditLogsError whose message names the line, for a callback
   failure a *reassemblerCBError wrapping the correlator's *SessionTrackerError.  Gen/ErrorTypes.v is regenerated on every
   run from the three errors.go files: every method of these types is an accessor of one field — Error() is the
   message built at the failure site, Unwrap() the wrapped error, the classification flags their own fields. *)
From AM Require Gen.ErrorTypes Proofs.ErrorTypesTie.
Theorem C15_error_types_from_source :
  Proofs.ErrorTypesTie.accessor "parseAuditLogsError" "Error" = Some ("message"%string, "string"%string) /\
  Proofs.ErrorTypesTie.accessor "parseAuditLogsError" "Unwrap" = Some ("inner"%string, "error"%string) /\
  Proofs.ErrorTypesTie.accessor "reassemblerCBError" "Error" = Some ("message"%string, "string"%string) /\
  Proofs.ErrorTypesTie.accessor "reassemblerCBError" "Unwrap" = Some ("inner"%string, "error"%string) /\
  Proofs.ErrorTypesTie.accessor "SessionTrackerError" "Error" = Some ("message"%string, "string"%string) /\
  Proofs.ErrorTypesTie.accessor "SessionTrackerError" "Unwrap" = Some ("inner"%string, "error"%string) /\
  Proofs.ErrorTypesTie.accessor "SessionTrackerError" "RemoteLoginFailed" = Some ("remoteLoginFail"%string, "bool"%string) /\
  Proofs.ErrorTypesTie.accessor "SessionTrackerError" "ParsePIDFailed" = Some ("parsePIDFail"%string, "bool"%string) /\
  Proofs.ErrorTypesTie.accessor "SessionTrackerError" "AuditEventWriteFailed" = Some ("auditWriteFail"%string, "bool"%string) /\
  Proofs.ErrorTypesTie.accessor "RemoteUserLoginValidateError" "Error" = Some ("message"%string, "string"%string).
Proof. exact Proofs.ErrorTypesTie.error_types_from_source. Qed.
Print Assumptions C15_error_types_from_source.

(* ---------- which lines are unparsable: go-libaudit's line parser inside the model ----------
   C15_parse_first takes the parser as an oracle.  Model/Auparse.v IS that parser (auparse.ParseLogLine of the
   pinned go-libaudit, header level: strings.Index, the slices, GetAuditMessageType with its UNKNOWN[n] fallback,
   strings.TrimSpace, parseAuditHeader over exact strconv.ParseInt / ParseUint), tied to the real library on every
   run by the auparse stage (Model/AuparseCheck.v).  [type_of] is the library's message-type table: a parameter,
   nothing is assumed about it.  Outcomes: POk m | PErrHeader | PErrType | PPanic (never: C15_parse_never_panics)
   | PUnmodelled (exactly when strings.ToUpper / strings.TrimSpace leave ASCII: C15_parse_unmodelled_iff). *)
From Coq Require Import Ascii List.
From AM Require Import Lib.Bytes Lib.GoStrings Model.Auparse Proofs.AuparseNum Proofs.AuparseLemmas.

(* EXACTLY the accepted lines: the FIRST "msg=" of the line is at an index i >= 6; the bytes [5, i-1) are a type
   name (the first five bytes are never looked at, the byte at i-1 neither); the text behind that "msg=", ASCII
   white space trimmed at both ends, is raw = a "(" s1 "." s2 ":" s3 ")" rest  with no '(' in a, no '.' in s1, no
   ':' in s2, no ')' in s3 (each delimiter is the first one after the previous), s1 and s2 accepted by
   ParseInt(.,10,64), s3 by ParseUint(.,10,32); the message is then (type, s1, s2, s3, offset of the first ':' or
   ' ' from the ')' on, raw). *)
Theorem C15_parse_accepts_iff : forall (type_of : str -> option N) (l : str) (m : amsg),
  parse_log_line type_of l = POk m <->
  exists i t sec msec sq e raw,
    go_index l msg_token = Some i /\ 6 <= i /\
    get_type type_of (type_name l i) = TyOk t /\
    trim_space (msg_text l i) = Some raw /\
    header_wf raw sec msec sq e /\
    m = mkMsg t sec msec sq (index_of_message (skipn e raw)) raw.
Proof. exact parse_log_line_ok_iff. Qed.
Print Assumptions C15_parse_accepts_iff.

(* the ingredients of that characterisation, each exact *)
(* strings.Index: the offset of the first occurrence *)
Theorem C15_parse_index_iff : forall (p s : str) (i : nat),
  go_index s p = Some i <->
  has_prefix p (skipn i s) = true /\ forall j, j < i -> has_prefix p (skipn j s) = false.
Proof. exact go_index_first_at. Qed.
Print Assumptions C15_parse_index_iff.

(* the type names: ASCII; upper-cased, in the table, or of the form  <no '['> "[" n "]" <anything>  with n
   accepted by ParseUint(.,10,16) (so "UNKNOWN[1329]", "unknown[1329]", "[1329]" and "x[1329]y" all name type 1329) *)
Theorem C15_parse_type_iff : forall (type_of : str -> option N) (name : str) (t : N),
  get_type type_of name = TyOk t <->
  existsb non_ascii name = false /\
  (type_of (to_upper_ascii name) = Some t \/
   type_of (to_upper_ascii name) = None /\
   exists a n b, to_upper_ascii name = a ++ c_lbrack :: n ++ c_rbrack :: b /\
                 ~ In c_lbrack a /\ ~ In c_rbrack n /\ parse_uint 16 n = NumOk t).
Proof. exact get_type_ok_iff. Qed.
Print Assumptions C15_parse_type_iff.

(* the numbers: ParseUint(s,10,bits) accepts exactly the non-empty strings of ASCII digits (leading zeros allowed;
   no sign, underscore, blank, hex) whose value is below 2^bits; ParseInt(s,10,bits) exactly one optional '+' or
   '-' followed by such digits with the signed value in [-2^(bits-1), 2^(bits-1)) *)
Theorem C15_parse_uint_iff : forall (bits : N) (s : str) (v : N), (bits <= 64)%N ->
  (parse_uint bits s = NumOk v <-> s <> [] /\ all_digits s = true /\ v = dec_val s /\ (v < 2 ^ bits)%N).
Proof. exact parse_uint_ok_iff. Qed.
Print Assumptions C15_parse_uint_iff.

Theorem C15_parse_int_iff : forall (bits : N) (s : str) (z : Z), (1 <= bits <= 64)%N ->
  (parse_int bits s = NumOk z <->
   exists neg ds, int_shape s neg ds /\ ds <> [] /\ all_digits ds = true /\
                  z = (if neg then - Z.of_N (dec_val ds) else Z.of_N (dec_val ds))%Z /\
                  (- Z.of_N (2 ^ (bits - 1)) <= z < Z.of_N (2 ^ (bits - 1)))%Z).
Proof. exact parse_int_ok_iff. Qed.
Print Assumptions C15_parse_int_iff.

(* strings.TrimSpace inside the modelled domain: t is s without its leading and trailing ASCII white space, and t
   is empty or begins and ends with ASCII bytes that are not white space *)
Theorem C15_parse_trim_iff : forall (s t : str),
  trim_space s = Some t <->
  exists ws1 ws2, s = ws1 ++ t ++ ws2 /\ all_space ws1 = true /\ all_space ws2 = true /\ trimmed_text t.
Proof. exact trim_space_some_iff. Qed.
Print Assumptions C15_parse_trim_iff.

(* ... and in one equation, with the boundary of the modelled domain: [strip_ws s] is s without its leading and
   trailing ASCII white space; TrimSpace returns it unless it begins or ends with a byte >= 0x80 - exactly then the
   real function decodes runes (unicode.IsSpace) and the model answers None (PUnmodelled) *)
Theorem C15_parse_trim_domain : forall s : str,
  trim_space s = match strip_ws s with
                 | [] => Some []
                 | c :: r => if non_ascii c || non_ascii (last r c) then None else Some (c :: r)
                 end.
Proof. exact trim_space_strip. Qed.
Print Assumptions C15_parse_trim_domain.

(* the rejected lines, by error: errInvalidAuditHeader - no "msg=", or the first one before index 6, or the type
   is fine and the trimmed text has no well-formed header; errInvalidAuditMessageTypName - the type position holds
   no type name *)
Theorem C15_parse_err_header_iff : forall (type_of : str -> option N) (l : str),
  parse_log_line type_of l = PErrHeader <->
  go_index l msg_token = None \/
  (exists i, go_index l msg_token = Some i /\ i < 6) \/
  (exists i t raw, go_index l msg_token = Some i /\ 6 <= i /\ get_type type_of (type_name l i) = TyOk t /\
                   trim_space (msg_text l i) = Some raw /\ forall sec msec sq e, ~ header_wf raw sec msec sq e).
Proof. exact parse_log_line_err_header_iff. Qed.
Print Assumptions C15_parse_err_header_iff.

Theorem C15_parse_err_type_iff : forall (type_of : str -> option N) (l : str),
  parse_log_line type_of l = PErrType <->
  exists i, go_index l msg_token = Some i /\ 6 <= i /\ get_type type_of (type_name l i) = TyErr.
Proof. exact parse_log_line_err_type_iff. Qed.
Print Assumptions C15_parse_err_type_iff.

Theorem C15_parse_unmodelled_iff : forall (type_of : str -> option N) (l : str),
  parse_log_line type_of l = PUnmodelled <->
  exists i, go_index l msg_token = Some i /\ 6 <= i /\
    (existsb non_ascii (type_name l i) = true \/
     exists t, get_type type_of (type_name l i) = TyOk t /\ trim_space (msg_text l i) = None).
Proof. exact parse_log_line_unmodelled_iff. Qed.
Print Assumptions C15_parse_unmodelled_iff.

Theorem C15_parse_never_panics : forall (type_of : str -> option N) (l : str), parse_log_line type_of l <> PPanic.
Proof. exact parse_log_line_never_panics. Qed.
Print Assumptions C15_parse_never_panics.

(* the model follows the source slice by slice (Model/Auparse.v: every slice expression can panic); it equals the
   slice-free form the characterisations are proved about, for every line *)
Theorem C15_parse_model_is_clean : forall (type_of : str -> option N) (l : str),
  parse_log_line type_of l = parse_log_line_clean type_of l.
Proof. exact parse_log_line_is_clean. Qed.
Print Assumptions C15_parse_model_is_clean.

(* C15_parse_first with this parser as its oracle ([parse_opt]: Some m for POk m, None for an error), for streams
   inside the modelled domain: parseAuditLogs stops at the first non-empty line that ParseLogLine rejects with one
   of its two errors - a line that is NOT of the form of C15_parse_accepts_iff - and has pushed the message of
   every earlier non-empty line; if there is no such line every non-empty line is pushed. *)
Theorem C15_parse_stops_at : forall (type_of : str -> option N) (ls : list str),
  (forall l, In l ls -> parse_log_line type_of l <> PUnmodelled) ->
  match snd (parse_loop str amsg audit_is_empty (parse_opt type_of) ls) with
  | Some l => exists pre post, ls = pre ++ l :: post /\ l <> [] /\
                (parse_log_line type_of l = PErrHeader \/ parse_log_line type_of l = PErrType) /\
                (forall x, In x pre -> x <> [] -> exists m, parse_log_line type_of x = POk m) /\
                fst (parse_loop str amsg audit_is_empty (parse_opt type_of) ls)
                = pushes str amsg audit_is_empty (parse_opt type_of) pre
  | None => (forall x, In x ls -> x <> [] -> exists m, parse_log_line type_of x = POk m) /\
            fst (parse_loop str amsg audit_is_empty (parse_opt type_of) ls)
            = pushes str amsg audit_is_empty (parse_opt type_of) ls
  end.
Proof. exact parse_stops_at. Qed.
Print Assumptions C15_parse_stops_at.

(* FIELD EXTRACTION on well-formed lines.  P: any five bytes (the parser skips them unchecked); T: a type name;
   lead, trail: ASCII white space (the trailing newline the ingester leaves on the line is a [trail]); s1, s2:
   anything ParseInt(.,10,64) accepts (digits with an optional sign, leading zeros allowed), s3: anything
   ParseUint(.,10,32) accepts (digits, leading zeros allowed, NO sign); b: the rest of the record, empty or ending
   in an ASCII byte that is not white space (white space at its end would be trimmed away; a byte >= 0x80 there is
   outside the model).  Hypothesis on P and T: in  P T " msg="  the final "msg=" is the first one.  Then the line
   parses to exactly (type of T, s1, s2, s3), offset = index of the first ':' or ' ' in  ")" b  (1 for auditd's
   "): ..."), RawData = the text from "audit(" to the end of b: without lead and trail. *)
Theorem C15_parse_well_formed :
  forall (type_of : str -> option N) P T t lead s1 s2 s3 sec msec sq b trail,
  length P = 5 ->
  go_index (P ++ T ++ c_sp :: msg_token) msg_token = Some (6 + length T) ->
  get_type type_of T = TyOk t ->
  all_space lead = true -> all_space trail = true ->
  parse_int 64 s1 = NumOk sec -> parse_int 64 s2 = NumOk msec -> parse_uint 32 s3 = NumOk sq ->
  clean_end b ->
  parse_log_line type_of (P ++ T ++ c_sp :: msg_token ++ lead ++ header_text s1 s2 s3 ++ b ++ trail)
  = POk (mkMsg t sec msec sq (index_of_message (c_rparen :: b)) (header_text s1 s2 s3 ++ b)).
Proof. exact wf_line_parses. Qed.
Print Assumptions C15_parse_well_formed.

(* ... as auditd writes it: "type=" and a type name without '=' (a T holding "msg=" cannot occur then) *)
Theorem C15_parse_well_formed_type :
  forall (type_of : str -> option N) T t lead s1 s2 s3 sec msec sq b trail,
  ~ In c_eq T -> get_type type_of T = TyOk t ->
  all_space lead = true -> all_space trail = true ->
  parse_int 64 s1 = NumOk sec -> parse_int 64 s2 = NumOk msec -> parse_uint 32 s3 = NumOk sq ->
  clean_end b ->
  parse_log_line type_of (type_token ++ T ++ c_sp :: msg_token ++ lead ++ header_text s1 s2 s3 ++ b ++ trail)
  = POk (mkMsg t sec msec sq (index_of_message (c_rparen :: b)) (header_text s1 s2 s3 ++ b)).
Proof. exact wf_type_line_parses. Qed.
Print Assumptions C15_parse_well_formed_type.

(* ... with the numbers printed as auditd prints them ([dec] = plain decimal, [dec3] = zero-padded to three digits,
   Proofs/AuparseNum.v: both produce non-empty digit strings of the right value) and the newline the ingester leaves:
   for EVERY type name without '=', all seconds / milliseconds below 2^63, every sequence number below 2^32 and every
   body that is empty or ends in a non-white ASCII byte, the parse returns exactly those values, and RawData is the
   text from "audit(" on WITHOUT the trailing newline *)
Theorem C15_parse_well_formed_decimal :
  forall (type_of : str -> option N) T t (sec msec sq : N) b,
  ~ In c_eq T -> get_type type_of T = TyOk t ->
  (sec < 2 ^ 63)%N -> (msec < 2 ^ 63)%N -> (sq < 2 ^ 32)%N -> clean_end b ->
  parse_log_line type_of (type_token ++ T ++ c_sp :: msg_token ++ header_text (dec sec) (dec3 msec) (dec sq) ++ b ++ ["010"%char])
  = POk (mkMsg t (Z.of_N sec) (Z.of_N msec) sq (index_of_message (c_rparen :: b))
               (header_text (dec sec) (dec3 msec) (dec sq) ++ b)).
Proof. exact wf_decimal_line_parses. Qed.
Print Assumptions C15_parse_well_formed_decimal.

Theorem C15_parse_decimal_printer : forall n : N,
  (dec n <> [] /\ all_digits (dec n) = true /\ dec_val (dec n) = n) /\
  (dec3 n <> [] /\ all_digits (dec3 n) = true /\ dec_val (dec3 n) = n).
Proof. exact (fun n => conj (dec_spec n) (dec3_spec n)). Qed.
Print Assumptions C15_parse_decimal_printer.

(* the numbers as printed in plain decimal: digits ds (leading zeros or not) parse to their decimal value when it
   is in range; "+" ds the same for the int64 fields; "-" ds to the negative value; leading zeros never matter *)
Theorem C15_parse_decimal_fields : forall ds : str, ds <> [] -> all_digits ds = true ->
  ((dec_val ds < 2 ^ 63)%N -> parse_int 64 ds = NumOk (Z.of_N (dec_val ds)) /\
                              parse_int 64 (c_plus :: ds) = NumOk (Z.of_N (dec_val ds))) /\
  ((dec_val ds <= 2 ^ 63)%N -> parse_int 64 (c_minus :: ds) = NumOk (- Z.of_N (dec_val ds))%Z) /\
  ((dec_val ds < 2 ^ 32)%N -> parse_uint 32 ds = NumOk (dec_val ds)) /\
  (forall k, dec_val (repeat "0"%char k ++ ds) = dec_val ds).
Proof. exact decimal_fields. Qed.
Print Assumptions C15_parse_decimal_fields.

(* the time stamp: a millisecond field 0..999 gives the time  sec s + msec ms  exactly (other values carry into
   the seconds or wrap on int64 as time.Unix does: [time_unix], compared with the real time.Unix by the auparse stage) *)
Theorem C15_parse_time_plain : forall sec msec : Z, (0 <= msec < 1000)%Z ->
  time_unix sec msec = (sec, (msec * 1000000)%Z).
Proof. exact time_unix_plain. Qed.
Print Assumptions C15_parse_time_plain.

(* ranges of what is pushed to the reassembler: Sequence is a uint32 - the hypothesis (mseq m < two32) of the
   reassembler tie above holds of every message the parser yields -, the two time fields are int64, the offset is
   >= -1, the type is a uint16 when the table's entries are *)
Theorem C15_parse_ranges : forall (type_of : str -> option N) (l : str) (m : amsg),
  parse_log_line type_of l = POk m ->
  (a_seq m < 4294967296)%N /\
  (- 9223372036854775808 <= a_sec m < 9223372036854775808)%Z /\
  (- 9223372036854775808 <= a_msec m < 9223372036854775808)%Z /\
  (-1 <= a_offset m)%Z /\
  ((forall n t, type_of n = Some t -> (t < 65536)%N) -> (a_typ m < 65536)%N).
Proof. exact parse_log_line_ranges. Qed.
Print Assumptions C15_parse_ranges.

Theorem C15_parse_seq_u32 : forall (type_of : str -> option N) (l : str) (m : amsg),
  parse_opt type_of l = Some m -> (a_seq m < Model.ReassemblerIR.two32)%N.
Proof. exact pushed_seq_u32. Qed.
Print Assumptions C15_parse_seq_u32.

(* ---------- concrete lines (a three-entry table stands in for the library's) ---------- *)
Definition c15_tbl (n : str) : option N :=
  if seqb n (s2l "SYSCALL") then Some 1300%N else if seqb n (s2l "USER_CMD") then Some 1123%N
  else if seqb n (s2l "EOE") then Some 1320%N else None.

(* the hypotheses of C15_parse_well_formed_type are satisfiable, and the theorem's right-hand side is what runs *)
Example C15_parse_example_well_formed :
  let T := s2l "SYSCALL" in let b := s2l ": arch=c000003e syscall=59 success=yes exit=0" in
  ~ In c_eq T /\ get_type c15_tbl T = TyOk 1300%N /\ clean_end b /\
  parse_int 64 (s2l "1690000000") = NumOk 1690000000%Z /\ parse_int 64 (s2l "007") = NumOk 7%Z /\
  parse_uint 32 (s2l "4294967295") = NumOk 4294967295%N /\
  parse_log_line c15_tbl (s2l "type=SYSCALL msg=audit(1690000000.007:4294967295): arch=c000003e syscall=59 success=yes exit=0" ++ ["010"%char])
  = POk (mkMsg 1300 1690000000 7 4294967295 1 (s2l "audit(1690000000.007:4294967295): arch=c000003e syscall=59 success=yes exit=0")).
Proof.
  vm_compute. repeat split; try reflexivity.
  intros H. repeat (destruct H as [H|H]; [discriminate H|]). exact H.
Qed.

Example C15_parse_example_decimal :
  type_token ++ s2l "SYSCALL" ++ c_sp :: msg_token ++ header_text (dec 1690000000) (dec3 7) (dec 42) ++ s2l ": a=1" ++ ["010"%char]
  = s2l "type=SYSCALL msg=audit(1690000000.007:42): a=1" ++ ["010"%char] /\
  parse_log_line c15_tbl (s2l "type=SYSCALL msg=audit(1690000000.007:42): a=1" ++ ["010"%char])
  = POk (mkMsg 1300 1690000000 7 42 1 (s2l "audit(1690000000.007:42): a=1")).
Proof. vm_compute. split; reflexivity. Qed.

(* SURPRISING inputs, as the real parser treats them (each also among the harness' generated classes) *)
(* 1. the first five bytes are skipped unchecked: a line need not begin with "type=" *)
Example C15_parse_example_no_type_prefix :
  parse_log_line c15_tbl (s2l "12345SYSCALL msg=audit(1.002:3): x") = POk (mkMsg 1300 1 2 3 1 (s2l "audit(1.002:3): x")) /\
  parse_log_line c15_tbl (s2l "node=SYSCALL msg=audit(1.002:3): x") = POk (mkMsg 1300 1 2 3 1 (s2l "audit(1.002:3): x")).
Proof. vm_compute. split; reflexivity. Qed.

(* 2. "msg=" inside the type position: the FIRST "msg=" is the one that counts; a doubled "msg=" is accepted and
   becomes part of RawData *)
Example C15_parse_example_msg_in_type_position :
  parse_log_line c15_tbl (s2l "type=A msg= msg=audit(1.002:3): x") = PErrType /\
  parse_log_line c15_tbl (s2l "type=msg=audit(1.002:3): x") = PErrHeader /\
  parse_log_line c15_tbl (s2l "type=EOE msg=msg=audit(1.002:3): x") = POk (mkMsg 1320 1 2 3 1 (s2l "msg=audit(1.002:3): x")).
Proof. vm_compute. repeat split; reflexivity. Qed.

(* 3. a second '(' before the real header: the FIRST '(' opens the header, wherever it is *)
Example C15_parse_example_second_paren :
  parse_log_line c15_tbl (s2l "type=EOE msg=(audit(1.002:3): x") = PErrHeader /\
  parse_log_line c15_tbl (s2l "type=EOE msg=x(1.002:3) audit(4.005:6): y")
  = POk (mkMsg 1320 1 2 3 1 (s2l "x(1.002:3) audit(4.005:6): y")).
Proof. vm_compute. split; reflexivity. Qed.

(* 4. ENRICHED format: the 0x1d separator and the upper-case trailer are simply part of RawData *)
Example C15_parse_example_enriched :
  parse_log_line c15_tbl (s2l "type=USER_CMD msg=audit(1.002:3): pid=1 res=success" ++ "029"%char :: s2l "UID=""root""" ++ ["010"%char])
  = POk (mkMsg 1123 1 2 3 1 (s2l "audit(1.002:3): pid=1 res=success" ++ "029"%char :: s2l "UID=""root""")).
Proof. vm_compute. reflexivity. Qed.

(* 5. numbers: signs and leading zeros are accepted on the two time fields, a sign is NOT accepted on the
   sequence; underscores, hex, blanks are rejected; the limits are exact; a millisecond field that is not three
   digits is still read as milliseconds (".7" is 7 ms, ".1234" carries one second) *)
Example C15_parse_example_numbers :
  parse_log_line c15_tbl (s2l "type=EOE msg=audit(-5.+07:0003):") = POk (mkMsg 1320 (-5) 7 3 1 (s2l "audit(-5.+07:0003):")) /\
  parse_log_line c15_tbl (s2l "type=EOE msg=audit(1.002:+3):") = PErrHeader /\
  parse_log_line c15_tbl (s2l "type=EOE msg=audit(1_0.002:3):") = PErrHeader /\
  parse_log_line c15_tbl (s2l "type=EOE msg=audit(0x10.002:3):") = PErrHeader /\
  parse_log_line c15_tbl (s2l "type=EOE msg=audit(1.002: 3):") = PErrHeader /\
  parse_log_line c15_tbl (s2l "type=EOE msg=audit(1.002:4294967295):") = POk (mkMsg 1320 1 2 4294967295 1 (s2l "audit(1.002:4294967295):")) /\
  parse_log_line c15_tbl (s2l "type=EOE msg=audit(1.002:4294967296):") = PErrHeader /\
  parse_log_line c15_tbl (s2l "type=EOE msg=audit(9223372036854775807.002:3):") = POk (mkMsg 1320 9223372036854775807 2 3 1 (s2l "audit(9223372036854775807.002:3):")) /\
  parse_log_line c15_tbl (s2l "type=EOE msg=audit(9223372036854775808.002:3):") = PErrHeader /\
  parse_log_line c15_tbl (s2l "type=EOE msg=audit(-9223372036854775808.002:3):") = POk (mkMsg 1320 (-9223372036854775808) 2 3 1 (s2l "audit(-9223372036854775808.002:3):")) /\
  time_unix 10 7 = (10, 7000000)%Z /\ time_unix 10 1234 = (11, 234000000)%Z /\ time_unix 10 (-1) = (9, 999000000)%Z /\
  parse_uint 64 (s2l "18446744073709551615") = NumOk 18446744073709551615%N /\
  parse_uint 64 (s2l "18446744073709551616") = NumRange /\ parse_uint 64 (s2l "18446744073709551616x") = NumRange /\
  parse_uint 64 (s2l "1x8446744073709551616") = NumSyntax /\ parse_int 64 (s2l "+") = NumSyntax /\ parse_int 64 (s2l "-0") = NumOk 0%Z.
Proof. vm_compute. repeat split; reflexivity. Qed.

(* 6. type names: case is ignored, and any name with a "[n]" in it, n < 65536, is a type *)
Example C15_parse_example_types :
  parse_log_line c15_tbl (s2l "type=syscall msg=audit(1.002:3):") = POk (mkMsg 1300 1 2 3 1 (s2l "audit(1.002:3):")) /\
  parse_log_line c15_tbl (s2l "type=UNKNOWN[1329] msg=audit(1.002:3):") = POk (mkMsg 1329 1 2 3 1 (s2l "audit(1.002:3):")) /\
  parse_log_line c15_tbl (s2l "type=x[7]y msg=audit(1.002:3):") = POk (mkMsg 7 1 2 3 1 (s2l "audit(1.002:3):")) /\
  parse_log_line c15_tbl (s2l "type=UNKNOWN[65536] msg=audit(1.002:3):") = PErrType /\
  parse_log_line c15_tbl (s2l "type=UNKNOWN[+1] msg=audit(1.002:3):") = PErrType /\
  parse_log_line c15_tbl (s2l "type=NOPE msg=audit(1.002:3):") = PErrType /\
  parse_log_line c15_tbl (s2l "type= msg=audit(1.002:3):") = PErrType /\
  parse_log_line c15_tbl (s2l "type=msg=audit(1.002:3):") = PErrHeader.
Proof. vm_compute. repeat split; reflexivity. Qed.

(* 7. a stream: the blank line (a lone newline, as the ingester delivers an empty log line) stops the processor;
   the empty string does not *)
Example C15_parse_example_stream :
  let good := s2l "type=EOE msg=audit(1.002:3): " ++ ["010"%char] in
  snd (parse_loop str amsg audit_is_empty (parse_opt c15_tbl) [good; []; good; ["010"%char]; good]) = Some ["010"%char] /\
  length (fst (parse_loop str amsg audit_is_empty (parse_opt c15_tbl) [good; []; good; ["010"%char]; good])) = 2 /\
  snd (parse_loop str amsg audit_is_empty (parse_opt c15_tbl) [good; []; good]) = None.
Proof. vm_compute. repeat split; reflexivity. Qed.
