(* C15 — No audit record is skipped silently.
   Only statements; every proof is one [exact].  The model is Model/AuditProc.v:
   auparse.ParseLogLine [parse], aucoalesce [coalesce], the After filter [old] and the
   correlator [audit]/[rlogin] are ORACLES and appear as explicit arguments of every theorem
   (nothing is assumed about them); go-libaudit's reassembler is hand-modelled. *)
From Coq Require Import List Bool Arith ZArith NArith Permutation.
Import ListNotations.
From AM Require Import Model.AuditProc Proofs.AuditProcLemmas Model.AuditProcCheck.
From AM Require Gen.Consts.

(* parseAuditLogs: it stops at the FIRST non-empty line the parser rejects, returning an error
   that carries exactly that line, after having pushed every earlier non-empty line; when no
   line is rejected every non-empty line is pushed. *)
Theorem C15_parse_first :
  forall (line msg : Type) (is_empty : line -> bool) (parse : line -> option msg) (ls : list line),
  match snd (parse_loop line msg is_empty parse ls) with
  | Some l => exists pre post, ls = pre ++ l :: post /\ is_empty l = false /\ parse l = None /\
                (forall x, In x pre -> is_empty x = false -> parse x <> None) /\
                fst (parse_loop line msg is_empty parse ls) = pushes line msg is_empty parse pre
  | None => (forall x, In x ls -> is_empty x = false -> parse x <> None) /\
            fst (parse_loop line msg is_empty parse ls) = pushes line msg is_empty parse ls
  end.
Proof. exact parse_loop_spec. Qed.
Print Assumptions C15_parse_first.

(* Read, for EVERY input history (lines with arrival times, Maintain ticks, logins, cancellation;
   any expiry, any overflow of maxInFlight, any callback failure), at the moment the deferred
   Close has flushed:
   - the groups ReassemblyComplete received contain every pushed non-EOE record exactly once
     (eviction by overflow or expiry hands the event over too: it never discards records);
   - they are the groups the reassembler forms of the calls made before Read returned;
   - the pushed records are exactly what the parse loop makes of the lines it consumed, those
     lines are a prefix of the stream, and Read's result is the parse error of the first
     rejected line whenever the loop stopped;
   - Read can only be still running if every line of the stream was consumed. *)
Theorem C15_conservation :
  forall (line msg event cerr login AS : Type) (is_empty : line -> bool) (parse : line -> option msg)
         (mseq : msg -> N) (mtype : msg -> nat) (coalesce : list msg -> option event) (old : event -> bool)
         (audit : AS -> event -> AS * option cerr) (rlogin : AS -> login -> AS * option cerr)
         (maxsz timeout : nat) (a : AS) (ins : list (inp line login)),
  let o := read line msg event cerr login AS is_empty parse mseq mtype coalesce old audit rlogin maxsz timeout a ins in
  let fin := o_fin _ _ _ _ _ o in
  Permutation (concat (cb_groups _ _ _ _ (p_cb _ _ _ _ _ fin)))
              (filter (non_eoe msg mtype) (ops_msgs msg (p_ops _ _ _ _ _ fin))) /\
  cb_groups _ _ _ _ (p_cb _ _ _ _ _ fin) = groups_of msg mseq mtype maxsz timeout (p_ops _ _ _ _ _ (o_ret _ _ _ _ _ o)) /\
  ops_msgs msg (p_ops _ _ _ _ _ fin) = ops_msgs msg (p_ops _ _ _ _ _ (o_ret _ _ _ _ _ o)) /\
  parse_loop line msg is_empty parse (p_consumed _ _ _ _ _ fin) =
    (ops_msgs msg (p_ops _ _ _ _ _ fin), perr_of _ _ _ (o_res _ _ _ _ _ o)) /\
  (exists rest, lines_of line login ins = p_consumed _ _ _ _ _ fin ++ rest) /\
  (o_res _ _ _ _ _ o = RNone _ _ _ -> p_consumed _ _ _ _ _ fin = lines_of line login ins).
Proof. exact conservation. Qed.
Print Assumptions C15_conservation.

(* The reassembler: if no call is later than the event timeout (no expiry), the buffer never
   holds more than maxInFlight events when CleanUp checks it, and no record follows a
   terminating record (EOE, PROCTITLE, type <= 1299 or >= 2100) of its own event, then,
   whatever the interleaving, the groups handed over (Close included) are: exactly one group per
   sequence number that has records, holding all its records in arrival order. *)
Theorem C15_grouping :
  forall (msg : Type) (mseq : msg -> N) (mtype : msg -> nat) (maxsz timeout : nat) (ops : list (rop msg)),
  (forall o, In o ops -> op_time msg o <= timeout /\ o <> RClose) ->
  size_ok msg mseq mtype maxsz timeout (rinit msg) ops ->
  term_last msg mseq mtype (ops_msgs msg ops) ->
  exists seqs,
    NoDup seqs /\
    groups_of msg mseq mtype maxsz timeout ops = map (fun s => recs_of msg mseq mtype s (ops_msgs msg ops)) seqs /\
    (forall s, In s seqs <-> recs_of msg mseq mtype s (ops_msgs msg ops) <> []).
Proof. exact grouping. Qed.
Print Assumptions C15_grouping.

(* A condition on the stream alone that implies the size hypothesis: the pushed records carry at
   most maxInFlight distinct sequence numbers (S lists them). *)
Theorem C15_size_ok_few_seqs :
  forall (msg : Type) (mseq : msg -> N) (mtype : msg -> nat) (maxsz timeout : nat) (ops : list (rop msg)) (S : list N),
  length S <= maxsz -> (forall m, In m (ops_msgs msg ops) -> In (mseq m) S) ->
  size_ok msg mseq mtype maxsz timeout (rinit msg) ops.
Proof. exact size_ok_few_seqs. Qed.
Print Assumptions C15_size_ok_few_seqs.

(* The same for Read: the calls it made on the reassembler before returning. *)
Theorem C15_read_grouping :
  forall (line msg event cerr login AS : Type) (is_empty : line -> bool) (parse : line -> option msg)
         (mseq : msg -> N) (mtype : msg -> nat) (coalesce : list msg -> option event) (old : event -> bool)
         (audit : AS -> event -> AS * option cerr) (rlogin : AS -> login -> AS * option cerr)
         (maxsz timeout : nat) (a : AS) (ins : list (inp line login)),
  let o := read line msg event cerr login AS is_empty parse mseq mtype coalesce old audit rlogin maxsz timeout a ins in
  let ops := p_ops _ _ _ _ _ (o_ret _ _ _ _ _ o) in
  (forall x, In x ops -> op_time msg x <= timeout) ->
  size_ok msg mseq mtype maxsz timeout (rinit msg) ops ->
  term_last msg mseq mtype (ops_msgs msg ops) ->
  exists seqs,
    NoDup seqs /\
    cb_groups _ _ _ _ (p_cb _ _ _ _ _ (o_fin _ _ _ _ _ o)) = map (fun s => recs_of msg mseq mtype s (ops_msgs msg ops)) seqs /\
    (forall s, In s seqs <-> recs_of msg mseq mtype s (ops_msgs msg ops) <> []).
Proof. exact read_grouping. Qed.
Print Assumptions C15_read_grouping.

(* Errors of the callback (coalescing failed, or the correlator returned an error: unparsable
   PID in a LOGIN record, write error): if the callback produced any error before Read returned,
   Read returns the FIRST of them; the errors dropped by the non-blocking send are exactly the
   later ones, produced while that first one was still in the channel.  If it produced none,
   none was dropped. *)
Theorem C15_errors :
  forall (line msg event cerr login AS : Type) (is_empty : line -> bool) (parse : line -> option msg)
         (mseq : msg -> N) (mtype : msg -> nat) (coalesce : list msg -> option event) (old : event -> bool)
         (audit : AS -> event -> AS * option cerr) (rlogin : AS -> login -> AS * option cerr)
         (maxsz timeout : nat) (a : AS) (ins : list (inp line login)),
  let o := read line msg event cerr login AS is_empty parse mseq mtype coalesce old audit rlogin maxsz timeout a ins in
  let c := p_cb _ _ _ _ _ (o_ret _ _ _ _ _ o) in
  match cb_errs _ _ _ _ c with
  | [] => (forall e, o_res _ _ _ _ _ o <> RSlot _ _ _ e) /\ cb_dropped _ _ _ _ c = []
  | e :: rest => o_res _ _ _ _ _ o = RSlot _ _ _ e /\ cb_dropped _ _ _ _ c = rest
  end.
Proof. exact errors. Qed.
Print Assumptions C15_errors.

(* The capacity-1 channel by itself, for ANY interleaving of non-blocking sends and receives:
   every error sent is received, still pending, or was dropped (nothing vanishes unaccounted);
   the first error sent into an empty channel is the first one received (or still pending);
   nothing is dropped when every send is followed by a receive before the next send. *)
Theorem C15_slot :
  forall (E : Type),
  (forall ops slot, let '(s, got, dr) := slot_run E slot ops in
     Permutation (pending E slot ++ sends E ops) (got ++ pending E s ++ dr)) /\
  (forall e r, let '(s, got, dr) := slot_run E None (SSend e :: r) in
     (exists got', got = e :: got') \/ (got = [] /\ s = Some e)) /\
  (forall ops slot, alternating E (match slot with Some _ => true | None => false end) ops ->
     snd (slot_run E slot ops) = []).
Proof. exact (fun E => conj (slot_account E) (conj (slot_first E) (slot_no_drop E))). Qed.
Print Assumptions C15_slot.

(* The limits the running processor uses are GENERATED from processors/auditd/auditd.go. *)
Theorem C15_limits :
  Gen.Consts.maxEventsInFlight = 1000%Z /\ Gen.Consts.eventTimeout_ns = 2000000000%Z /\
  Gen.Consts.reassemblerInterval_ns = 500000000%Z.
Proof. exact (conj eq_refl (conj eq_refl eq_refl)). Qed.
Print Assumptions C15_limits.

(* ---------- non-vacuity: concrete streams (types: 1300 SYSCALL, 1302 PATH, 1327 PROCTITLE,
   1320 EOE, 1112 USER_LOGIN); a group is shown as the indices of its lines ---------- *)
Definition ex_groups (maxsz : nat) (failat : list nat) (ls : list cline) : list (list nat) :=
  map (map c_idx) (cb_groups _ _ _ _ (p_cb _ _ _ _ _ (l1_final maxsz 2000 failat (map K1Line ls)))).

(* two kernel events interleaved record by record, then a single-record event *)
Example C15_example_interleaved :
  ex_groups 1000 [] [LM 5 1300 false; LM 6 1300 false; LM 5 1302 false; LM 6 1302 false; LM 6 1327 false;
                     LM 5 1327 false; LM 5 1320 false; LE; LM 7 1112 false]
  = [[0; 2; 5]; [1; 3; 4]; [8]].
Proof. vm_compute. reflexivity. Qed.

(* a malformed line at position 3: the loop stops there, names it, and what was pushed before is
   still handed over when Close flushes *)
Example C15_example_malformed :
  let s := l1_final 1000 2000 [] (map K1Line [LM 5 1300 false; LE; LM 6 1300 false; LB; LM 5 1327 false]) in
  option_map fst (p_perr _ _ _ _ _ s) = Some 3 /\ length (p_consumed _ _ _ _ _ s) = 4 /\
  map (map c_idx) (cb_groups _ _ _ _ (p_cb _ _ _ _ _ s)) = [[0]; [2]].
Proof. vm_compute. repeat split; reflexivity. Qed.

(* what happens beyond maxInFlight (here 1): the open event 5 is evicted — and handed over — when
   event 6 arrives; each of its later records is evicted as soon as it is put in front of 6, so
   it forms a group of its own (nothing is lost, the group is split), and EventsLost is called
   with the wrapped-around gap 5 - 5 - 1 *)
Example C15_example_overflow :
  let s := l1_final 1 2000 [] (map K1Line [LM 5 1300 false; LM 6 1300 false; LM 5 1302 false; LM 5 1327 false; LM 6 1327 false]) in
  map (map c_idx) (cb_groups _ _ _ _ (p_cb _ _ _ _ _ s)) = [[0]; [2]; [3]; [1; 4]] /\
  cb_lost _ _ _ _ (p_cb _ _ _ _ _ s) = [4294967295%N; 4294967295%N].
Proof. vm_compute. split; reflexivity. Qed.

(* three groups become deliverable in one PushMessage call (5 was blocking 6 and 7); the Auditor
   fails on the second and third: Read returns the second call's error, the third was dropped
   while it was pending *)
Example C15_example_errors :
  let o := read iline cm ev1 nat unit nat c_empty c_parse c_seq c_ty coalesce1 old1 (audit1 [1; 2])
                (fun a _ => (a, None)) 1000 2000 0
                (map (fun il => ILine _ _ 0 il)
                     (combine (seq 0 5) [LM 5 1300 false; LM 6 1300 false; LM 6 1327 false; LM 7 1112 false; LM 5 1327 false])) in
  (match o_res _ _ _ _ _ o with RSlot _ _ _ (EAudit _ _ g k) => Some (map c_idx g, k) | _ => None end) = Some ([1; 2], 1) /\
  map (fun e => match e with EAudit _ _ _ k => k | _ => 0 end) (cb_dropped _ _ _ _ (p_cb _ _ _ _ _ (o_ret _ _ _ _ _ o))) = [2] /\
  map (map c_idx) (cb_groups _ _ _ _ (p_cb _ _ _ _ _ (o_fin _ _ _ _ _ o))) = [[0; 4]; [1; 2]; [3]].
Proof. vm_compute. repeat split; reflexivity. Qed.

(* GENERATED from auditd.go: the channel the callback reports errors into has capacity 1 — the
   "slot" of the model.  (With capacity 0 the non-blocking send would drop an error whenever
   Read's goroutine is not waiting in its select at that instant.) *)
Theorem C15_error_slot_capacity : Gen.Consts.reassemblerErrorsCap = 1%Z.
Proof. reflexivity. Qed.
Print Assumptions C15_error_slot_capacity.

(* ---------- the correlator oracle of these statements is the correlator of the source ----------
   The statements above take the correlator as an oracle (audit / rlogin); the end-to-end correspondence
   instantiates it with Model/Tracker.v, and that model IS the interpretation of programs regenerated
   from sessiontracker.go on every run: in particular which branches return a write error (so that the
   processor stops) is read from the source. *)
From AM Require Model.Tracker Model.TrackerIR Gen.TrackerProg Proofs.TrackerIRTie.
Theorem C15_tracker_from_source : forall st o,
  Proofs.TrackerIRTie.run_generated st o = Some (Model.Tracker.tstep st o).
Proof. exact Proofs.TrackerIRTie.tracker_from_source. Qed.
Print Assumptions C15_tracker_from_source.
