(* C16 — Pending halves are kept for the staleness window and discarded after it. *)
From Coq Require Import List Bool Arith ZArith NArith Lia.
Import ListNotations.
From AM Require Import Model.Tracker Proofs.TrackerInv Proofs.TrackerSpec Proofs.TrackerLife Proofs.TrackerMore.
From AM Require Gen.Consts.

(* A cleanup call keeps exactly: every correlated session, every uncorrelated session not
   older than the cut-off — and discards every older uncorrelated one; nothing else changes. *)
Theorem C16_clean_sessions_exact : forall st t,
  (forall s u, In (s, u) (sess (clean_sess st t)) <->
               In (s, u) (sess st) /\ (unbound u = false \/ (t <= u_added u)%Z)) /\
  parked (clean_sess st t) = parked st /\ wb (clean_sess st t) = wb st.
Proof. exact clean_sess_exact. Qed.
Print Assumptions C16_clean_sessions_exact.

Theorem C16_clean_logins_exact : forall st t,
  (forall p l, In (p, l) (parked (clean_logins st t)) <->
               In (p, l) (parked st) /\ (t <= l_at l)%Z) /\
  sess (clean_logins st t) = sess st /\ wb (clean_logins st t) = wb st.
Proof. exact clean_logins_exact. Qed.
Print Assumptions C16_clean_logins_exact.

(* The running processor: the interval, and the way Read uses it, are GENERATED from
   processors/auditd/auditd.go (Gen/Consts.v).  One minute; ticker of that period; on each
   tick both cleanups are called with cut-off now - interval. *)
Theorem C16_interval :
  Gen.Consts.staleDataCleanupInterval_ns = 60000000000%Z /\
  Gen.Consts.cleanup_ticker_period_is_interval = true /\
  Gen.Consts.cleanup_cutoff_is_now_minus_interval = true /\
  Gen.Consts.cleanup_calls_both_with_cutoff = true.
Proof. repeat split. Qed.
Print Assumptions C16_interval.

(* The same, from the translated processor: Gen/AuditProg.v is REGENERATED on every run from Auditd.Read and
   interpreted by Model/AuditIR.v with the correlator's two cleanups as oracles [csess] (DeleteUsersWithoutLoginsBefore)
   and [clogins] (DeleteRemoteUserLoginsBefore).  The arm of Read's select that the clean-up ticker (period =
   the interval, see C15_processor_from_source_setup) fires: both cleanups run, on the tracker the callback and
   the login arm use, with ONE cut-off  time.Now() - staleDataCleanupInterval ; nothing else happens and the loop
   goes on. *)
From AM Require Model.AuditProc Model.AuditIR Gen.AuditProg Proofs.AuditIRTie.
Theorem C16_cleanup_arm_from_source :
  forall (line msg event cerr login AS : Type) (is_empty : line -> bool) (parse : line -> option msg)
         (mseq : msg -> BinNums.N) (mtype : msg -> nat) (coalesce : list msg -> option event) (old : event -> bool)
         (audit : AS -> event -> AS * option cerr) (rlogin : AS -> login -> AS * option cerr)
         (csess clogins : AS -> AuditIR.tmv -> AS) (dur : BinNums.Z -> nat)
         (now : nat) (p : AuditProc.pst line msg event cerr AS),
  AuditIR.read_arm_gen line msg event cerr login AS is_empty parse mseq mtype coalesce old audit rlogin csess clogins dur
                       AuditProg.gen_audit (AuditIR.EvTick line login now) p =
  let cut := AuditIR.TmNowAdd now (- Gen.Consts.staleDataCleanupInterval_ns) in
  Some (AuditIR.set_as line msg event cerr AS
          (clogins (csess (AuditIR.as_of line msg event cerr AS p) cut) cut) p,
        AuditProc.RNone line msg cerr, None).
Proof. exact AuditIRTie.read_arm_cleanup_from_source. Qed.
Print Assumptions C16_cleanup_arm_from_source.

(* With I that interval and [tick_ops I tick] what a tick does: a waiting half that arrived
   at time a survives every tick <= a + I (so a second half arriving within I is correlated:
   C02's [keeps_run] holds) ... *)
Theorem C16_window_keeps : forall (s : N) (p : Z) (I : Z), (0 < I)%Z ->
  (forall a evs tick, (tick <= a + I)%Z ->
     prun s p (PHeld a evs) (tick_ops I tick) = (PHeld a evs, []) /\
     keeps_run s p (PHeld a evs) (tick_ops I tick)) /\
  (forall l tick, (tick <= l_at l + I)%Z ->
     prun s p (PParked l) (tick_ops I tick) = (PParked l, []) /\
     keeps_run s p (PParked l) (tick_ops I tick)).
Proof. intros s p I HI. split; intros; [apply window_keeps_session|apply window_keeps_login]; assumption. Qed.
Print Assumptions C16_window_keeps.

(* ... is discarded by any tick after a + I, such a tick occurs no later than a + 2I, and from
   then on nothing of the session is emitted unless a new LOGIN record of it arrives: the held
   events are dropped, not emitted late. *)
Theorem C16_window_drops : forall (s : N) (p : Z) (I : Z), (0 < I)%Z ->
  (forall a evs tick, (a + I < tick)%Z -> prun s p (PHeld a evs) (tick_ops I tick) = (PClean, [])) /\
  (forall l tick, (l_at l + I < tick)%Z -> prun s p (PParked l) (tick_ops I tick) = (PClean, [])) /\
  (forall T0 a, (T0 <= a)%Z -> exists k, (0 <= k)%Z /\ (a + I < T0 + k * I <= a + 2 * I)%Z) /\
  (forall B ph, (ph = PClean \/ exists l, ph = PParked l) ->
     (forall o, In o B -> is_rec s p o = false) ->
     snd (prun s p ph B) = [] /\ (fst (prun s p ph B) = PClean \/ exists l, fst (prun s p ph B) = PParked l)).
Proof.
  intros s p I HI. split; [|split; [|split]].
  - intros. apply window_drops_session; assumption.
  - intros. apply window_drops_login; assumption.
  - intros. apply tick_in_window; assumption.
  - intros. apply dropped_stays_silent; assumption.
Qed.
Print Assumptions C16_window_drops.

(* Non-vacuity (one minute in ns): LOGIN record at t=10s; tick at 65s keeps it, tick at 75s drops it. *)
Example C16_example :
  let I := Gen.Consts.staleDataCleanupInterval_ns in
  let e := {| a_id := 0; a_ses := SId 3; a_type := TLogin; a_pid := Some 30%Z |} in
  fst (prun 3 30 PClean ([Audit e 10000000000%Z] ++ tick_ops I 65000000000%Z)) = PHeld 10000000000%Z [e] /\
  fst (prun 3 30 PClean ([Audit e 10000000000%Z] ++ tick_ops I 75000000000%Z)) = PClean.
Proof. vm_compute. split; reflexivity. Qed.

(* ---------- the correlator of the model is the correlator of the source ----------
   Gen/TrackerProg.v is REGENERATED on every run by translating sessiontracker.go (RemoteLogin,
   AuditdEvent with both of its branches, the two cleanups, writeAndClearCache, the map operations
   they perform, deferred deletes, early returns and error classes) into a small deep-embedded
   language (Model/TrackerIR.v).  For EVERY state and EVERY operation the hand-written [tstep] of
   Model/Tracker.v, on which the theorems of this file rest, IS the interpretation of the generated
   programs, and that interpretation never gets stuck. *)
From AM Require Model.TrackerIR Gen.TrackerProg Proofs.TrackerIRTie.
Theorem C16_tracker_from_source : forall st o,
  Proofs.TrackerIRTie.run_generated st o = Some (Model.Tracker.tstep st o).
Proof. exact Proofs.TrackerIRTie.tracker_from_source. Qed.
Print Assumptions C16_tracker_from_source.

(* ---------- the cleanups do not depend on Go's map iteration order ----------
   Both cleanups are  m.Iterate(func(k, v) bool { if <stale> { m.DeleteUnsafe(k) }; return true }).  With the
   GenericSyncMap methods regenerated from the source (Gen/SyncMapProg.v, Proofs/SyncMapIRTie.v): for EVERY order in
   which Go enumerates the map, exactly the entries satisfying the condition are removed and the others are kept —
   the filter the model (and the generated programs' SDeleteWhere) use. *)
From AM Require Lib.Assoc Model.SyncMapIR Proofs.SyncMapIRTie.
Theorem C16_cleanup_is_order_independent :
  forall (K V : Type) (eqb : K -> K -> bool), (forall a b, reflect (a = b) (eqb a b)) ->
  forall c ord (m : list (K * V)), NoDup (Lib.Assoc.akeys m) -> incl (Lib.Assoc.akeys m) ord ->
    Model.SyncMapIR.iter K V eqb (Proofs.SyncMapIRTie.del_cb K V eqb c) ord m = filter (fun kv => negb (c (fst kv) (snd kv))) m.
Proof. exact Proofs.SyncMapIRTie.delete_where_is_filter. Qed.
Print Assumptions C16_cleanup_is_order_independent.
