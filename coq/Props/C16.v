(* C16 — Pending halves are kept for the staleness window and discarded after it. *)
From Coq Require Import List Bool Arith ZArith NArith Lia.
Import ListNotations.
From AM Require Import Model.Tracker Proofs.TrackerInv Proofs.TrackerSpec Proofs.TrackerLife Proofs.TrackerMore.
From AM Require Gen.Consts.

(* A cleanup call keeps exactly: every correlated session, every uncorrelated session not
   older than the cut-off — and discards every older uncorrelated one; nothing else changes. *)
Theorem C16_clean_sessions_exact : forall st t,
  (forall s u, In (s, u) (sess (clean_sess st t)) <->
               In (s, u) (sess st) /\ (unbound u = false \/ (t <= u_added u)%Z)) /\
  parked (clean_sess st t) = parked st /\ wb (clean_sess st t) = wb st.
Proof. exact clean_sess_exact. Qed.
Print Assumptions C16_clean_sessions_exact.

Theorem C16_clean_logins_exact : forall st t,
  (forall p l, In (p, l) (parked (clean_logins st t)) <->
               In (p, l) (parked st) /\ (t <= l_at l)%Z) /\
  sess (clean_logins st t) = sess st /\ wb (clean_logins st t) = wb st.
Proof. exact clean_logins_exact. Qed.
Print Assumptions C16_clean_logins_exact.

(* The running processor: the interval, and the way Read uses it, are GENERATED from
   processors/auditd/auditd.go (Gen/Consts.v).  One minute; ticker of that period; on each
   tick both cleanups are called with cut-off now - interval. *)
Theorem C16_interval :
  Gen.Consts.staleDataCleanupInterval_ns = 60000000000%Z /\
  Gen.Consts.cleanup_ticker_period_is_interval = true /\
  Gen.Consts.cleanup_cutoff_is_now_minus_interval = true /\
  Gen.Consts.cleanup_calls_both_with_cutoff = true.
Proof. repeat split. Qed.
Print Assumptions C16_interval.

(* The same, from the translated processor: Gen/AuditProg.v is REGENERATED on every run from Auditd.Read and
   interpreted by Model/AuditIR.v with the correlator's two cleanups as oracles [csess] (DeleteUsersWithoutLoginsBefore)
   and [clogins] (DeleteRemoteUserLoginsBefore).  The arm of Read's select that the clean-up ticker (period =
   the interval, see C15_processor_from_source_setup) fires: both cleanups run, on the tracker the callback and
   the login arm use, with ONE cut-off  time.Now() - staleDataCleanupInterval ; nothing else happens and the loop
   goes on. *)
From AM Require Model.AuditProc Model.AuditIR Gen.AuditProg Proofs.AuditIRTie.
Theorem C16_cleanup_arm_from_source :
  forall (line msg event cerr login AS : Type) (is_empty : line -> bool) (parse : line -> option msg)
         (mseq : msg -> BinNums.N) (mtype : msg -> nat) (coalesce : list msg -> option event) (old : event -> bool)
         (audit : AS -> event -> AS * option cerr) (rlogin : AS -> login -> AS * option cerr)
         (csess clogins : AS -> AuditIR.tmv -> AS) (dur : BinNums.Z -> nat)
         (now : nat) (p : AuditProc.pst line msg event cerr AS),
  AuditIR.read_arm_gen line msg event cerr login AS is_empty parse mseq mtype coalesce old audit rlogin csess clogins dur
                       AuditProg.gen_audit (AuditIR.EvTick line login now) p =
  let cut := AuditIR.TmNowAdd now (- Gen.Consts.staleDataCleanupInterval_ns) in
  Some (AuditIR.set_as line msg event cerr AS
          (clogins (csess (AuditIR.as_of line msg event cerr AS p) cut) cut) p,
        AuditProc.RNone line msg cerr, None).
Proof. exact AuditIRTie.read_arm_cleanup_from_source. Qed.
Print Assumptions C16_cleanup_arm_from_source.

(* With I that interval and [tick_ops I tick] what a tick does: a waiting half that arrived
   at time a survives every tick <= a + I (so a second half arriving within I is correlated:
   C02's [keeps_run] holds) ... *)
Theorem C16_window_keeps : forall (s : N) (p : Z) (I : Z), (0 < I)%Z ->
  (forall a evs tick, (tick <= a + I)%Z ->
     prun s p (PHeld a evs) (tick_ops I tick) = (PHeld a evs, []) /\
     keeps_run s p (PHeld a evs) (tick_ops I tick)) /\
  (forall l tick, (tick <= l_at l + I)%Z ->
     prun s p (PParked l) (tick_ops I tick) = (PParked l, []) /\
     keeps_run s p (PParked l) (tick_ops I tick)).
Proof. intros s p I HI. split; intros; [apply window_keeps_session|apply window_keeps_login]; assumption. Qed.
Print Assumptions C16_window_keeps.

(* ... is discarded by any tick after a + I, such a tick occurs no later than a + 2I, and from
   then on nothing of the session is emitted unless a new LOGIN record of it arrives: the held
   events are dropped, not emitted late. *)
Theorem C16_window_drops : forall (s : N) (p : Z) (I : Z), (0 < I)%Z ->
  (forall a evs tick, (a + I < tick)%Z -> prun s p (PHeld a evs) (tick_ops I tick) = (PClean, [])) /\
  (forall l tick, (l_at l + I < tick)%Z -> prun s p (PParked l) (tick_ops I tick) = (PClean, [])) /\
  (forall T0 a, (T0 <= a)%Z -> exists k, (0 <= k)%Z /\ (a + I < T0 + k * I <= a + 2 * I)%Z) /\
  (forall B ph, (ph = PClean \/ exists l, ph = PParked l) ->
     (forall o, In o B -> is_rec s p o = false) ->
     snd (prun s p ph B) = [] /\ (fst (prun s p ph B) = PClean \/ exists l, fst (prun s p ph B) = PParked l)).
Proof.
  intros s p I HI. split; [|split; [|split]].
  - intros. apply window_drops_session; assumption.
  - intros. apply window_drops_login; assumption.
  - intros. apply tick_in_window; assumption.
  - intros. apply dropped_stays_silent; assumption.
Qed.
Print Assumptions C16_window_drops.

(* Non-vacuity (one minute in ns): LOGIN record at t=10s; tick at 65s keeps it, tick at 75s drops it. *)
Example C16_example :
  let I := Gen.Consts.staleDataCleanupInterval_ns in
  let e := {| a_id := 0; a_ses := SId 3; a_type := TLogin; a_pid := Some 30%Z |} in
  fst (prun 3 30 PClean ([Audit e 10000000000%Z] ++ tick_ops I 65000000000%Z)) = PHeld 10000000000%Z [e] /\
  fst (prun 3 30 PClean ([Audit e 10000000000%Z] ++ tick_ops I 75000000000%Z)) = PClean.
Proof. vm_compute. split; reflexivity. Qed.

(* ---------- the correlator of the model is the correlator of the source ----------
   Gen/TrackerProg.v is REGENERATED on every run by translating sessiontracker.go (RemoteLogin,
   AuditdEvent with both of its branches, the two cleanups, writeAndClearCache, the map operations
   they perform, deferred deletes, early returns and error classes) into a small deep-embedded
   language (Model/TrackerIR.v).  For EVERY state and EVERY operation the hand-written [tstep] of
   Model/Tracker.v, on which the theorems of this file rest, IS the interpretation of the generated
   programs, and that interpretation never gets stuck. *)
From AM Require Model.TrackerIR Gen.TrackerProg Proofs.TrackerIRTie.
Theorem C16_tracker_from_source : forall st o,
  Proofs.TrackerIRTie.run_generated st o = Some (Model.Tracker.tstep st o).
Proof. exact Proofs.TrackerIRTie.tracker_from_source. Qed.
Print Assumptions C16_tracker_from_source.

(* ---------- the cleanups do not depend on Go's map iteration order ----------
   Both cleanups are  m.Iterate(func(k, v) bool { if <stale> { m.DeleteUnsafe(k) }; return true }).  With the
   GenericSyncMap methods regenerated from the source (Gen/SyncMapProg.v, Proofs/SyncMapIRTie.v): for EVERY order in
   which Go enumerates the map, exactly the entries satisfying the condition are removed and the others are kept —
   the filter the model (and the generated programs' SDeleteWhere) use. *)
From AM Require Lib.Assoc Model.SyncMapIR Proofs.SyncMapIRTie.
Theorem C16_cleanup_is_order_independent :
  forall (K V : Type) (eqb : K -> K -> bool), (forall a b, reflect (a = b) (eqb a b)) ->
  forall c ord (m : list (K * V)), NoDup (Lib.Assoc.akeys m) -> incl (Lib.Assoc.akeys m) ord ->
    Model.SyncMapIR.iter K V eqb (Proofs.SyncMapIRTie.del_cb K V eqb c) ord m = filter (fun kv => negb (c (fst kv) (snd kv))) m.
Proof. exact Proofs.SyncMapIRTie.delete_where_is_filter. Qed.
Print Assumptions C16_cleanup_is_order_independent.

(* ================= time.Ticker and the loop that consumes it (Model/Ticker.v) =================
   Until here a "tick" was a number.  Now: the ticker of period I started at T0 does a NON-BLOCKING send into a channel of
   capacity 1 at every T0 + k*I, k >= 1 ([fire]: into the slot if it is empty, dropped otherwise); Read's loop is a schedule
   [frees] = the instants at which it is at its select and takes the tick arm if a tick is there (arbitrary: between
   them it handles a login, an audit event, is blocked in a write, or select took another ready arm); [consumed I T0 frees]
   are the cleanups (consumption time c, tick index k) and [cleanup_ops I T0 frees] the correlator operations they perform:
   both sweeps with cut-off c - I.  Stage harness/ticker compares [consumed] / [dropped] with the real time.Ticker on every
   run.  All statements: for EVERY period, start and schedule. *)
From AM Require Model.Ticker Proofs.TickerLemmas.
Import Model.Ticker.
Open Scope Z_scope.

(* What the GENERATED Read does with a consumed tick: the period of its ticker is the interval, and running the tick arm
   of Gen/AuditProg.v at clock reading c (the arm's statements interpreted as they are written: the cut-off expression,
   both sweeps on it, nothing else) is [cleanup_ops]: cut-off = consumption time - interval, NOT the tick's value and not
   the previous cleanup.  Regenerated on every run: another cut-off expression / period / arm body breaks this proof. *)
Theorem C16_ticker_cleanups_from_source : forall T0 frees,
  cleanup_ops_gen (AuditIR.pg_read AuditProg.gen_audit) T0 frees =
  Some (cleanup_ops Gen.Consts.staleDataCleanupInterval_ns T0 frees).
Proof. exact Proofs.TickerLemmas.cleanups_from_source. Qed.
Print Assumptions C16_ticker_cleanups_from_source.

(* The ticker.  At most one tick is buffered and it is the EARLIEST undelivered one: however many boundaries pass,
   what waits in the slot stays (the later ticks are the ones lost). *)
Theorem C16_ticker_one_buffered : forall n st k, slot st = Some k -> slot (fire_n n st) = Some k.
Proof. exact Proofs.TickerLemmas.fire_n_keeps_buffered. Qed.
Print Assumptions C16_ticker_one_buffered.

(* The step-by-step model (advance = fire the due boundaries one by one, then a non-blocking receive) has a closed form:
   the loop consumes tick n at the first free instant at or after T0 + n*I, and the next tick that can be delivered is
   the first boundary AFTER that instant (the boundaries in between were lost to the full slot). *)
Theorem C16_ticker_closed_form : forall I T0 frees, 0 < I -> consumed I T0 frees = consumed_cf I T0 1 frees.
Proof. intros I T0 frees HI. apply Proofs.TickerLemmas.consumed_closed_form. exact HI. Qed.
Print Assumptions C16_ticker_closed_form.

(* Every cleanup runs at a free instant, at or after its tick's boundary; of two consecutive cleanups the second one's
   tick is the first boundary after the first cleanup - so no two cleanups without a boundary in between, the indices
   increase, and that boundary is at most one period after the first cleanup (the grid does not move).  There is NO lower
   bound on c2 - c1 other than 0: an overdue tick followed by a punctual one (C16_ticker_example). *)
Theorem C16_ticker_consumption : forall I T0 frees, 0 < I ->
  (forall c k, In (c, k) (consumed I T0 frees) -> In c frees /\ 1 <= k /\ T0 + k * I <= c) /\
  (forall pre c1 k1 c2 k2 post, consumed I T0 frees = pre ++ (c1, k1) :: (c2, k2) :: post ->
     k2 = (c1 - T0) / I + 1 /\ k1 < k2 /\ c1 < T0 + k2 * I <= c2 /\ T0 + k2 * I <= c1 + I) /\
  (forall frees2, exists rest, consumed I T0 (frees ++ frees2) = consumed I T0 frees ++ rest).
Proof.
  intros I T0 frees HI. split; [|split].
  - intros c k. apply Proofs.TickerLemmas.consumed_facts. exact HI.
  - intros pre c1 k1 c2 k2 post. apply Proofs.TickerLemmas.consumed_consecutive. exact HI.
  - intros frees2. apply Proofs.TickerLemmas.consumed_prefix. exact HI.
Qed.
Print Assumptions C16_ticker_consumption.

(* Liveness, schedules in time order: if the loop is free at some instant f at or after the boundary of tick k, a cleanup
   runs in [T0 + k*I, f] (tick k's, or that of an earlier tick that was still waiting); the cleanup of a delivered tick
   runs at the FIRST free instant from its boundary on; hence, if the loop is free somewhere in [boundary, boundary + d]
   (no busy interval longer than d), consecutive cleanups are more than 0 and at most I + d apart. *)
Theorem C16_ticker_liveness : forall I T0 frees, 0 < I -> Proofs.TickerLemmas.sorted frees ->
  (forall k f, 1 <= k -> In f frees -> T0 + k * I <= f ->
     exists c k', In (c, k') (consumed I T0 frees) /\ T0 + k * I <= c <= f) /\
  (forall pre c k post, consumed I T0 frees = pre ++ (c, k) :: post ->
     forall f, In f frees -> T0 + k * I <= f -> c <= f) /\
  (forall pre c1 k1 c2 k2 post d, consumed I T0 frees = pre ++ (c1, k1) :: (c2, k2) :: post ->
     (exists f, In f frees /\ T0 + k2 * I <= f <= T0 + k2 * I + d) -> c1 < c2 <= c1 + I + d).
Proof.
  intros I T0 frees HI Hs. split; [|split].
  - intros k f Hk Hin Hf. apply Proofs.TickerLemmas.consumed_served; assumption.
  - intros pre c k post H f Hin Hf. eapply Proofs.TickerLemmas.consumed_first_free; eassumption.
  - intros pre c1 k1 c2 k2 post d H Hf. eapply Proofs.TickerLemmas.consumed_gap; eassumption.
Qed.
Print Assumptions C16_ticker_liveness.

(* KEEPS - generalises C16_window_keeps from punctual ticks to consumption times: a half that arrived at a survives
   every cleanup executed at a time c <= a + I, WHATEVER the delays of the loop; in particular (second statement) as
   long as the clock has not passed a + I no schedule at all discards it. *)
Theorem C16_ticker_keeps : forall (s : N) (p : Z) (I : Z), 0 < I -> forall T0 frees,
  (forall a evs, (forall c k, In (c, k) (consumed I T0 frees) -> c <= a + I) ->
     prun s p (PHeld a evs) (cleanup_ops I T0 frees) = (PHeld a evs, []) /\
     keeps_run s p (PHeld a evs) (cleanup_ops I T0 frees)) /\
  (forall l, (forall c k, In (c, k) (consumed I T0 frees) -> c <= l_at l + I) ->
     prun s p (PParked l) (cleanup_ops I T0 frees) = (PParked l, []) /\
     keeps_run s p (PParked l) (cleanup_ops I T0 frees)).
Proof. intros s p I HI T0 frees. apply Proofs.TickerLemmas.ticker_keeps. Qed.
Print Assumptions C16_ticker_keeps.

Theorem C16_ticker_keeps_until : forall (s : N) (p : Z) (I : Z), 0 < I -> forall T0 frees a evs,
  (forall f, In f frees -> f <= a + I) ->
  prun s p (PHeld a evs) (cleanup_ops I T0 frees) = (PHeld a evs, []) /\
  keeps_run s p (PHeld a evs) (cleanup_ops I T0 frees).
Proof. intros s p I HI T0 frees a evs. apply Proofs.TickerLemmas.ticker_keeps_until. exact HI. Qed.
Print Assumptions C16_ticker_keeps_until.

(* Exactly, for every schedule: the half is discarded iff some cleanup runs after a + I. *)
Theorem C16_ticker_window_exact : forall (s : N) (p : Z) (I : Z) T0 frees a evs,
  prun s p (PHeld a evs) (cleanup_ops I T0 frees) =
  if existsb (fun ck => a + I <? fst ck) (consumed I T0 frees) then (PClean, []) else (PHeld a evs, []).
Proof. exact Proofs.TickerLemmas.ticker_window_exact. Qed.
Print Assumptions C16_ticker_window_exact.

(* DROPS: the processor was started at or before a; the schedule is in time order and, for every t in (a + I, a + 2I],
   the loop is free at some instant of [t, t + d] (no busy interval longer than d there).  Then a cleanup runs at some c
   in (a + I, a + 2I + d] and the half is gone; with d = 0 (a loop that is always at its select) this is
   C16_window_drops.  Afterwards silent: nothing of the session is emitted until a new LOGIN record of it arrives. *)
Theorem C16_ticker_drops : forall (s : N) (p : Z) (I : Z), 0 < I -> forall T0 frees d, Proofs.TickerLemmas.sorted frees ->
  (forall a evs, T0 <= a ->
     (forall t, a + I < t <= a + 2 * I -> exists f, In f frees /\ t <= f <= t + d) ->
     (exists c k, In (c, k) (consumed I T0 frees) /\ a + I < c <= a + 2 * I + d) /\
     prun s p (PHeld a evs) (cleanup_ops I T0 frees) = (PClean, [])) /\
  (forall l, T0 <= l_at l ->
     (forall t, l_at l + I < t <= l_at l + 2 * I -> exists f, In f frees /\ t <= f <= t + d) ->
     (exists c k, In (c, k) (consumed I T0 frees) /\ l_at l + I < c <= l_at l + 2 * I + d) /\
     prun s p (PParked l) (cleanup_ops I T0 frees) = (PClean, [])).
Proof. intros s p I HI T0 frees d. apply Proofs.TickerLemmas.ticker_drops. exact HI. Qed.
Print Assumptions C16_ticker_drops.

Theorem C16_ticker_drops_then_silent : forall (s : N) (p : Z) (I : Z), 0 < I -> forall T0 frees d a evs B,
  Proofs.TickerLemmas.sorted frees -> T0 <= a ->
  (forall t, a + I < t <= a + 2 * I -> exists f, In f frees /\ t <= f <= t + d) ->
  (forall o, In o B -> is_rec s p o = false) ->
  snd (prun s p (PHeld a evs) (cleanup_ops I T0 frees ++ B)) = [] /\
  (fst (prun s p (PHeld a evs) (cleanup_ops I T0 frees ++ B)) = PClean \/
   exists l, fst (prun s p (PHeld a evs) (cleanup_ops I T0 frees ++ B)) = PParked l).
Proof. intros s p I HI T0 frees d a evs B. apply Proofs.TickerLemmas.ticker_drops_then_silent. exact HI. Qed.
Print Assumptions C16_ticker_drops_then_silent.

(* THE CUT-OFF MUST BE now - I.  For the variant whose cut-off is the time of the previous cleanup (the start for the
   first one) the KEEPS statement is false: period 10 from 0, the loop held up over tick 1 (boundary 10) until 17, then
   punctual (tick 2 at 20): the cleanup at 20 has cut-off 17 and discards a LOGIN record that arrived at 12 - eight time
   units old - although every cleanup ran at a time <= 12 + 10; the source's cut-off (20 - 10 = 10) keeps it.  This is
   why the cut-off expression is part of the generated obligation (C16_ticker_cleanups_from_source). *)
Theorem C16_ticker_previous_cleanup_cutoff_refuted :
  exists (I T0 a : Z) (frees : list Z) (evs : list aev),
    0 < I /\ T0 <= a /\ Proofs.TickerLemmas.sorted frees /\
    (forall c k, In (c, k) (consumed I T0 frees) -> c <= a + I) /\
    fst (prun 3 30 (PHeld a evs) (cleanup_ops_prev I T0 frees)) = PClean /\
    fst (prun 3 30 (PHeld a evs) (cleanup_ops I T0 frees)) = PHeld a evs.
Proof. exact Proofs.TickerLemmas.previous_cleanup_cutoff_refuted. Qed.
Print Assumptions C16_ticker_previous_cleanup_cutoff_refuted.

(* Non-vacuity.  Period 100 from 0, the loop busy over [60, 210) - a 1.5-period stall - and otherwise idle up to 450:
   free instants 210, 300, 400; tick 1 waits in the slot and is consumed at 210, tick 2 is lost, ticks 3 and 4 are on
   time; the cleanups 210 and 300 are only 90 apart (an overdue tick, then a punctual one).  A LOGIN record that arrived
   at 150 survives the cleanup at 210 (cut-off 110) and is discarded by the one at 300 (cut-off 200), which lies in
   (150 + 100, 150 + 2*100 + 150]; a record that arrived at 350 is still held at the end. *)
Example C16_ticker_example :
  let e := {| a_id := 0; a_ses := SId 3; a_type := TLogin; a_pid := Some 30 |} in
  let frees := frees_of_busy 100 0 [(60, 210)] 450 in
  frees = [210; 300; 400] /\
  consumed 100 0 frees = [(210, 1); (300, 3); (400, 4)] /\ dropped 100 0 frees = [2] /\
  cleanup_ops 100 0 frees = [CleanSess 110; CleanLogins 110; CleanSess 200; CleanLogins 200; CleanSess 300; CleanLogins 300] /\
  Proofs.TickerLemmas.sorted frees /\
  fst (prun 3 30 (PHeld 150 [e]) (cleanup_ops 100 0 [210])) = PHeld 150 [e] /\
  fst (prun 3 30 (PHeld 150 [e]) (cleanup_ops 100 0 frees)) = PClean /\
  fst (prun 3 30 (PHeld 350 [e]) (cleanup_ops 100 0 frees)) = PHeld 350 [e] /\
  (* the hypothesis of C16_ticker_drops for a = 150, d = 150: every t in (250, 350] has a free instant in [t, t + 150] *)
  (forall t, 150 + 100 < t <= 150 + 2 * 100 -> exists f, In f frees /\ t <= f <= t + 150).
Proof.
  cbv zeta. change (frees_of_busy 100 0 [(60, 210)] 450) with [210; 300; 400].
  split; [reflexivity|]. split; [vm_compute; reflexivity|]. split; [vm_compute; reflexivity|].
  split; [vm_compute; reflexivity|]. split; [cbn [Proofs.TickerLemmas.sorted In]; intuition lia|].
  split; [vm_compute; reflexivity|]. split; [vm_compute; reflexivity|]. split; [vm_compute; reflexivity|].
  intros t Ht. destruct (Z.le_gt_cases t 300); [exists 300|exists 400]; cbn [In]; lia.
Qed.

(* the generated Read under the same schedule, in nanoseconds: one minute period, loop held up over the first boundary *)
Example C16_ticker_example_generated :
  cleanup_ops_gen (AuditIR.pg_read AuditProg.gen_audit) 0 [90000000000; 120000000000] =
  Some [CleanSess 30000000000; CleanLogins 30000000000; CleanSess 60000000000; CleanLogins 60000000000].
Proof. vm_compute. reflexivity. Qed.
