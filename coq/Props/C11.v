(* C11 — Unrecognised or malformed sshd lines produce nothing and never crash. *)
From Coq Require Import Ascii String List Bool Arith ZArith NArith.
Import ListNotations.
From AM Require Import Lib.Bytes Lib.Regex Model.SshdProc Proofs.SshdGeneral.
From AM Require Import Gen.SshdDispatch Gen.SshdHandlers Model.SshdSketch Proofs.SshdHandlersTie.
Open Scope string_scope.
Open Scope list_scope.

(* For EVERY byte string [line], EVERY pid token, every writer behaviour and every hand-off
   outcome: no panic (the only computed slice index is in range); with a working writer the
   result is "no error"; at most one event is written; a login is forwarded only together with
   exactly one succeeded event, the very event written, and only if the write succeeded and the
   correlator took it; a write error is returned only when the write failed, and then nothing is
   forwarded. *)
Theorem C11_total : forall c tok line wok ready,
  let r := process c tok line wok ready in
  (r_ret r <> RetPanic /\ (wok = true -> r_ret r = RetOk) /\
   (r_ret r = RetWriteErr -> wok = false /\ r_forwards r = [] /\ length (r_writes r) = 1)) /\
  (length (r_writes r) <= 1 /\ length (r_forwards r) <= 1) /\
  (forall f, In f (r_forwards r) -> r_writes r = [f_src f] /\ ev_ok (f_src f) = true /\ wok = true /\ ready = true) /\
  (ready = false -> r_forwards r = []).
Proof. exact process_total_flat. Qed.
Print Assumptions C11_total.

(* An event is emitted only if the line begins with one of the recognised message keywords;
   any other line changes nothing at all (no event, no login, no counter). *)
Theorem C11_keyword : forall c tok line wok ready,
  (has_keyword line = false -> process c tok line wok ready = nothing) /\
  (r_writes (process c tok line wok ready) <> [] -> has_keyword line = true).
Proof. exact keyword_flat. Qed.
Print Assumptions C11_keyword.

(* Non-vacuity / samples: garbage, a truncated message, a second "Accepted publickey" later in
   the line (match offset > 0), hostile pid tokens. *)
Example C11_examples :
  let c := {| c_node := s2l "n"; c_mid := s2l "m" |} in
  map (fun l => length (r_writes (process c (s2l "12a") (s2l l) true true)))
      ["garbage"; "Failed password for bob from 1.2.3.4 port"; "";
       "Accepted publickeyX Accepted publickey for a from b port 1 ssh2: RSA SHA256:x ID k (serial 1) CA RSA SHA256:y"]
  = [0; 0; 0; 0].
Proof. vm_compute. reflexivity. Qed.

(* ---------- the handlers of the model are the handlers of the source ----------
   Gen/SshdHandlers.v is REGENERATED on every run by symbolic evaluation of each handler's Go body
   (which capture group / constant / processor field feeds which event field, outcome, metric calls,
   whether and with which credential the login is handed on).  For the 18 handlers that have a
   sketch, the hand-written handler of Model/SshdProc.v IS the interpretation of that sketch; the
   two without a flat sketch (public key: three branches; invalid certificate: no regex) are covered
   by the decision-tree form below. *)
Theorem C11_handlers_from_source : forall h hs, handler_sketch h = Some hs ->
  forall c tok line wok ready, run_sketch hs c tok line wok ready = Some (run_handler h c tok line wok ready).
Proof. exact run_sketch_is_run_handler. Qed.
Print Assumptions C11_handlers_from_source.

Theorem C11_handlers_without_sketch : forall h, handler_sketch h = None ->
  h = h_processAcceptPublicKeyEntry \/ h = h_processCertificateInvalidEntry.
Proof. exact sketch_coverage. Qed.
Print Assumptions C11_handlers_without_sketch.

(* All 20 handlers: the hand-written handler IS the interpretation [run_generated] of the decision tree that
   go2v regenerates from the handler's Go body on every run (Gen/SshdHandlers.v: [handler_prog]); this
   includes the three-branch public-key handler (second regex on the rest of the line, slice start
   len(match)+1 with its panic guard) and the invalid-certificate handler (reason = line from the length
   of the prefix literal on, fallback text). *)
Theorem C11_all_handlers_from_source : forall h c tok line wok ready,
  run_generated h c tok line wok ready = Some (run_handler h c tok line wok ready).
Proof. exact all_handlers_from_source. Qed.
Print Assumptions C11_all_handlers_from_source.

(* ---------- what reaches the processor is the line's own bytes ----------
   The fields of an emitted event are substrings of the MESSAGE the processor is given; that this
   message is itself a verbatim part of the syslog line (split at the first blank run after the PID
   token, nothing collapsed or rewritten) is the generated translation of ParseSyslogMessage / Process
   and of the entry point's configuration literal. *)
From AM Require Import Lib.GoStrings Gen.PureFuncs Proofs.PureFuncsTie Model.Syslog.
From AM Require Import Gen.EntryMetrics Model.EntryMetricsIR Proofs.EntryMetricsTie.
Theorem C11_process_line_from_source : forall line,
  option_map entry_pair (gen_process_line line) = Some (process_line line).
Proof. exact process_line_from_source. Qed.
Print Assumptions C11_process_line_from_source.

Theorem C11_entry_from_source : forall pid msg, entry_args gen_entry (pid, msg) = Some (pid, msg).
Proof. exact entry_from_source. Qed.
Print Assumptions C11_entry_from_source.

Theorem C11_entry_context_is_callers : en_lookup "ctx" (en_config gen_entry) = Some FromCtxParam.
Proof. exact entry_context_is_callers. Qed.
Print Assumptions C11_entry_context_is_callers.

(* the body of ProcessSshdLogEntry is ONE call of ProcessEntry on a fresh per-line configuration whose result is
   returned: no guard / early return, loop, defer, derived context or write to the long-lived processor (the generator
   has no form for them: the generated file would not type-check) *)
Theorem C11_entry_single_call :
  en_callee gen_entry = "ProcessEntry" /\ en_result_returned gen_entry = true /\
  map fst (en_config gen_entry) = ["ctx"; "logins"; "logEntry"; "nodeName"; "machineID"; "when"; "pid"; "eventW"; "metrics"] /\
  en_lookup "when" (en_config gen_entry) = Some FromTimeNow.
Proof. exact entry_single_call. Qed.
Print Assumptions C11_entry_single_call.

Theorem C11_parse_from_source : forall e,
  option_map entry_pair (gen_parse_syslog_message e) = Some (Syslog.parse e).
Proof. exact parse_syslog_from_source_pair. Qed.
Print Assumptions C11_parse_from_source.

(* ---------- the regular-expression guard (group R; statements and their reading in Props/C06.v, C06_regex_…) ----------
   "No guard matches" is not an artefact of the matcher: a guard of the dispatch table answers false exactly when the
   pattern has NO parse at ANY offset of the line (declarative semantics of Model/RegexSpec.v), for every item list
   and every line. *)
From AM Require Import Model.RegexSpec Proofs.RegexSpecLemmas.
Theorem C11_regex_guard_false_iff : forall its line,
  matches its line = false <-> forall p ls e pcs, ~ Match its line p ls e pcs.
Proof. exact matches_false_iff. Qed.
Print Assumptions C11_regex_guard_false_iff.


(* ====================================================================================================
   What arrives on the pipes is what the processors are handed (round 7).
   C11 is a statement about what the DAEMON emits for the records written to its pipes; the theorems above
   start at the record the processor is handed.  The reader between the two - NamedPipeIngester.Ingest, the
   wrappers of the two ingesters and their Process callbacks - is regenerated into Gen/IngestProg.v on every
   run; the statements below (proved in Proofs/IngestIRTie.v, restated here so that they are obligations of
   C11) say that for every chunking of the pipe's byte stream each newline-terminated record is handed to
   the callback exactly once, in order, with exactly its bytes (Model/Framing.v [ingest], about which C12's
   theorems are proved), that the pipe is opened read-only (so the last writer's close is end-of-stream and an
   unterminated tail is never joined to a later writer's bytes), and what the callback does with the
   record.  Any edit of the reader changes the generated program and these stop checking.
   ==================================================================================================== *)
From Coq Require Import Ascii String List.
From AM Require Import Model.Framing Model.IngestIR Gen.IngestProg Proofs.IngestIRTie.
Import ListNotations.
Open Scope string_scope.
Open Scope list_scope.
Open Scope nat_scope.

Theorem C11_records_reach_processor_unchanged : forall cs cb,
  run_ingest gen_Ingest cs (ascii_of_nat (wr_delim gen_auditlog_Ingest)) cb = Some (ingest cs newline cb) /\
  run_ingest gen_Ingest cs (ascii_of_nat (wr_delim gen_syslog_Ingest)) cb = Some (ingest cs newline cb).
Proof. exact wrapped_ingest_from_source. Qed.
Print Assumptions C11_records_reach_processor_unchanged.

(* the reader's statements: ReadString with the caller's delimiter, the line handed on as it was read *)
Theorem C11_pipe_reader_loop_from_source :
  ip_loop gen_Ingest = [
    IReadString "line" "err" DParam;
    IIf (CErrNotNil "err") [ILog "Errorf"; IReturn (EVar "err")] [];
    ICallback (TAssign "err") (SVar "line");
    IIf (CErrNotNil "err") [IReturn (EVar "err")] []].
Proof. exact loop_shape_from_source. Qed.
Print Assumptions C11_pipe_reader_loop_from_source.

(* the set-up: read-only open in a goroutine with a cancellable wait, errors returned unchanged, the file closed
   on cancellation and on return, the reader reads that file *)
Theorem C11_pipe_open_from_source :
  (exists i j, index_of is_onready (ip_setup gen_Ingest) = Some i /\
               index_of is_open (ip_setup gen_Ingest) = Some j /\ i < j) /\
  In (SOnReady "named-pipe-processor") (ip_setup gen_Ingest) /\
  In (SGoOpen "file" "err" ["O_RDONLY"] "ModeNamedPipe" "ready") (ip_setup gen_Ingest) /\
  In (SSelect [SArmDone ECtxErr; SArmRecv "ready"]) (ip_setup gen_Ingest) /\
  open_is_cancellable (ip_setup gen_Ingest) = true /\
  In (SIfErrReturn "err" (EVar "err")) (ip_setup gen_Ingest) /\
  In (SGoCloseOnCancel "file") (ip_setup gen_Ingest) /\
  read_is_cancellable (ip_setup gen_Ingest) = true /\
  In (SDeferClose "file") (ip_setup gen_Ingest) /\
  In (SNewReader "r" "file") (ip_setup gen_Ingest).
Proof. exact setup_from_source. Qed.
Print Assumptions C11_pipe_open_from_source.

(* sshd pipe: the callback removes exactly one trailing newline, the rest goes to ParseSyslogMessage and on to
   SshdProcessor.ProcessSshdLogEntry, whose error is returned unchanged; for a record as Ingest delivers it
   that is the record's body *)
Theorem C11_sshd_record_reaches_processor :
  gen_syslog_Process =
  {| pr_line := "line";
     pr_body := PParseAndProcess "ParseSyslogMessage" (STrimLit [10] (SVar "line"))
                                 "SshdProcessor" "ProcessSshdLogEntry" |} /\
  forall b, trim_suffix (map ascii_of_nat [10]) (b ++ [newline]) = b.
Proof. exact (conj syslog_process_from_source syslog_process_gets_body). Qed.
Print Assumptions C11_sshd_record_reaches_processor.
