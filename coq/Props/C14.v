(* C14 — UserAction events faithfully render the audit event.
   This file contains only the property statements; every proof is one [exact]. *)
From Coq Require Import Ascii String List Bool Arith ZArith NArith.
Import ListNotations.
From AM Require Import Lib.Bytes Lib.Assoc Model.Tracker Model.ToEvent
  Proofs.TrackerInv Proofs.TrackerSpec Proofs.TrackerLife Proofs.ToEventLemmas.
From AM Require Import Gen.ToEventSketch Model.ToEventSketch Proofs.ToEventTie.

(* For every login identity l and every coalesced audit event e, the written event has
   type "UserAction" and component "auditd"; its timestamp is the audit record's; its
   auditId is the kernel session id; its outcome is "succeeded" exactly when the audit
   result is the string "success" and "failed" in every other case; its metadata carries
   action, how and object of the summary; process_args is present exactly when the audit
   event has arguments and then holds them; subjects/source/target are the login's. *)
Theorem C14_render : forall (l : login_ident) (e : cevent),
  let u := to_event l e in
  ua_type u = s2l "UserAction" /\
  ua_component u = s2l "auditd" /\
  ua_logged_at u = ce_time e /\
  ua_audit_id u = ce_session e /\
  (ua_outcome u = s2l "succeeded" <-> ce_result e = s2l "success") /\
  (ua_outcome u = s2l "failed" <-> ce_result e <> s2l "success") /\
  ua_action u = ce_action e /\ ua_how u = ce_how e /\ ua_object u = ce_object e /\
  ((exists a, ua_args u = Some a) <-> ce_args e <> []) /\
  (forall a, ua_args u = Some a -> a = ce_args e) /\
  ua_ident u = l.
Proof. exact render_spec. Qed.
Print Assumptions C14_render.

(* All events of a session carry identical identity content.  [ident] assigns the identity
   content to a login and [cev] the coalesced form to an audit event (both arbitrary).
   For every history h under the C02 discipline for (s, p) — see Props/C02.v — what the
   daemon has written for session s is the rendering, with ONE delivered login l of pid p,
   of a prefix of the session's events; hence any two written events of s agree on
   subjects, source and target. *)
Theorem C14_same_identity :
  forall (ident : login -> login_ident) (cev : aev -> cevent) (s : N) (p : Z) (h : list top),
  allowed_run s p PClean h -> keeps_run s p PClean h ->
  let R := map (render ident cev) (projs s (outs h)) in
  (forall u1 u2, In u1 R -> In u2 R -> ua_ident u1 = ua_ident u2) /\
  (rec_seen s p h && login_seen p h = false -> R = []) /\
  (rec_seen s p h && login_seen p h = true ->
     exists l k, In_login l h /\ login_p p l = true /\
       R = map (fun e => to_event (ident l) (cev e)) (firstn k (events_from_rec s p h)) /\
       forall u, In u R -> ua_ident u = ident l).
Proof. exact same_identity. Qed.
Print Assumptions C14_same_identity.

(* Emitting does not alter the stored login — at model level.  For every correlator state
   and every audit event: a session that holds login l before the call holds l afterwards
   or is gone (its disposal record was written), and whatever the call writes for the
   event's own session is written with l.
   The model's [to_event] is a pure function, the stored login is not among its results;
   that the Go method does not write through the shared pointers (Source.Extra and Target
   are shared with the emitted event, Subjects is copied) is a correspondence obligation:
   harness/render compares a deep copy of the stored login before and after >= 20 events. *)
Theorem C14_non_mutation : forall st ev now st' out r,
  tstep st (Audit ev now) = (st', out, r) ->
  forall s u l, aget N.eqb s (sess st) = Some u -> u_login u = Some l ->
    (a_ses ev = SId s -> forall x, In x out -> fst x = l) /\
    (aget N.eqb s (sess st') = None \/
     exists u', aget N.eqb s (sess st') = Some u' /\ u_login u' = Some l).
Proof. exact audit_keeps_login. Qed.
Print Assumptions C14_non_mutation.

(* ---------- examples ---------- *)

Definition alice_ident : login_ident :=
  {| li_subjects := [(s2l "loggedAs", s2l "core"); (s2l "pid", s2l "25007"); (s2l "userID", s2l "alice@example.com")];
     li_src_type := s2l "IP"; li_src_value := s2l "10.0.0.7"; li_src_extra := [(s2l "port", s2l "40022")];
     li_target := [(s2l "host", s2l "node-7"); (s2l "machine-id", s2l "mid-0123")] |}.

Definition exec_ls (result : str) (args : list str) : cevent :=
  {| ce_time := 1668460768228000000; ce_session := s2l "499"; ce_result := result;
     ce_action := s2l "executed"; ce_how := s2l "/usr/bin/ls";
     ce_object := {| ob_type := s2l "file"; ob_primary := s2l "/usr/bin/ls"; ob_secondary := [] |};
     ce_args := args |}.

Example C14_example_with_args :
  to_event alice_ident (exec_ls (s2l "success") [s2l "ls"; s2l "-la"]) =
  {| ua_type := s2l "UserAction"; ua_component := s2l "auditd"; ua_logged_at := 1668460768228000000;
     ua_audit_id := s2l "499"; ua_outcome := s2l "succeeded"; ua_action := s2l "executed";
     ua_how := s2l "/usr/bin/ls";
     ua_object := {| ob_type := s2l "file"; ob_primary := s2l "/usr/bin/ls"; ob_secondary := [] |};
     ua_args := Some [s2l "ls"; s2l "-la"]; ua_ident := alice_ident |}.
Proof. vm_compute. reflexivity. Qed.

Example C14_example_without_args :
  ua_args (to_event alice_ident (exec_ls (s2l "success") [])) = None.
Proof. vm_compute. reflexivity. Qed.

(* only the exact string "success" gives "succeeded" *)
Example C14_example_outcomes :
  map (fun r => ua_outcome (to_event alice_ident (exec_ls r [])))
      [s2l "success"; s2l "fail"; s2l "failed"; []; s2l "unknown"; s2l "Success"; s2l "success "; s2l "succes"] =
  [s2l "succeeded"; s2l "failed"; s2l "failed"; s2l "failed"; s2l "failed"; s2l "failed"; s2l "failed"; s2l "failed"].
Proof. vm_compute. reflexivity. Qed.

(* non-vacuity of C14_same_identity: a 4-event session (LOGIN, two commands, CRED_DISP) with
   the login delivered at each of the 5 split points, another session pending; the
   hypotheses hold, four events are written and all carry the identity of login 0. *)
Definition ev (i : nat) (s : N) (t : atype) (p : Z) := {| a_id := i; a_ses := SId s; a_type := t; a_pid := Some p |}.
Definition lg := {| l_id := 0; l_pid := 70; l_at := 0; l_valid := true |}.
Definition sess4 : list top :=
  [Audit (ev 0 7 TLogin 70) 1; Audit (ev 1 7 (TOther 1) 71) 3; Audit (ev 2 7 (TOther 2) 72) 5; Audit (ev 3 7 TCredDisp 70) 7].
Definition other : top := Audit (ev 9 8 TLogin 80) 0.
Definition split_at (k : nat) : list top := other :: firstn k sess4 ++ [RemoteLogin lg 0] ++ skipn k sess4.
Definition ident_ex (l : login) : login_ident :=
  if Nat.eqb (l_id l) 0 then alice_ident
  else {| li_subjects := []; li_src_type := []; li_src_value := []; li_src_extra := []; li_target := [] |}.
Definition cev_ex (e : aev) : cevent :=
  exec_ls (if Nat.even (a_id e) then s2l "success" else s2l "fail") (repeat (s2l "x") (a_id e)).

Definition from_alice (i : login_ident) : bool := match li_src_value i with [] => false | _ => true end.

Example C14_example_session :
  forall k, In k [0; 1; 2; 3; 4] ->
  allowed_run 7 70 PClean (split_at k) /\ keeps_run 7 70 PClean (split_at k) /\
  map (fun u => (ua_outcome u, ua_args u, from_alice (ua_ident u)))
      (map (render ident_ex cev_ex) (projs 7 (outs (split_at k)))) =
  [(s2l "succeeded", None, true); (s2l "failed", Some [s2l "x"], true);
   (s2l "succeeded", Some [s2l "x"; s2l "x"], true); (s2l "failed", Some [s2l "x"; s2l "x"; s2l "x"], true)].
Proof.
  intros k H. cbn in H.
  repeat (destruct H as [<-|H];
          [split; [|split]; [cbn; repeat split; auto; intros; try discriminate; auto ..|vm_compute; reflexivity]|]).
  contradiction.
Qed.

(* ---------- the rendering of the model is the rendering of the source ----------
   Gen/ToEventSketch.v is REGENERATED on every run by evaluating the AST of the method toAuditEvent of user:
   event type and component constants, the outcome rule (the switch on ae.Result with its default),
   where every output field comes from (login subjects / source / target, the audit event's timestamp,
   session and summary), the metadata extra keys, the guard of process_args, and which of the login's
   maps are copied and which are shared.  The hand-written [to_event] IS the interpretation of that
   sketch, for every login identity and every coalesced event. *)
Theorem C14_render_from_source : forall l e, render_sketch generated_sketch l e = Some (to_event l e).
Proof. exact to_event_from_source. Qed.
Print Assumptions C14_render_from_source.

Theorem C14_outcome_rule_from_source : forall r,
  te_outcome_by (te_outcome_cases generated_sketch) (te_outcome_default generated_sketch) r = outcome_of r.
Proof. exact outcome_rule_from_source. Qed.
Print Assumptions C14_outcome_rule_from_source.

(* the subjects map of the written event is a fresh copy; source (its Extra map) and target are the
   stored login's own: non-mutation of the stored login rests on nobody mutating a written event *)
Theorem C14_aliasing_from_source :
  te_subjects_copied generated_sketch = true /\ te_source_copied generated_sketch = false /\ te_target_copied generated_sketch = false.
Proof. exact generated_aliasing. Qed.
Print Assumptions C14_aliasing_from_source.

(* ---------- the correlator of the model is the correlator of the source ----------
   Gen/TrackerProg.v is REGENERATED on every run by translating sessiontracker.go (RemoteLogin,
   AuditdEvent with both of its branches, the two cleanups, writeAndClearCache, the map operations
   they perform, deferred deletes, early returns and error classes) into a small deep-embedded
   language (Model/TrackerIR.v).  For EVERY state and EVERY operation the hand-written [tstep] of
   Model/Tracker.v, on which the theorems of this file rest, IS the interpretation of the generated
   programs, and that interpretation never gets stuck. *)
From AM Require Model.TrackerIR Gen.TrackerProg Proofs.TrackerIRTie.
Theorem C14_tracker_from_source : forall st o,
  Proofs.TrackerIRTie.run_generated st o = Some (Model.Tracker.tstep st o).
Proof. exact Proofs.TrackerIRTie.tracker_from_source. Qed.
Print Assumptions C14_tracker_from_source.

(* ---------- what reaches the coalescer, from the source ----------
   Gen/AuditProg.v is REGENERATED on every run from processors/auditd/reassembler_callback.go; Model/AuditIR.v
   interprets it with aucoalesce.CoalesceMessages as the oracle [coalesce].  For EVERY group g that
   ReassemblyComplete receives the oracle is asked about g ITSELF — the same records in the same order; nothing
   is filtered, sorted or rebuilt between the callback's parameter and CoalesceMessages — and the event it
   returns is the one that (after the After filter and ResolveIDs) is handed to the correlator. *)
From AM Require Model.AuditProc Model.AuditIR Gen.AuditProg Proofs.AuditIRTie.
Theorem C14_group_unchanged_from_source :
  forall (line msg event cerr login AS : Type) (is_empty : line -> bool) (parse : line -> option msg)
         (coalesce : list msg -> option event) (old : event -> bool)
         (audit : AS -> event -> AS * option cerr) (rlogin : AS -> login -> AS * option cerr)
         (csess clogins : AS -> AuditIR.tmv -> AS) (dur : BinNums.Z -> nat)
         (p : AuditProc.pst line msg event cerr AS) (g : list msg),
  AuditIR.complete_gen line msg event cerr login AS is_empty parse coalesce old audit rlogin csess clogins dur
                       AuditProg.gen_ReassemblyComplete p g =
  Some (AuditIR.on_cb line msg event cerr AS (fun c0 =>
          let c := AuditProc.note_group msg event cerr AS g c0 in
          match coalesce g with
          | None => AuditProc.send msg event cerr AS (AuditProc.ECoalesce msg cerr g) c
          | Some ev =>
              if old ev then c else
              let '(a, r) := audit (AuditProc.cb_as msg event cerr AS c0) ev in
              let c' := AuditProc.note_handed msg event cerr AS a ev c in
              match r with
              | None => c'
              | Some x => AuditProc.send msg event cerr AS (AuditProc.EAudit msg cerr g x) c'
              end
          end) p).
Proof. exact AuditIRTie.coalesce_gets_group_unchanged. Qed.
Print Assumptions C14_group_unchanged_from_source.

(* ---------- the line the UserAction becomes (Model/JsonEnc.v) ----------
   [action_view t u] is the JSON view of a rendered UserAction u with its timestamp formatted as t: metadata.extra holds
   action, how, object (aucoalesce.Object: its three members, each omitted when empty) and, when the event has
   arguments, process_args as an array of strings.  For EVERY login identity and EVERY coalesced event — session id,
   action, object names, arguments of ANY bytes — the event is ONE line and parses back to exactly its members. *)
From AM Require Import Model.JsonEnc Proofs.JsonEncLemmas Proofs.JsonParseLemmas.
Theorem C14_json_action_line : forall (l : login_ident) (e : cevent) (t : str),
  time_text_ok t = true ->
  let j := action_view t (to_event l e) in
  count_occ ascii_dec (enc_line j) newline = 1%nat /\
  List.last (enc_line j) dq = newline /\
  parse (enc_event j) = POk (reader_view j) [].
Proof.
  intros l e t Ht j. subst j.
  destruct (enc_line_one_newline _ (action_view_ok t (to_event l e) Ht)) as [H1 H2].
  exact (conj H1 (conj H2 (parse_enc_event_view _ (action_view_readable t (to_event l e) Ht)))).
Qed.
Print Assumptions C14_json_action_line.

(* a command line whose argument holds a newline and a forged event, rendered and read back *)
Example C14_json_example :
  let l := {| li_subjects := [(s2l "loggedAs", s2l "bob")]; li_src_type := s2l "IP"; li_src_value := s2l "10.0.0.9";
              li_src_extra := [(s2l "port", s2l "22")]; li_target := [] |} in
  let e := {| ce_time := 0%Z; ce_session := s2l "7"; ce_result := s2l "success"; ce_action := s2l "executed";
              ce_how := s2l "/bin/sh"; ce_object := {| ob_type := s2l "file"; ob_primary := s2l "/bin/sh"; ob_secondary := [] |};
              ce_args := [s2l "sh"; hx "2d630a7b2274797065223a22666f72676564227d"] |} in
  enc_line (action_view (s2l "1970-01-01T00:00:00Z") (to_event l e)) =
    s2l "{""metadata"":{""auditId"":""7"",""extra"":{""action"":""executed"",""how"":""/bin/sh"",""object"":{""type"":""file"",""primary"":""/bin/sh""},""process_args"":[""sh"",""-c\n{\""type\"":\""forged\""}""]}},""type"":""UserAction"",""loggedAt"":""1970-01-01T00:00:00Z"",""source"":{""type"":""IP"",""value"":""10.0.0.9"",""extra"":{""port"":""22""}},""outcome"":""succeeded"",""subjects"":{""loggedAs"":""bob""},""component"":""auditd""}"
    ++ [newline].
Proof. vm_compute. reflexivity. Qed.


(* ====================================================================================================
   What arrives on the pipes is what the processors are handed (round 7).
   C14 is a statement about what the DAEMON emits for the records written to its pipes; the theorems above
   start at the record the processor is handed.  The reader between the two - NamedPipeIngester.Ingest, the
   wrappers of the two ingesters and their Process callbacks - is regenerated into Gen/IngestProg.v on every
   run; the statements below (proved in Proofs/IngestIRTie.v, restated here so that they are obligations of
   C14) say that for every chunking of the pipe's byte stream each newline-terminated record is handed to
   the callback exactly once, in order, with exactly its bytes (Model/Framing.v [ingest], about which C12's
   theorems are proved), that the pipe is opened read-only (so the last writer's close is end-of-stream and an
   unterminated tail is never joined to a later writer's bytes), and what the callback does with the
   record.  Any edit of the reader changes the generated program and these stop checking.
   ==================================================================================================== *)
From Coq Require Import Ascii String List.
From AM Require Import Model.Framing Model.IngestIR Gen.IngestProg Proofs.IngestIRTie.
Import ListNotations.
Open Scope string_scope.
Open Scope list_scope.
Open Scope nat_scope.

Theorem C14_records_reach_processor_unchanged : forall cs cb,
  run_ingest gen_Ingest cs (ascii_of_nat (wr_delim gen_auditlog_Ingest)) cb = Some (ingest cs newline cb) /\
  run_ingest gen_Ingest cs (ascii_of_nat (wr_delim gen_syslog_Ingest)) cb = Some (ingest cs newline cb).
Proof. exact wrapped_ingest_from_source. Qed.
Print Assumptions C14_records_reach_processor_unchanged.

(* the reader's statements: ReadString with the caller's delimiter, the line handed on as it was read *)
Theorem C14_pipe_reader_loop_from_source :
  ip_loop gen_Ingest = [
    IReadString "line" "err" DParam;
    IIf (CErrNotNil "err") [ILog "Errorf"; IReturn (EVar "err")] [];
    ICallback (TAssign "err") (SVar "line");
    IIf (CErrNotNil "err") [IReturn (EVar "err")] []].
Proof. exact loop_shape_from_source. Qed.
Print Assumptions C14_pipe_reader_loop_from_source.

(* the set-up: read-only open in a goroutine with a cancellable wait, errors returned unchanged, the file closed
   on cancellation and on return, the reader reads that file *)
Theorem C14_pipe_open_from_source :
  (exists i j, index_of is_onready (ip_setup gen_Ingest) = Some i /\
               index_of is_open (ip_setup gen_Ingest) = Some j /\ i < j) /\
  In (SOnReady "named-pipe-processor") (ip_setup gen_Ingest) /\
  In (SGoOpen "file" "err" ["O_RDONLY"] "ModeNamedPipe" "ready") (ip_setup gen_Ingest) /\
  In (SSelect [SArmDone ECtxErr; SArmRecv "ready"]) (ip_setup gen_Ingest) /\
  open_is_cancellable (ip_setup gen_Ingest) = true /\
  In (SIfErrReturn "err" (EVar "err")) (ip_setup gen_Ingest) /\
  In (SGoCloseOnCancel "file") (ip_setup gen_Ingest) /\
  read_is_cancellable (ip_setup gen_Ingest) = true /\
  In (SDeferClose "file") (ip_setup gen_Ingest) /\
  In (SNewReader "r" "file") (ip_setup gen_Ingest).
Proof. exact setup_from_source. Qed.
Print Assumptions C14_pipe_open_from_source.

(* audit pipe: the callback is one select with a ctx.Done arm (returns ctx.Err()) and the send of the line,
   unchanged, on AuditLogChan (returns nil) *)
Theorem C14_audit_record_reaches_processor :
  gen_auditlog_Process =
  {| pr_line := "line";
     pr_body := PSelect [PArmDone ECtxErr; PArmSend "AuditLogChan" (SVar "line") ENil] |}.
Proof. exact auditlog_process_from_source. Qed.
Print Assumptions C14_audit_record_reaches_processor.
