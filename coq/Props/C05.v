(* C05 — Accepted logins reach the correlator exactly once, matching the written event. *)
From Coq Require Import Ascii String List Bool Arith ZArith.
Import ListNotations.
From AM Require Import Lib.Bytes Lib.Regex Model.SshdProc Proofs.SshdGeneral.
From AM Require Import Gen.SshdDispatch Gen.SshdHandlers Model.SshdSketch Proofs.SshdHandlersTie.
Open Scope string_scope.
Open Scope list_scope.

(* For EVERY line, pid token, writer behaviour and hand-off outcome:
   at most one login is forwarded, and only after exactly one event was written, which
   succeeded, and the forwarded login's identity is that very event; a failed write returns the
   error and forwards nothing; a cancelled hand-off forwards nothing (and returns no error). *)
Theorem C05_forward_after_write : forall c tok line wok ready,
  let r := process c tok line wok ready in
  (r_ret r <> RetPanic /\ (wok = true -> r_ret r = RetOk) /\
   (r_ret r = RetWriteErr -> wok = false /\ r_forwards r = [] /\ length (r_writes r) = 1)) /\
  (length (r_writes r) <= 1 /\ length (r_forwards r) <= 1) /\
  (forall f, In f (r_forwards r) -> r_writes r = [f_src f] /\ ev_ok (f_src f) = true /\ wok = true /\ ready = true) /\
  (ready = false -> r_forwards r = []).
Proof. exact process_total_flat. Qed.
Print Assumptions C05_forward_after_write.

(* Only accepted public-key / password lines ever forward a login. *)
Theorem C05_only_accepted_forward : forall c tok line wok ready,
  r_forwards (process c tok line wok ready) <> [] ->
  has_prefix (s2l "Accepted publickey") line = true \/ has_prefix (s2l "Accepted password") line = true.
Proof. exact forward_needs_accept. Qed.
Print Assumptions C05_only_accepted_forward.

(* The forwarded login's pid is the line's pid token (as strconv.Atoi reads it), its identity
   is the written event, its credential user id is "unknown" or the certificate key id that
   the written event carries as userID. *)
Theorem C05_forward_content : forall c tok line wok ready f,
  In f (r_forwards (process c tok line wok ready)) ->
  atoi tok = Some (f_pid f) /\ r_writes (process c tok line wok ready) = [f_src f] /\
  (f_cred f = unknown \/ f_cred f = ev_user_id (f_src f)).
Proof. exact forward_content. Qed.
Print Assumptions C05_forward_content.

(* The positive direction (every accepted line over the C06 field domain with a positive
   decimal pid does write and forward) is C06's field theorem for accepted-password lines
   (Props/C06.v); for public-key / certificate lines it is C06_accepted_key / C06_accepted_cert
   (key ids with spaces, parentheses, "serial"; the one hypothesis on the key id, no_ssh_frag, is
   necessary: see there). *)

Example C05_example :
  let c := {| c_node := s2l "n"; c_mid := s2l "m" |} in
  let line := s2l "Accepted publickey for core from 127.0.0.1 port 666 ssh2: ED25519-CERT SHA256:qM6 ID sat@p.com (serial 1) CA ED25519 SHA256:Th" in
  map (fun f => (f_pid f, f_cred f)) (r_forwards (process c (s2l "4242") line true true)) = [(4242%Z, s2l "sat@p.com")]
  /\ r_forwards (process c (s2l "4242") line false true) = []
  /\ r_forwards (process c (s2l "4242") line true false) = []
  /\ r_forwards (process c (s2l "12a") line true true) = [].
Proof. vm_compute. repeat split; reflexivity. Qed.

(* ---------- the handlers of the model are the handlers of the source ----------
   Gen/SshdHandlers.v is REGENERATED on every run by symbolic evaluation of each handler's Go body
   (which capture group / constant / processor field feeds which event field, outcome, metric calls,
   whether and with which credential the login is handed on).  For the 18 handlers that have a
   sketch, the hand-written handler of Model/SshdProc.v IS the interpretation of that sketch; the
   two without a flat sketch (public key: three branches; invalid certificate: no regex) are covered
   by the decision-tree form below. *)
Theorem C05_handlers_from_source : forall h hs, handler_sketch h = Some hs ->
  forall c tok line wok ready, run_sketch hs c tok line wok ready = Some (run_handler h c tok line wok ready).
Proof. exact run_sketch_is_run_handler. Qed.
Print Assumptions C05_handlers_from_source.

Theorem C05_handlers_without_sketch : forall h, handler_sketch h = None ->
  h = h_processAcceptPublicKeyEntry \/ h = h_processCertificateInvalidEntry.
Proof. exact sketch_coverage. Qed.
Print Assumptions C05_handlers_without_sketch.

(* All 20 handlers: the hand-written handler IS the interpretation [run_generated] of the decision tree that
   go2v regenerates from the handler's Go body on every run (Gen/SshdHandlers.v: [handler_prog]); this
   includes the three-branch public-key handler (second regex on the rest of the line, slice start
   len(match)+1 with its panic guard) and the invalid-certificate handler (reason = line from the length
   of the prefix literal on, fallback text). *)
Theorem C05_all_handlers_from_source : forall h c tok line wok ready,
  run_generated h c tok line wok ready = Some (run_handler h c tok line wok ready).
Proof. exact all_handlers_from_source. Qed.
Print Assumptions C05_all_handlers_from_source.

(* ---------- one writer, one unbuffered hand-off channel: read from cmd/namedpipe.go ----------
   GENERATED on every run from RunNamedPipe: exactly one event writer is created, by
   auditevent.NewDefaultAuditEventWriter on the opened events file, and that one value is what both the
   sshd processor and the audit processor write to; exactly one logins channel is created, without a
   capacity, and both processors use it (a hand-off completes only when the correlator takes the login). *)
From AM Require Gen.OutputWiring.
Theorem C05_output_wiring_from_source : Gen.OutputWiring.output_wiring_ok = true.
Proof. vm_compute. reflexivity. Qed.
Print Assumptions C05_output_wiring_from_source.

(* ---------- what the ingester hands over is what the processor's entry point processes ----------
   Gen/EntryMetrics.v is REGENERATED on every run from SshdProcessorer.ProcessSshdLogEntry, the method the daemon calls
   for every line on its ONE long-lived processor: the body is a single call of ProcessEntry on a fresh per-line
   configuration whose result is returned; message and PID token are sm.Message / sm.PID UNCHANGED; the context is the
   caller's context parameter itself (no derived deadline: the hand-off ends only by delivery or by the caller's
   cancellation); login channel, event writer, metrics, node name and machine id are the processor's own.  Any other
   statement in that body (a guard with an early return, a loop, a defer, a derived context, a write to the
   processor) is not understood by the generator, the generated file no longer type-checks and these obligations
   re-open.  So [process c tok line wok ready] of the model is applied, once per call, to exactly the record handed over. *)
From AM Require Import Gen.EntryMetrics Model.EntryMetricsIR Proofs.EntryMetricsTie.
Theorem C05_entry_from_source : forall pid msg, entry_args gen_entry (pid, msg) = Some (pid, msg).
Proof. exact entry_from_source. Qed.
Print Assumptions C05_entry_from_source.

Theorem C05_entry_context_is_callers : en_lookup "ctx" (en_config gen_entry) = Some FromCtxParam.
Proof. exact entry_context_is_callers. Qed.
Print Assumptions C05_entry_context_is_callers.

Theorem C05_entry_single_call :
  en_callee gen_entry = "ProcessEntry" /\ en_result_returned gen_entry = true /\
  map fst (en_config gen_entry) = ["ctx"; "logins"; "logEntry"; "nodeName"; "machineID"; "when"; "pid"; "eventW"; "metrics"] /\
  en_lookup "when" (en_config gen_entry) = Some FromTimeNow.
Proof. exact entry_single_call. Qed.
Print Assumptions C05_entry_single_call.

Theorem C05_entry_inherits_processor_fields :
  en_inherited gen_entry ["logins"; "nodeName"; "machineID"; "eventW"; "metrics"] = true.
Proof. exact entry_inherits_processor_fields. Qed.
Print Assumptions C05_entry_inherits_processor_fields.

(* The long-lived processor (struct SshdProcessorer, NewSshdProcessor; regenerated on every run) has no field beyond
   those the per-line configuration sets afresh for every line, is built by a single return of that struct from the
   constructor's parameters, and is the only implementation of the entry point in its package: no state is carried
   from one line to the next, so identical lines (sshd prints them: every wrong password on one connection) are
   processed identically. *)
Theorem C05_processor_keeps_no_state :
  ct_fields gen_constructor = map fst (en_config gen_entry) /\
  ct_entry_impls gen_constructor = ["SshdProcessorer"] /\
  ct_result gen_constructor = "SshdProcessor" /\
  map fst (ct_inits gen_constructor) = ["ctx"; "logins"; "nodeName"; "machineID"; "eventW"; "metrics"].
Proof. exact processor_keeps_no_state. Qed.
Print Assumptions C05_processor_keeps_no_state.

(* ---------- the message the processor is given is the syslog line's own text ----------
   Gen/PureFuncs.v is REGENERATED on every run by translating the Go bodies of SyslogIngester.ParseSyslogMessage and of
   the argument preparation in SyslogIngester.Process into Gallina over executable models of the strings package
   (Lib/GoStrings.v; None = the operation panics).  The hand-written [parse] / [process_line] of Model/Syslog.v ARE those
   translations, for every line: the record is split at the first blank run after the PID token and nothing in the
   message is collapsed, decoded, unescaped or otherwise rewritten on its way to the processor (a call of any function
   the translator does not know makes the generated file ill-typed and re-opens these obligations). *)
From AM Require Import Lib.GoStrings Gen.PureFuncs Proofs.PureFuncsTie Model.Syslog.
Theorem C05_parse_from_source : forall e,
  option_map entry_pair (gen_parse_syslog_message e) = Some (Syslog.parse e).
Proof. exact parse_syslog_from_source_pair. Qed.
Print Assumptions C05_parse_from_source.

Theorem C05_process_line_from_source : forall line,
  option_map entry_pair (gen_process_line line) = Some (process_line line).
Proof. exact process_line_from_source. Qed.
Print Assumptions C05_process_line_from_source.


(* ====================================================================================================
   What arrives on the pipes is what the processors are handed (round 7).
   C05 is a statement about what the DAEMON emits for the records written to its pipes; the theorems above
   start at the record the processor is handed.  The reader between the two - NamedPipeIngester.Ingest, the
   wrappers of the two ingesters and their Process callbacks - is regenerated into Gen/IngestProg.v on every
   run; the statements below (proved in Proofs/IngestIRTie.v, restated here so that they are obligations of
   C05) say that for every chunking of the pipe's byte stream each newline-terminated record is handed to
   the callback exactly once, in order, with exactly its bytes (Model/Framing.v [ingest], about which C12's
   theorems are proved), that the pipe is opened read-only (so the last writer's close is end-of-stream and an
   unterminated tail is never joined to a later writer's bytes), and what the callback does with the
   record.  Any edit of the reader changes the generated program and these stop checking.
   ==================================================================================================== *)
From Coq Require Import Ascii String List.
From AM Require Import Model.Framing Model.IngestIR Gen.IngestProg Proofs.IngestIRTie.
Import ListNotations.
Open Scope string_scope.
Open Scope list_scope.
Open Scope nat_scope.

Theorem C05_records_reach_processor_unchanged : forall cs cb,
  run_ingest gen_Ingest cs (ascii_of_nat (wr_delim gen_auditlog_Ingest)) cb = Some (ingest cs newline cb) /\
  run_ingest gen_Ingest cs (ascii_of_nat (wr_delim gen_syslog_Ingest)) cb = Some (ingest cs newline cb).
Proof. exact wrapped_ingest_from_source. Qed.
Print Assumptions C05_records_reach_processor_unchanged.

(* the reader's statements: ReadString with the caller's delimiter, the line handed on as it was read *)
Theorem C05_pipe_reader_loop_from_source :
  ip_loop gen_Ingest = [
    IReadString "line" "err" DParam;
    IIf (CErrNotNil "err") [ILog "Errorf"; IReturn (EVar "err")] [];
    ICallback (TAssign "err") (SVar "line");
    IIf (CErrNotNil "err") [IReturn (EVar "err")] []].
Proof. exact loop_shape_from_source. Qed.
Print Assumptions C05_pipe_reader_loop_from_source.

(* the set-up: read-only open in a goroutine with a cancellable wait, errors returned unchanged, the file closed
   on cancellation and on return, the reader reads that file *)
Theorem C05_pipe_open_from_source :
  (exists i j, index_of is_onready (ip_setup gen_Ingest) = Some i /\
               index_of is_open (ip_setup gen_Ingest) = Some j /\ i < j) /\
  In (SOnReady "named-pipe-processor") (ip_setup gen_Ingest) /\
  In (SGoOpen "file" "err" ["O_RDONLY"] "ModeNamedPipe" "ready") (ip_setup gen_Ingest) /\
  In (SSelect [SArmDone ECtxErr; SArmRecv "ready"]) (ip_setup gen_Ingest) /\
  open_is_cancellable (ip_setup gen_Ingest) = true /\
  In (SIfErrReturn "err" (EVar "err")) (ip_setup gen_Ingest) /\
  In (SGoCloseOnCancel "file") (ip_setup gen_Ingest) /\
  read_is_cancellable (ip_setup gen_Ingest) = true /\
  In (SDeferClose "file") (ip_setup gen_Ingest) /\
  In (SNewReader "r" "file") (ip_setup gen_Ingest).
Proof. exact setup_from_source. Qed.
Print Assumptions C05_pipe_open_from_source.

(* sshd pipe: the callback removes exactly one trailing newline, the rest goes to ParseSyslogMessage and on to
   SshdProcessor.ProcessSshdLogEntry, whose error is returned unchanged; for a record as Ingest delivers it
   that is the record's body *)
Theorem C05_sshd_record_reaches_processor :
  gen_syslog_Process =
  {| pr_line := "line";
     pr_body := PParseAndProcess "ParseSyslogMessage" (STrimLit [10] (SVar "line"))
                                 "SshdProcessor" "ProcessSshdLogEntry" |} /\
  forall b, trim_suffix (map ascii_of_nat [10]) (b ++ [newline]) = b.
Proof. exact (conj syslog_process_from_source syslog_process_gets_body). Qed.
Print Assumptions C05_sshd_record_reaches_processor.
