(* C18 — Readiness is reported only when every registered component is ready.
   This file contains only the property statements; every proof is one [exact]. *)
From Coq Require Import List Arith Bool.
Import ListNotations.
From AM Require Import Model.Health Proofs.HealthLemmas.
From AM Require Import Model.HealthIR Gen.HealthProg Proofs.HealthIRTie.
From AM Require Gen.SyncMapLocks Proofs.SyncMapLemmas.

(* For every sequence of registrations and ready-marks, at every point
   (ops is any prefix): the answer is 200/ok exactly when every registered name's
   last operation is a ready-mark, 503/not-ready otherwise; the body lists exactly
   the touched names with their current status; overall = conjunction of listed. *)
Theorem C18_iff : forall ops : list hop,
  let m := status_of (hrun ops) in
  ((st_code m = 200 /\ st_overall m = true) <->
     (forall n, In (HAdd n) ops -> last_touch n ops = Some true)) /\
  ((st_code m = 503 /\ st_overall m = false) <->
     (exists n, In (HAdd n) ops /\ last_touch n ops = Some false)) /\
  (forall n, lookup n (st_comps m) = last_touch n ops) /\
  NoDup (keys (st_comps m)) /\
  (st_overall m = true <-> forall n v, In (n, v) (st_comps m) -> v = true) /\
  is_ready (hrun ops) = st_overall m.
Proof. exact health_iff. Qed.
Print Assumptions C18_iff.

(* A status request interleaved at lock granularity with any concurrent
   registrations / ready-marks answers with the map as of its Iterate critical
   section, and the answer is internally consistent. *)
Theorem C18_snapshot : forall pre mid post : list sev,
  no_req pre -> no_req mid -> no_req post ->
  let ans := snd (exec_req (pre ++ EvLen :: mid ++ EvIter :: post) [] None) in
  ans = Some (status_of (hrun (ev_ops pre ++ ev_ops mid))) /\
  (forall m, ans = Some m ->
     (st_overall m = true <-> forall n v, In (n, v) (st_comps m) -> v = true) /\
     (st_code m = 200 <-> st_overall m = true) /\ (st_code m = 503 <-> st_overall m = false)).
Proof. exact health_snapshot. Qed.
Print Assumptions C18_snapshot.

(* Waiting completes only at a poll where readiness held and no cancellation was
   taken before; it yields the context error iff cancellation is taken first. *)
Theorem C18_wait : forall evs : list wev,
  (wait_run evs = WClosed <->
     exists pre s post, evs = pre ++ WTick s :: post /\ is_ready s = true /\
       forall e, In e pre -> exists s', e = WTick s' /\ is_ready s' = false) /\
  (wait_run evs = WErr <->
     exists pre post, evs = pre ++ WCancel :: post /\
       forall e, In e pre -> exists s', e = WTick s' /\ is_ready s' = false).
Proof. exact health_wait. Qed.
Print Assumptions C18_wait.

(* Non-vacuity: a history with re-registration; both outcomes occur. *)
Example C18_example_not_ready :
  st_code (status_of (hrun [HAdd 1; HAdd 2; HReady 1; HReady 2; HAdd 1])) = 503.
Proof. reflexivity. Qed.
Example C18_example_ready :
  st_code (status_of (hrun [HAdd 1; HAdd 2; HReady 1; HReady 2; HAdd 1; HReady 1])) = 200.
Proof. reflexivity. Qed.

(* GENERATED from internal/common/genericsyncmap.go and every call site in the module: each method of
   the shared map is one critical section on the map's single mutex (Lock; defer Unlock; nothing else
   touches the mutex), except the ones named ...Unsafe, and every call of those happens inside a
   locked callback (Iterate / WithLockedValueDo) of the same map or inside a locked method.  This is
   the "one map call = one atomic block" granularity the model of Health uses. *)
Theorem C18_syncmap_methods_atomic : Gen.SyncMapLocks.syncmap_single_mutex = true /\
  forall m b, In (m, b) Gen.SyncMapLocks.syncmap_api -> b = true \/ Gen.SyncMapLocks.ends_with_unsafe m = true.
Proof. exact Proofs.SyncMapLemmas.syncmap_methods_atomic. Qed.
Print Assumptions C18_syncmap_methods_atomic.

Theorem C18_syncmap_unsafe_calls_hold_lock : forall site m b,
  In (site, m, b) Gen.SyncMapLocks.syncmap_unsafe_calls -> b = true.
Proof. exact Proofs.SyncMapLemmas.syncmap_unsafe_calls_hold_lock. Qed.
Print Assumptions C18_syncmap_unsafe_calls_hold_lock.

(* ---------- the model is the interpretation of the source ----------
   Gen/HealthProg.v is REGENERATED on every run by evaluating the AST of internal/health/health.go
   (AddReadiness, OnReady, IsReady, GetReadyzStatusMap, readyzHandler, WaitForReady; constants and HTTP
   status codes resolved from the sources; which GenericSyncMap method is called, and in which order,
   is part of the generated data).  For ALL states: the generated AddReadiness / OnReady are [hstep];
   the generated IsReady is [is_ready]; the generated status request answers [status_of] of the map as it
   is at its second critical section, and consists of exactly the critical sections Len, Iterate (the
   overall flag is computed inside that one Iterate: the shape [exec_req] and C18_snapshot rest on);
   the generated WaitForReady loop is [wait_run]. *)
Theorem C18_health_from_source :
  (forall s o, run_method gen_IsReady (gen_method o) (op_name o) s = Some (hstep s o)) /\
  (forall s, eval_is_ready gen_IsReady s = Some (is_ready s)) /\
  (forall s, eval_status gen_IsReady gen_GetReadyzStatusMap gen_readyzHandler s = Some (status_of s)) /\
  (forall interf s,
     eval_request interf gen_IsReady gen_GetReadyzStatusMap gen_readyzHandler s =
     Some (status_of (interf 1 (interf 0 s)), [SecLen; SecIter])) /\
  secs_as_events [SecLen; SecIter] = Some [EvLen; EvIter] /\
  (forall evs, eval_wait gen_IsReady gen_WaitForReady evs = Some (wait_run evs)).
Proof. exact health_from_source. Qed.
Print Assumptions C18_health_from_source.

(* only these methods touch the readiness map, and the map methods they rely on have the assumed meaning *)
Module C18MapUsers.
Import Coq.Strings.String.
Theorem C18_map_users_from_source :
  gen_NewHealth = InitEmptyMap /\
  gen_map_users = ["NewHealth"; "AddReadiness"; "OnReady"; "IsReady"; "GetReadyzStatusMap"]%string.
Proof. exact map_users_from_source. Qed.
Print Assumptions C18_map_users_from_source.
End C18MapUsers.

(* ================= the daemon's readiness wiring, read from the source =================
   Gen/DaemonWiring.v is REGENERATED on every run (tools/go2v/wiringgen.go) by evaluating the AST of
   cmd/namedpipe.go (RunNamedPipe), main.go and what they reach: the top-level start-up order of RunNamedPipe —
   h.AddReadiness(<name>) registrations and eg.Go(<worker>) starts, names resolved through the constants —; for
   every worker the health object it ends up with (followed through the constructors' fields) and the names it
   marks (OnReady calls reached from its entry method, through fields and method values); every other
   AddReadiness / OnReady call site of the module. *)
From AM Require Gen.DaemonWiring Proofs.DaemonWiringLemmas.
Module C18Daemon.
Import Coq.Strings.String.
Import AM.Gen.DaemonWiring AM.Proofs.DaemonWiringLemmas.
Open Scope string_scope.
Open Scope list_scope.

(* the obligations on the generated data: registrations and workers alternate, each registration immediately
   followed by the start of a worker that marks that name;
   every registered name is marked by some worker and every marked name is registered; every worker marks on
   RunNamedPipe's own health object, in a top-level statement, and registers nothing; nothing else in the module
   registers or marks; main.go builds the health object with health.NewHealth (empty map, C18_map_users_from_source) *)
Theorem C18_readiness_wiring_from_source : readiness_wiring_ok = true.
Proof. exact readiness_wiring_from_source. Qed.
Print Assumptions C18_readiness_wiring_from_source.

(* General (any names): whatever happened before, after a series of marks readiness holds iff every name ever
   registered is among those marks or had already been marked after its last registration. *)
Theorem C18_ready_after_marks : forall (pre : list hop) (marks : list name),
  is_ready (hrun (pre ++ map HReady marks)) = true <->
  forall n, In (HAdd n) pre -> In n marks \/ last_touch n pre = Some true.
Proof. exact ready_after_marks. Qed.
Print Assumptions C18_ready_after_marks.

(* After the registrations (repetitions allowed), then marks: readiness iff every registered NAME has been marked. *)
Theorem C18_ready_after_registrations : forall (regs marks : list name),
  is_ready (hrun (map HAdd regs ++ map HReady marks)) = true <-> forall n, In n regs -> In n marks.
Proof. exact ready_after_regs. Qed.
Print Assumptions C18_ready_after_registrations.

(* With the GENERATED registrations and marking sets: after RunNamedPipe's registrations, once the workers [ws]
   (any list of worker names) have marked, readiness is reported iff every registered name is marked by one of them. *)
Theorem C18_daemon_ready_iff : forall ws : list string,
  is_ready (hrun (daemon_ops ws)) = true <->
  forall n, In n readiness_registrations -> exists w, In w ws /\ In n (marks_of w).
Proof. exact daemon_ready_iff. Qed.
Print Assumptions C18_daemon_ready_iff.

(* OBSERVATION (stated, not hidden): "named-pipe-processor" is registered TWICE — once before each pipe ingester —
   and marked by BOTH ingesters; the readiness map is keyed by name, so the two registrations are one entry.  With
   the data as generated from the current source, readiness is reported iff the audit processor has marked and AT
   LEAST ONE of the two pipe ingesters has.  C18 speaks of registered component NAMES ("reported only when every
   registered component is ready"): every registered name is then marked, so this is not a violation of C18 as
   stated; but "ready" does not mean that both pipes are being read. *)
Theorem C18_daemon_ready_needs : forall ws : list string,
  is_ready (hrun (daemon_ops ws)) = true <->
  (In "audit_processor" ws /\ (In "sshd_ingester" ws \/ In "audit_ingester" ws)).
Proof. exact daemon_ready_needs. Qed.
Print Assumptions C18_daemon_ready_needs.

(* readiness reported with only ONE of the two pipe ingesters ready (either one) *)
Example C18_ready_with_one_pipe_ingester :
  readiness_registrations = ["named-pipe-processor"; "named-pipe-processor"; "auditd-processor"] /\
  worker_marks = [("sshd_ingester", ["named-pipe-processor"]); ("audit_ingester", ["named-pipe-processor"]);
                  ("audit_processor", ["auditd-processor"])] /\
  st_code (status_of (hrun (daemon_ops ["sshd_ingester"; "audit_processor"]))) = 200 /\
  st_code (status_of (hrun (daemon_ops ["audit_ingester"; "audit_processor"]))) = 200 /\
  st_comps (status_of (hrun (daemon_ops ["audit_ingester"; "audit_processor"])))
    = [(intern "auditd-processor", true); (intern "named-pipe-processor", true)] /\
  st_code (status_of (hrun (daemon_ops ["sshd_ingester"; "audit_ingester"]))) = 503 /\
  st_code (status_of (hrun (daemon_ops ["audit_processor"]))) = 503.
Proof. vm_compute. repeat split; reflexivity. Qed.

(* Two further consequences of the generated START-UP ORDER (registrations and worker starts alternate, so a
   worker runs while later registrations are still to come).  Both are within C18 as stated (at each instant
   every name registered SO FAR is marked), and both are reported:
   (1) after the first registration and the first worker's mark, a request sees "ready" although the other two
       registrations have not been made yet;
   (2) a mark made by the first ingester before the second registration of the same name is RESET by that
       registration (Store(name, false)); the ingester marks only once, so from then on "named-pipe-processor"
       depends on the audit ingester alone. *)
Example C18_startup_order_consequences :
  let ops_of i := match i with SReg n => reg_ops [n] | SGo _ => [] end in
  startup_sequence = [SReg "named-pipe-processor"; SGo "sshd_ingester"; SReg "named-pipe-processor"; SGo "audit_ingester";
                      SReg "auditd-processor"; SGo "audit_processor"] /\
  (* (1) *)
  st_code (status_of (hrun (flat_map ops_of (firstn 2 startup_sequence) ++ mark_ops (marks_of "sshd_ingester")))) = 200 /\
  (* (2) *)
  let early := flat_map ops_of (firstn 2 startup_sequence) ++ mark_ops (marks_of "sshd_ingester")
               ++ flat_map ops_of (skipn 2 startup_sequence) ++ mark_ops (marks_of "audit_processor") in
  st_code (status_of (hrun early)) = 503 /\
  st_code (status_of (hrun (early ++ mark_ops (marks_of "audit_ingester")))) = 200.
Proof. vm_compute. repeat split; reflexivity. Qed.
End C18Daemon.

(* ---------- the endpoint itself: cmd/cmd.go, read from the source ----------
   Gen/OptWorkers.v is REGENERATED on every run from handleMetricsAndHealth.  For EVERY valuation of the flags:
   /readyz is registered exactly when -healthz is given, and the handler registered for it is the ReadyzHandler of
   the function's own *health.Health parameter (RunNamedPipe passes its health object: Gen/DaemonWiring.v,
   health_readers); nothing else is registered besides /metrics under -metrics. *)
From Coq Require Import String.
From AM Require Import Model.WorkerWiring Model.OptWorkers Gen.OptWorkers Proofs.OptWorkersTie.
Theorem C18_endpoint_from_source : forall fl : flags,
  option_map handles (effects fl gen_handleMetricsAndHealth) =
  Some (((if fl "enableMetrics"%string then [(WStr "/metrics", WCall "promhttp.Handler" [])] else []) ++
         (if fl "enableHealthz"%string then [(WStr "/readyz", WMethod (WVar "h") "ReadyzHandler" [])] else []))%list).
Proof. exact endpoints_from_source. Qed.
Print Assumptions C18_endpoint_from_source.

Theorem C18_endpoint_health_is_parameter :
  In ("h"%string, "*health.Health"%string) (of_params gen_handleMetricsAndHealth) /\
  In ("eg"%string, "*errgroup.Group"%string) (of_params gen_handleMetricsAndHealth) /\
  In ("ctx"%string, "context.Context"%string) (of_params gen_handleMetricsAndHealth).
Proof. exact readyz_health_is_parameter. Qed.
Print Assumptions C18_endpoint_health_is_parameter.
