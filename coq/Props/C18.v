(* C18 — Readiness is reported only when every registered component is ready.
   This file contains only the property statements; every proof is one [exact]. *)
From Coq Require Import List Arith Bool.
Import ListNotations.
From AM Require Import Model.Health Proofs.HealthLemmas.
From AM Require Import Model.HealthIR Gen.HealthProg Proofs.HealthIRTie.
From AM Require Gen.SyncMapLocks Proofs.SyncMapLemmas.

(* For every sequence of registrations and ready-marks, at every point
   (ops is any prefix): the answer is 200/ok exactly when every registered name's
   last operation is a ready-mark, 503/not-ready otherwise; the body lists exactly
   the touched names with their current status; overall = conjunction of listed. *)
Theorem C18_iff : forall ops : list hop,
  let m := status_of (hrun ops) in
  ((st_code m = 200 /\ st_overall m = true) <->
     (forall n, In (HAdd n) ops -> last_touch n ops = Some true)) /\
  ((st_code m = 503 /\ st_overall m = false) <->
     (exists n, In (HAdd n) ops /\ last_touch n ops = Some false)) /\
  (forall n, lookup n (st_comps m) = last_touch n ops) /\
  NoDup (keys (st_comps m)) /\
  (st_overall m = true <-> forall n v, In (n, v) (st_comps m) -> v = true) /\
  is_ready (hrun ops) = st_overall m.
Proof. exact health_iff. Qed.
Print Assumptions C18_iff.

(* A status request interleaved at lock granularity with any concurrent
   registrations / ready-marks answers with the map as of its Iterate critical
   section, and the answer is internally consistent. *)
Theorem C18_snapshot : forall pre mid post : list sev,
  no_req pre -> no_req mid -> no_req post ->
  let ans := snd (exec_req (pre ++ EvLen :: mid ++ EvIter :: post) [] None) in
  ans = Some (status_of (hrun (ev_ops pre ++ ev_ops mid))) /\
  (forall m, ans = Some m ->
     (st_overall m = true <-> forall n v, In (n, v) (st_comps m) -> v = true) /\
     (st_code m = 200 <-> st_overall m = true) /\ (st_code m = 503 <-> st_overall m = false)).
Proof. exact health_snapshot. Qed.
Print Assumptions C18_snapshot.

(* Waiting completes only at a poll where readiness held and no cancellation was
   taken before; it yields the context error iff cancellation is taken first. *)
Theorem C18_wait : forall evs : list wev,
  (wait_run evs = WClosed <->
     exists pre s post, evs = pre ++ WTick s :: post /\ is_ready s = true /\
       forall e, In e pre -> exists s', e = WTick s' /\ is_ready s' = false) /\
  (wait_run evs = WErr <->
     exists pre post, evs = pre ++ WCancel :: post /\
       forall e, In e pre -> exists s', e = WTick s' /\ is_ready s' = false).
Proof. exact health_wait. Qed.
Print Assumptions C18_wait.

(* Non-vacuity: a history with re-registration; both outcomes occur. *)
Example C18_example_not_ready :
  st_code (status_of (hrun [HAdd 1; HAdd 2; HReady 1; HReady 2; HAdd 1])) = 503.
Proof. reflexivity. Qed.
Example C18_example_ready :
  st_code (status_of (hrun [HAdd 1; HAdd 2; HReady 1; HReady 2; HAdd 1; HReady 1])) = 200.
Proof. reflexivity. Qed.

(* GENERATED from internal/common/genericsyncmap.go and every call site in the module: each method of
   the shared map is one critical section on the map's single mutex (Lock; defer Unlock; nothing else
   touches the mutex), except the ones named ...Unsafe, and every call of those happens inside a
   locked callback (Iterate / WithLockedValueDo) of the same map or inside a locked method.  This is
   the "one map call = one atomic block" granularity the model of Health uses. *)
Theorem C18_syncmap_methods_atomic : Gen.SyncMapLocks.syncmap_single_mutex = true /\
  forall m b, In (m, b) Gen.SyncMapLocks.syncmap_api -> b = true \/ Gen.SyncMapLocks.ends_with_unsafe m = true.
Proof. exact Proofs.SyncMapLemmas.syncmap_methods_atomic. Qed.
Print Assumptions C18_syncmap_methods_atomic.

Theorem C18_syncmap_unsafe_calls_hold_lock : forall site m b,
  In (site, m, b) Gen.SyncMapLocks.syncmap_unsafe_calls -> b = true.
Proof. exact Proofs.SyncMapLemmas.syncmap_unsafe_calls_hold_lock. Qed.
Print Assumptions C18_syncmap_unsafe_calls_hold_lock.

(* ---------- the model is the interpretation of the source ----------
   Gen/HealthProg.v is REGENERATED on every run by evaluating the AST of internal/health/health.go
   (AddReadiness, OnReady, IsReady, GetReadyzStatusMap, readyzHandler, WaitForReady; constants and HTTP
   status codes resolved from the sources; which GenericSyncMap method is called, and in which order,
   is part of the generated data).  For ALL states: the generated AddReadiness / OnReady are [hstep];
   the generated IsReady is [is_ready]; the generated status request answers [status_of] of the map as it
   is at its second critical section, and consists of exactly the critical sections Len, Iterate (the
   overall flag is computed inside that one Iterate: the shape [exec_req] and C18_snapshot rest on);
   the generated WaitForReady loop is [wait_run]. *)
Theorem C18_health_from_source :
  (forall s o, run_method gen_IsReady (gen_method o) (op_name o) s = Some (hstep s o)) /\
  (forall s, eval_is_ready gen_IsReady s = Some (is_ready s)) /\
  (forall s, eval_status gen_IsReady gen_GetReadyzStatusMap gen_readyzHandler s = Some (status_of s)) /\
  (forall interf s,
     eval_request interf gen_IsReady gen_GetReadyzStatusMap gen_readyzHandler s =
     Some (status_of (interf 1 (interf 0 s)), [SecLen; SecIter])) /\
  secs_as_events [SecLen; SecIter] = Some [EvLen; EvIter] /\
  (forall evs, eval_wait gen_IsReady gen_WaitForReady evs = Some (wait_run evs)).
Proof. exact health_from_source. Qed.
Print Assumptions C18_health_from_source.

(* only these methods touch the readiness map, and the map methods they rely on have the assumed meaning *)
Module C18MapUsers.
Import Coq.Strings.String.
Theorem C18_map_users_from_source :
  gen_NewHealth = InitEmptyMap /\
  gen_map_users = ["NewHealth"; "AddReadiness"; "OnReady"; "IsReady"; "GetReadyzStatusMap"]%string.
Proof. exact map_users_from_source. Qed.
Print Assumptions C18_map_users_from_source.
End C18MapUsers.
