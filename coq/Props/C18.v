(* C18 — Readiness is reported only when every registered component is ready.
   This file contains only the property statements; every proof is one [exact]. *)
From Coq Require Import List Arith Bool.
Import ListNotations.
From AM Require Import Model.Health Proofs.HealthLemmas.
From AM Require Gen.SyncMapLocks Proofs.SyncMapLemmas.

(* For every sequence of registrations and ready-marks, at every point
   (ops is any prefix): the answer is 200/ok exactly when every registered name's
   last operation is a ready-mark, 503/not-ready otherwise; the body lists exactly
   the touched names with their current status; overall = conjunction of listed. *)
Theorem C18_iff : forall ops : list hop,
  let m := status_of (hrun ops) in
  ((st_code m = 200 /\ st_overall m = true) <->
     (forall n, In (HAdd n) ops -> last_touch n ops = Some true)) /\
  ((st_code m = 503 /\ st_overall m = false) <->
     (exists n, In (HAdd n) ops /\ last_touch n ops = Some false)) /\
  (forall n, lookup n (st_comps m) = last_touch n ops) /\
  NoDup (keys (st_comps m)) /\
  (st_overall m = true <-> forall n v, In (n, v) (st_comps m) -> v = true) /\
  is_ready (hrun ops) = st_overall m.
Proof. exact health_iff. Qed.
Print Assumptions C18_iff.

(* A status request interleaved at lock granularity with any concurrent
   registrations / ready-marks answers with the map as of its Iterate critical
   section, and the answer is internally consistent. *)
Theorem C18_snapshot : forall pre mid post : list sev,
  no_req pre -> no_req mid -> no_req post ->
  let ans := snd (exec_req (pre ++ EvLen :: mid ++ EvIter :: post) [] None) in
  ans = Some (status_of (hrun (ev_ops pre ++ ev_ops mid))) /\
  (forall m, ans = Some m ->
     (st_overall m = true <-> forall n v, In (n, v) (st_comps m) -> v = true) /\
     (st_code m = 200 <-> st_overall m = true) /\ (st_code m = 503 <-> st_overall m = false)).
Proof. exact health_snapshot. Qed.
Print Assumptions C18_snapshot.

(* Waiting completes only at a poll where readiness held and no cancellation was
   taken before; it yields the context error iff cancellation is taken first. *)
Theorem C18_wait : forall evs : list wev,
  (wait_run evs = WClosed <->
     exists pre s post, evs = pre ++ WTick s :: post /\ is_ready s = true /\
       forall e, In e pre -> exists s', e = WTick s' /\ is_ready s' = false) /\
  (wait_run evs = WErr <->
     exists pre post, evs = pre ++ WCancel :: post /\
       forall e, In e pre -> exists s', e = WTick s' /\ is_ready s' = false).
Proof. exact health_wait. Qed.
Print Assumptions C18_wait.

(* Non-vacuity: a history with re-registration; both outcomes occur. *)
Example C18_example_not_ready :
  st_code (status_of (hrun [HAdd 1; HAdd 2; HReady 1; HReady 2; HAdd 1])) = 503.
Proof. reflexivity. Qed.
Example C18_example_ready :
  st_code (status_of (hrun [HAdd 1; HAdd 2; HReady 1; HReady 2; HAdd 1; HReady 1])) = 200.
Proof. reflexivity. Qed.

(* GENERATED from internal/common/genericsyncmap.go and every call site in the module: each method of
   the shared map is one critical section on the map's single mutex (Lock; defer Unlock; nothing else
   touches the mutex), except the ones named ...Unsafe, and every call of those happens inside a
   locked callback (Iterate / WithLockedValueDo) of the same map or inside a locked method.  This is
   the "one map call = one atomic block" granularity the model of Health uses. *)
Theorem C18_syncmap_methods_atomic : Gen.SyncMapLocks.syncmap_single_mutex = true /\
  forall m b, In (m, b) Gen.SyncMapLocks.syncmap_api -> b = true \/ Gen.SyncMapLocks.ends_with_unsafe m = true.
Proof. exact Proofs.SyncMapLemmas.syncmap_methods_atomic. Qed.
Print Assumptions C18_syncmap_methods_atomic.

Theorem C18_syncmap_unsafe_calls_hold_lock : forall site m b,
  In (site, m, b) Gen.SyncMapLocks.syncmap_unsafe_calls -> b = true.
Proof. exact Proofs.SyncMapLemmas.syncmap_unsafe_calls_hold_lock. Qed.
Print Assumptions C18_syncmap_unsafe_calls_hold_lock.
