(* C13 — Workers stop promptly on cancellation in every state, including back-pressure. *)
From Coq Require Import String List Bool Arith.
Import ListNotations.
From AM Require Gen.Blocking.
From AM Require Import Model.Workers Proofs.WorkersLemmas.
Open Scope string_scope.

(* The obligation generated from the CURRENT source (Gen/Blocking.v is regenerated from
   /repo on every run): every blocking operation of every worker is guarded by the context,
   and every helper goroutine that can deliver downstream is joined by its parent.
   Decided by computation on the finite table. *)
(* for the log: the rows / helpers of the current source that break the obligation (expected: none) *)
Eval vm_compute in
  (map (fun r => (Gen.Blocking.r_worker r, Gen.Blocking.r_func r, Gen.Blocking.r_obj r))
       (filter (fun r => negb (row_guarded r)) Gen.Blocking.blocking_rows),
   map (fun h => (Gen.Blocking.h_worker h, Gen.Blocking.h_parent h, Gen.Blocking.h_name h))
       (filter (fun h => negb (helper_ok h)) Gen.Blocking.helper_rows)).

Theorem C13_rows_guarded :
  forallb row_guarded Gen.Blocking.blocking_rows = true /\
  forallb helper_ok Gen.Blocking.helper_rows = true.
Proof. vm_compute. split; reflexivity. Qed.
Print Assumptions C13_rows_guarded.

(* a worker of the daemon, as described by the generated table *)
Definition worker (name : string) : wdesc :=
  wdesc_of Gen.Blocking.blocking_rows Gen.Blocking.helper_rows name.

(* For every worker, every budget K of lost select races, every reachable state w (running,
   or blocked at ANY row of the table: waiting for the FIFO to be opened, reading an idle pipe,
   handing a login to the correlator, handing a line downstream with a full buffer, ...):
   after Cancel every fair run has returned within cancel_bound K = 2K+4 rounds, and once the
   worker function has returned nothing is delivered any more, neither by it nor by a
   goroutine it started. *)
Theorem C13_cancel_responsive : forall K name w, wreach K (worker name) w ->
  (forall n tr w', cancel_bound K <= n -> wrounds (worker name) true n w tr w' ->
     is_returned (ws_main w') = true) /\
  (is_returned (ws_main w) = true ->
     forall cn sch tr w', wexec (worker name) cn w sch tr w' ->
       ~ In Deliver tr /\ ws_main w' = ws_main w).
Proof. exact (cancel_responsive_table _ _ C13_rows_guarded). Qed.
Print Assumptions C13_cancel_responsive.

(* What the hypothesis buys: in the same model an unguarded row lets a cancelled worker stay
   blocked through any number of fair rounds (the bare channel send), and an unjoined delivering
   helper delivers after its parent has returned (Read / parseAuditLogs). *)
Theorem C13_unguarded_hangs : forall name rows r b n, row_guarded r = false ->
  exists tr w', wrounds (mkWdesc name rows []) true n (mkWst (BlockedAt r b) []) tr w' /\
                ws_main w' = BlockedAt r b.
Proof. exact unguarded_hangs_simple. Qed.
Print Assumptions C13_unguarded_hangs.

Theorem C13_unjoined_delivers : forall name rows hname hrows r (b : nat), In r hrows ->
  let d := mkWdesc name rows [mkHdesc hname hrows true false] in
  exists w, is_returned (ws_main w) = true /\
    exists tr w', wexec d true w [Some 0] tr w' /\ In Deliver tr.
Proof. exact unjoined_delivers_after_return. Qed.
Print Assumptions C13_unjoined_delivers.

(* Non-vacuity: the table covers the three workers started by cmd/namedpipe.go, each with at
   least one blocking row; the audit processor has its delivering helper; and the back-pressure
   state (audit ingester blocked in AuditLogIngester.Process) is a reachable state of the model. *)
Example C13_table_nonempty :
  forallb (fun n => Nat.leb 1 (length (wd_rows (worker n)))) Gen.Blocking.group_workers = true /\
  existsb (fun h => String.eqb (hd_name h) "parseAuditLogs" && hd_delivers h)
          (wd_helpers (worker "audit_processor")) = true /\
  existsb (fun r => String.eqb (Gen.Blocking.r_func r) "AuditLogIngester.Process") (wd_rows (worker "audit_ingester")) = true.
Proof. vm_compute. repeat split; reflexivity. Qed.

Example C13_every_blocked_state_reachable : forall K name r, In r (wd_rows (worker name)) ->
  wreach K (worker name) (mkWst (BlockedAt r K) (map (fun _ => Running K) (wd_helpers (worker name)))).
Proof. intros; apply blocked_reachable; assumption. Qed.

(* ---------- the cancellation idioms of the pipe ingester, read from the source a second time ----------
   Independently of Gen/Blocking.v, Gen/IngestProg.v (regenerated on every run from
   NamedPipeIngester.Ingest) records the set-up of Ingest as data: readiness is reported before the
   blocking open; the open runs in a goroutine and is awaited in a select with a ctx.Done arm returning
   ctx.Err(); the close-on-cancel goroutine is started before the reader is created; the file is closed
   when Ingest returns. *)
From AM Require Import Model.IngestIR Gen.IngestProg Proofs.IngestIRTie.
Theorem C13_ingest_setup_from_source :
  open_is_cancellable (ip_setup gen_Ingest) = true /\ read_is_cancellable (ip_setup gen_Ingest) = true.
Proof. pose proof setup_from_source as H. tauto. Qed.
Print Assumptions C13_ingest_setup_from_source.

(* ---------- the audit processor's own shutdown, read from the source a second time ----------
   Independently of Gen/Blocking.v, Gen/AuditProg.v (regenerated on every run from Auditd.Read) is interpreted by
   Model/AuditIR.v, whose deferred-call semantics has NO meaning for a Read that is left before the parser
   goroutine was waited for, or that closes the reassembler before that.  So the equation below (its right-hand
   side is [Some ..]) says: on cancellation Read returns ctx.Err(), having cancelled the derived context the parser
   runs on and waited for the channel that goroutine closes on exit, and only then closed the reassembler
   (Model/AuditProc.v's [shutdown]) — for every state the cancellation finds it in. *)
From AM Require Model.AuditProc Model.AuditIR Gen.AuditProg Proofs.AuditIRTie.
Theorem C13_read_cancel_from_source :
  forall (line msg event cerr login AS : Type) (is_empty : line -> bool) (parse : line -> option msg)
         (mseq : msg -> BinNums.N) (mtype : msg -> nat) (coalesce : list msg -> option event) (old : event -> bool)
         (audit : AS -> event -> AS * option cerr) (rlogin : AS -> login -> AS * option cerr)
         (csess clogins : AS -> AuditIR.tmv -> AS) (dur : BinNums.Z -> nat)
         (b : bool) (p : AuditProc.pst line msg event cerr AS),
  AuditIR.read_arm_gen line msg event cerr login AS is_empty parse mseq mtype coalesce old audit rlogin csess clogins dur
                       AuditProg.gen_audit (AuditIR.EvCancel line login b) p =
  Some (p, AuditProc.RCancel line msg cerr,
        Some (AuditProc.shutdown line msg event cerr AS mseq mtype coalesce old audit
                (BinInt.Z.to_nat Gen.Consts.maxEventsInFlight) (dur Gen.Consts.eventTimeout_ns) p)).
Proof. exact AuditIRTie.read_arm_cancel_from_source. Qed.
Print Assumptions C13_read_cancel_from_source.

(* ---------- which context each worker watches: the closures of RunNamedPipe, read from the source ----------
   Gen/WorkerBodies.v is REGENERATED on every run from the three closures RunNamedPipe hands to eg.Go and from the
   constructors they call; Model/WorkerWiring.v normalises them (local variables substituted, constructors
   inlined).  Every worker's entry method (Ingest / Read) is called with the errgroup's context — the one that is
   cancelled when a sibling fails or the process is signalled — and the context stored in the sshd processor is that
   same context (not the process context, not a fresh one). *)
From AM Require Import Model.WorkerWiring Gen.WorkerBodies Proofs.WorkerWiringTie.
Theorem C13_worker_wiring_from_source : all_eq normalised expected = true.
Proof. exact worker_wiring_from_source. Qed.
Print Assumptions C13_worker_wiring_from_source.

Theorem C13_workers_run_on_group_context :
  forallb (fun i => match ret_of i with Some (WMethod _ _ [WVar "groupCtx"]) => true | _ => false end) [0; 1; 2] = true /\
  opt_weq (bind_opt (bind_opt (bind_opt (ret_of 0) recv_of) (field_of "SshdProcessor")) (field_of "ctx")) (WVar "groupCtx") = true /\
  resolve_shared gen_shared "groupCtx" = Some (WResult (WCall "errgroup.WithContext" [WVar "ctx"]) 1) /\
  resolve_shared gen_shared "eg" = Some (WResult (WCall "errgroup.WithContext" [WVar "ctx"]) 0).
Proof. exact workers_run_on_group_context. Qed.
Print Assumptions C13_workers_run_on_group_context.

(* the line buffer the audit ingester fills is the one the audit processor drains, with the generated capacity *)
Theorem C13_audit_line_buffer_wiring :
  opt_weq (bind_opt (bind_opt (ret_of 1) recv_of) (field_of "AuditLogChan")) (WVar "auditLogChan") = true /\
  opt_weq (bind_opt (bind_opt (ret_of 2) recv_of) (field_of "Audits")) (WVar "auditLogChan") = true /\
  resolve_shared gen_shared "auditLogChan" = Some (WMake "chan string" (Some (WInt Gen.Consts.auditLogChanBufSize))).
Proof. exact audit_line_buffer_wiring. Qed.
Print Assumptions C13_audit_line_buffer_wiring.

(* ================= how cancellation reaches the workers: the errgroup's derived context, as a machine =================
   The context every worker watches is the errgroup's (C13_workers_run_on_group_context).  Model/Errgroup.v is
   golang.org/x/sync/errgroup v0.4.0 with that context (context.WithCancelCause: first cancellation wins) as a concurrent
   small-step machine; see Props/C08.v for the machine as a whole.  Here: when and why that context is cancelled, for EVERY
   script (number of workers, what each worker function returns) and EVERY schedule. *)
From AM Require Import Model.Errgroup Proofs.ErrgroupLemmas.

(* a cancelled group context is never un-cancelled and keeps its cause, whatever runs afterwards *)
Theorem C13_errgroup_ctx_stable : forall sc sched c k,
  s_ctx (fst c) = Some k -> s_ctx (fst (run sc c sched)) = Some k.
Proof. exact ctx_stable. Qed.
Print Assumptions C13_errgroup_ctx_stable.

(* a cancellation of the parent (SIGTERM / SIGINT cancel the root context, C08_signals_from_source) cancels a live group
   context in that very step *)
Theorem C13_errgroup_parent_cancel_reaches : forall sc c,
  s_ctx (fst c) = None -> s_ctx (fst (step sc c TX)) = Some CParent.
Proof. exact parent_cancel_step. Qed.
Print Assumptions C13_errgroup_parent_cancel_reaches.

(* NO SPURIOUS CANCELLATION, and the cause: if the parent was cancelled at some point the group context is cancelled; and a
   cancelled group context carries
   - the parent's cause, and then the parent was cancelled; or
   - an error e: then g.err = e, and e is what the worker function of the goroutine that won the Once had returned; or
   - context.Canceled (cancel(nil)): then Wait has passed wg.Wait and every worker function returned nil. *)
Theorem C13_errgroup_ctx_cause : forall sc sched,
  let s := fst (exec sc sched) in let tr := snd (exec sc sched) in
  (In EvExt tr -> s_ctx s <> None) /\
  forall k, s_ctx s = Some k ->
  match k with
  | CParent => In EvExt tr
  | CErr e => s_err s = Some e /\
              exists j w, filter is_enter tr = [EvEnter j] /\ In (EvRet j (Some e)) tr /\
                          nth_error sc j = Some w /\ w_res w = Some e
  | CNil => passed_wait (s_c s) = true /\ In EvWaitPass tr /\ forall i w, nth_error sc i = Some w -> w_res w = None
  end.
Proof. exact ctx_cause. Qed.
Print Assumptions C13_errgroup_ctx_cause.

(* every cancel call made by a goroutine of the group comes after that goroutine's own worker function returned the error
   it cancels with *)
Theorem C13_errgroup_cancel_after_failure : forall sc sched i v l1 l2,
  snd (exec sc sched) = (l1 ++ EvCancel i v :: l2)%list -> exists e, v = Some e /\ In (EvRet i (Some e)) l2.
Proof. exact cancel_after_failure. Qed.
Print Assumptions C13_errgroup_cancel_after_failure.

(* BOUNDED-STEP cancellation.  Once a goroutine has entered the Once body (its worker function was the first to fail, in
   the order of entering errOnce.Do), the context is cancelled as soon as THAT goroutine has been scheduled twice more
   (g.err = err; g.cancel(g.err)) - nothing can block it there -, with that error as cause unless the parent's cancellation
   came first.  (From the failing function's return it is three steps of that goroutine: the entry of errOnce.Do comes first.) *)
Theorem C13_errgroup_cancel_two_steps : forall sc sched j e seg,
  s_g (fst (exec sc sched)) j = GB1 e -> 2 <= count_occ tid_eq_dec seg (TG j) ->
  s_ctx (fst (exec sc (sched ++ seg))) = Some (CErr e) \/ s_ctx (fst (exec sc (sched ++ seg))) = Some CParent.
Proof. exact cancel_two_steps. Qed.
Print Assumptions C13_errgroup_cancel_two_steps.

(* ... and under fairness: from ANY state of any execution in which some worker function has returned a non-nil error -
   whichever goroutine wins the Once, whoever is blocked on it -, three fair rounds leave the group context cancelled
   (a round = the caller and every goroutine of the group scheduled at least once; one round to get a failed goroutine
   into the Once, two for its two statements) *)
Theorem C13_errgroup_cancel_fair : forall sc sched i e c',
  g_ret (s_g (fst (exec sc sched)) i) = Some (Some e) -> erounds sc 3 (exec sc sched) c' -> s_ctx (fst c') <> None.
Proof. exact cancel_fair. Qed.
Print Assumptions C13_errgroup_cancel_fair.

(* concrete runs: three workers, the second fails with error 7 while the others wait for the context.  Before its
   cancel statement the context is live and the waiting workers cannot return; two steps after it entered the Once the
   context carries error 7 and they can; a signal first, and the cause is the parent's *)
Example C13_errgroup_examples :
  let sc := [mkW true (Some 0); mkW false (Some 7); mkW true (Some 0)] in
  let started := [TC; TC; TC; TC; TC; TC] in
  s_g (fst (exec sc (started ++ [TF 1; TG 1]))) 1 = GB1 7 /\
  s_ctx (fst (exec sc (started ++ [TF 1; TG 1; TG 1]))) = None /\
  act sc (fst (exec sc (started ++ [TF 1; TG 1; TG 1]))) (TF 0) = None /\
  s_ctx (fst (exec sc (started ++ [TF 1; TG 1] ++ [TG 1; TF 0; TG 1]))) = Some (CErr 7) /\
  g_ret (s_g (fst (exec sc (started ++ [TF 1; TG 1; TG 1; TG 1; TF 0]))) 0) = Some (Some 0) /\
  s_ctx (fst (exec sc (started ++ [TF 1; TG 1; TX] ++ [TG 1; TG 1]))) = Some CParent /\
  s_err (fst (exec sc (started ++ [TF 1; TG 1; TX] ++ [TG 1; TG 1]))) = Some 7.
Proof. vm_compute. repeat split; reflexivity. Qed.
