(* C10 — The output is a stream of whole JSON events in causal order. *)
From Coq Require Import List Bool Arith ZArith NArith.
Import ListNotations.
From AM Require Import Model.Tracker Model.Pipeline Proofs.PipelineLemmas.

(* For EVERY run of the two pipelines — any interleaving of: the sshd pipeline writing a
   UserLogin, the hand-off of that login to the correlator, audit events, cleanup ticks — in
   which a login is handed over only after its UserLogin was written (which is what C05 proves
   about the sshd pipeline): whenever a UserAction carrying login l's identity is appended to the
   output, the UserLogin of l is already there. *)
Theorem C10_causal : forall acts : list pact,
  wf_run acts ->
  forall pre l e post, plog acts = pre ++ EAction l e :: post -> In (ELogin l) pre.
Proof. exact causal_order. Qed.
Print Assumptions C10_causal.

(* Every event the correlator emits is appended exactly once, in emission order (no retry
   path, no second write): the UserAction entries of the output are exactly the correlator's
   outputs on its own history. *)
Theorem C10_once : forall acts : list pact,
  flat_map (fun x => match x with EAction l e => [(l, e)] | ELogin _ => [] end) (plog acts)
  = outs (tracker_hist acts).
Proof. exact actions_once. Qed.
Print Assumptions C10_once.

(* "Whole lines" = one append per event in this model; that one Encode call issues exactly one
   Write with one complete line, and that the kernel does not interleave single writes on an
   O_APPEND file, are observed on the implementation (recording writer; built daemon), not
   proved: see DESIGN.md C10, Partial. *)

Example C10_example :
  let l := {| l_id := 0; l_pid := 9; l_at := 0; l_valid := true |} in
  let e i t := {| a_id := i; a_ses := SId 4; a_type := t; a_pid := Some 9%Z |} in
  let acts := [PAudit (e 0 TLogin) 1; PAudit (e 1 (TOther 2)) 3; PWrite l; PDeliver l 0; PAudit (e 2 TCredDisp) 5] in
  wf_run acts /\
  map (fun x => match x with ELogin _ => 0 | EAction _ ev => S (a_id ev) end) (plog acts) = [0; 1; 2; 3].
Proof.
  split; [|vm_compute; reflexivity].
  intros pre l0 c post E. destruct pre as [|a0 [|a1 [|a2 [|a3 [|a4 [|a5 pre]]]]]]; cbn in E; try discriminate;
    try (injection E; intros; subst; cbn; tauto).
Qed.

(* ---------- the correlator of the model is the correlator of the source ----------
   Gen/TrackerProg.v is REGENERATED on every run by translating sessiontracker.go (RemoteLogin,
   AuditdEvent with both of its branches, the two cleanups, writeAndClearCache, the map operations
   they perform, deferred deletes, early returns and error classes) into a small deep-embedded
   language (Model/TrackerIR.v).  For EVERY state and EVERY operation the hand-written [tstep] of
   Model/Tracker.v, on which the theorems of this file rest, IS the interpretation of the generated
   programs, and that interpretation never gets stuck. *)
From AM Require Model.TrackerIR Gen.TrackerProg Proofs.TrackerIRTie.
Theorem C10_tracker_from_source : forall st o,
  Proofs.TrackerIRTie.run_generated st o = Some (Model.Tracker.tstep st o).
Proof. exact Proofs.TrackerIRTie.tracker_from_source. Qed.
Print Assumptions C10_tracker_from_source.

(* ---------- "handed over only after the write" is read from the source ----------
   C10_causal assumes that a login reaches the correlator only after its UserLogin was written.  In the
   model that is the shape of [write_forward]; for all 20 handlers the model's handler IS the
   interpretation of the decision tree regenerated from the handler's Go body on every run, whose leaves
   write first and offer the login afterwards. *)
From AM Require Gen.SshdDispatch Gen.SshdHandlers Model.SshdProc Model.SshdSketch Proofs.SshdHandlersTie.
Theorem C10_all_handlers_from_source : forall h c tok line wok ready,
  Model.SshdSketch.run_generated h c tok line wok ready = Some (Model.SshdProc.run_handler h c tok line wok ready).
Proof. exact Proofs.SshdHandlersTie.all_handlers_from_source. Qed.
Print Assumptions C10_all_handlers_from_source.

(* ---------- one writer, one unbuffered hand-off channel: read from cmd/namedpipe.go ----------
   GENERATED on every run from RunNamedPipe: exactly one event writer is created, by
   auditevent.NewDefaultAuditEventWriter on the opened events file, and that one value is what both the
   sshd processor and the audit processor write to; exactly one logins channel is created, without a
   capacity, and both processors use it (a hand-off completes only when the correlator takes the login). *)
From AM Require Gen.OutputWiring.
Theorem C10_output_wiring_from_source : Gen.OutputWiring.output_wiring_ok = true.
Proof. vm_compute. reflexivity. Qed.
Print Assumptions C10_output_wiring_from_source.
