(* C10 — The output is a stream of whole JSON events in causal order. *)
From Coq Require Import List Bool Arith ZArith NArith.
Import ListNotations.
From AM Require Import Model.Tracker Model.Pipeline Proofs.PipelineLemmas.

(* For EVERY run of the two pipelines — any interleaving of: the sshd pipeline writing a
   UserLogin, the hand-off of that login to the correlator, audit events, cleanup ticks — in
   which a login is handed over only after its UserLogin was written (which is what C05 proves
   about the sshd pipeline): whenever a UserAction carrying login l's identity is appended to the
   output, the UserLogin of l is already there. *)
Theorem C10_causal : forall acts : list pact,
  wf_run acts ->
  forall pre l e post, plog acts = pre ++ EAction l e :: post -> In (ELogin l) pre.
Proof. exact causal_order. Qed.
Print Assumptions C10_causal.

(* Every event the correlator emits is appended exactly once, in emission order (no retry
   path, no second write): the UserAction entries of the output are exactly the correlator's
   outputs on its own history. *)
Theorem C10_once : forall acts : list pact,
  flat_map (fun x => match x with EAction l e => [(l, e)] | ELogin _ => [] end) (plog acts)
  = outs (tracker_hist acts).
Proof. exact actions_once. Qed.
Print Assumptions C10_once.

(* "Whole lines" = one append per event in this model; that one Encode call issues exactly one
   Write with one complete line, and that the kernel does not interleave single writes on an
   O_APPEND file, are observed on the implementation (recording writer; built daemon), not
   proved: see DESIGN.md C10, Partial. *)

Example C10_example :
  let l := {| l_id := 0; l_pid := 9; l_at := 0; l_valid := true |} in
  let e i t := {| a_id := i; a_ses := SId 4; a_type := t; a_pid := Some 9%Z |} in
  let acts := [PAudit (e 0 TLogin) 1; PAudit (e 1 (TOther 2)) 3; PWrite l; PDeliver l 0; PAudit (e 2 TCredDisp) 5] in
  wf_run acts /\
  map (fun x => match x with ELogin _ => 0 | EAction _ ev => S (a_id ev) end) (plog acts) = [0; 1; 2; 3].
Proof.
  split; [|vm_compute; reflexivity].
  intros pre l0 c post E. destruct pre as [|a0 [|a1 [|a2 [|a3 [|a4 [|a5 pre]]]]]]; cbn in E; try discriminate;
    try (injection E; intros; subst; cbn; tauto).
Qed.

(* ---------- the correlator of the model is the correlator of the source ----------
   Gen/TrackerProg.v is REGENERATED on every run by translating sessiontracker.go (RemoteLogin,
   AuditdEvent with both of its branches, the two cleanups, writeAndClearCache, the map operations
   they perform, deferred deletes, early returns and error classes) into a small deep-embedded
   language (Model/TrackerIR.v).  For EVERY state and EVERY operation the hand-written [tstep] of
   Model/Tracker.v, on which the theorems of this file rest, IS the interpretation of the generated
   programs, and that interpretation never gets stuck. *)
From AM Require Model.TrackerIR Gen.TrackerProg Proofs.TrackerIRTie.
Theorem C10_tracker_from_source : forall st o,
  Proofs.TrackerIRTie.run_generated st o = Some (Model.Tracker.tstep st o).
Proof. exact Proofs.TrackerIRTie.tracker_from_source. Qed.
Print Assumptions C10_tracker_from_source.

(* ---------- "handed over only after the write" is read from the source ----------
   C10_causal assumes that a login reaches the correlator only after its UserLogin was written.  In the
   model that is the shape of [write_forward]; for all 20 handlers the model's handler IS the
   interpretation of the decision tree regenerated from the handler's Go body on every run, whose leaves
   write first and offer the login afterwards. *)
From AM Require Gen.SshdDispatch Gen.SshdHandlers Model.SshdProc Model.SshdSketch Proofs.SshdHandlersTie.
Theorem C10_all_handlers_from_source : forall h c tok line wok ready,
  Model.SshdSketch.run_generated h c tok line wok ready = Some (Model.SshdProc.run_handler h c tok line wok ready).
Proof. exact Proofs.SshdHandlersTie.all_handlers_from_source. Qed.
Print Assumptions C10_all_handlers_from_source.

(* ---------- one writer, one unbuffered hand-off channel: read from cmd/namedpipe.go ----------
   GENERATED on every run from RunNamedPipe: exactly one event writer is created, by
   auditevent.NewDefaultAuditEventWriter on the opened events file, and that one value is what both the
   sshd processor and the audit processor write to; exactly one logins channel is created, without a
   capacity, and both processors use it (a hand-off completes only when the correlator takes the login). *)
From AM Require Gen.OutputWiring.
Theorem C10_output_wiring_from_source : Gen.OutputWiring.output_wiring_ok = true.
Proof. vm_compute. reflexivity. Qed.
Print Assumptions C10_output_wiring_from_source.

(* ================= the sshd pipeline composed with the correlator: [wf_run] discharged =================
   Model/PipelineSshd.v computes the sshd side of a run instead of assuming it: a list of records (pid token,
   message bytes, whether the writer accepts, whether the correlator takes the login, the handler's clock) is
   run SEQUENTIALLY through Model/SshdProc.v's [process] — the function C05/C06/C11/C17 are about, whose
   handlers are tied to the source by [C10_all_handlers_from_source] above.  Per record: its successful writes go
   to the shared output, then each forwarded login is handed over on the unbuffered channel — a rendez-vous that
   completes only while Auditd.Read's loop holds no login; the loop then calls RemoteLogin ([MReader]); the sshd
   goroutine may already be writing the next record's event by then (the model has that interleaving), but its
   next hand-off waits.  The other correlator calls (audit events, the two cleanups) interleave freely.  A
   schedule (list of moves) picks who moves; disabled moves are skipped; every prefix is a run.
   ABSTRACTION: the login of record number k is [abs_login k at r] (id = k, pid = the forwarded PID, validity =
   forwarded with a non-empty credential id); [ELogin l] stands for the event record [l_id l] wrote
   ([C10_login_entries_are_line_writes]). *)
From AM Require Import Lib.Bytes Model.SshdProc Model.PipelineSshd Proofs.PipelineSshdLemmas.

(* the hypothesis of C10_causal is a THEOREM about combined runs: it follows from C05_forward_after_write
   (a forward only with a preceding successful write of the same call) and the sequential order of the calls *)
Theorem C10_combined_run_wf : forall (c : cfg) (ins : list sinput) (aud : list aop) (sched : list move),
  wf_run (acts_of c ins aud sched).
Proof. exact combined_run_wf. Qed.
Print Assumptions C10_combined_run_wf.

(* For EVERY list of sshd records (any bytes, any writer / hand-off outcome per record), EVERY list of audit
   events and cleanups, EVERY schedule: whenever a UserAction carrying login l's identity is appended to the
   output, the UserLogin of l is already there.  No hypothesis. *)
Theorem C10_causal_combined : forall (c : cfg) (ins : list sinput) (aud : list aop) (sched : list move),
  forall pre l e post, plog (acts_of c ins aud sched) = pre ++ EAction l e :: post -> In (ELogin l) pre.
Proof. exact causal_combined. Qed.
Print Assumptions C10_causal_combined.

Theorem C10_once_combined : forall (c : cfg) (ins : list sinput) (aud : list aop) (sched : list move),
  flat_map (fun x => match x with EAction l e => [(l, e)] | ELogin _ => [] end) (plog (acts_of c ins aud sched))
  = outs (tracker_hist (acts_of c ins aud sched)).
Proof. exact once_combined. Qed.
Print Assumptions C10_once_combined.

(* what the abstract entries stand for: [ELogin l] in the output of a combined run is the event that record
   number [l_id l] wrote (that call did write, successfully), l being exactly that call's abstraction *)
Theorem C10_login_entries_are_line_writes : forall c ins aud sched l,
  In (ELogin l) (plog (acts_of c ins aud sched)) ->
  exists i, nth_error ins (l_id l) = Some i /\ l = abs_login (l_id l) (i_at i) (run_line c i) /\
            written (run_line c i) <> [].
Proof. exact login_entries_are_line_writes. Qed.
Print Assumptions C10_login_entries_are_line_writes.

(* the logins the correlator receives are an initial segment of those the sshd goroutine forwards, in record
   order; ids never repeat; a delivered login is the ONE login its record forwarded, that record wrote exactly
   that login's event, and the login's PID is the record's pid token as strconv.Atoi reads it *)
Theorem C10_deliveries_prefix : forall c ins aud sched,
  exists rest, deliveries (acts_of c ins aud sched) ++ rest = handoffs (sshd_acts c ins).
Proof. exact deliveries_prefix. Qed.
Print Assumptions C10_deliveries_prefix.

Theorem C10_delivered_ids_distinct : forall c ins aud sched,
  NoDup (map l_id (deliveries (acts_of c ins aud sched))).
Proof. exact delivered_ids_distinct. Qed.
Print Assumptions C10_delivered_ids_distinct.

Theorem C10_delivered_is_forwarded : forall c ins aud sched l,
  In l (deliveries (acts_of c ins aud sched)) ->
  exists i f, nth_error ins (l_id l) = Some i /\ r_forwards (run_line c i) = [f] /\
              written (run_line c i) = [f_src f] /\ l = abs_login (l_id l) (i_at i) (run_line c i) /\
              atoi (i_tok i) = Some (l_pid l).
Proof. exact delivered_is_forwarded. Qed.
Print Assumptions C10_delivered_is_forwarded.

(* the other correlator calls happen in their order, each at most once *)
Theorem C10_audit_part_prefix : forall c ins aud sched,
  exists rest, audit_part (acts_of c ins aud sched) ++ rest = map pact_of_aop aud.
Proof. exact audit_part_prefix. Qed.
Print Assumptions C10_audit_part_prefix.

(* Non-vacuity: two records — a failed password (written, nothing forwarded) and an accepted password login of
   pid 4242 (written, forwarded) — and an audit session 7 opened by pid 4242: LOGIN record, one further record,
   CRED_DISP.  Schedule: the LOGIN record arrives first and is held; both records are written; the hand-off;
   the further record arrives BEFORE RemoteLogin runs (still held); RemoteLogin flushes both; the disposal
   record.  Output: UserLogin(record 0), UserLogin(record 1), then the three UserActions of record 1's login. *)
From Coq Require Import String.
Example C10_combined_example :
  let c := {| c_node := s2l "n"%string; c_mid := s2l "m"%string |} in
  let ins := [ {| i_tok := s2l "4100"%string; i_line := s2l "Failed password for bob from 10.0.0.9 port 4711 ssh2"%string;
                  i_wok := true; i_ready := true; i_at := 10 |};
               {| i_tok := s2l "4242"%string; i_line := s2l "Accepted password for bob from 10.0.0.9 port 4712 ssh2"%string;
                  i_wok := true; i_ready := true; i_at := 20 |} ] in
  let e i t := {| a_id := i; a_ses := SId 7; a_type := t; a_pid := Some 4242%Z |} in
  let aud := [AAudit (e 0 TLogin) 21; AAudit (e 1 (TOther 2)) 23; AAudit (e 2 TCredDisp) 25] in
  let sched := [MAudit; MSshd; MSshd; MSshd; MAudit; MReader 0; MAudit] in
  let acts := acts_of c ins aud sched in
  map (fun a => match a with PWrite l => (0, l_id l) | PDeliver l _ => (1, l_id l) | PAudit ev _ => (2, a_id ev)
                           | _ => (3, 0) end) acts
    = [(2, 0); (0, 0); (0, 1); (2, 1); (1, 1); (2, 2)] /\
  map (fun x => match x with ELogin l => (0, l_id l, 0) | EAction l ev => (1, l_id l, a_id ev) end) (plog acts)
    = [(0, 0, 0); (0, 1, 0); (1, 1, 0); (1, 1, 1); (1, 1, 2)] /\
  map (fun l => (l_id l, l_pid l, l_valid l)) (deliveries acts) = [(1, 4242%Z, true)] /\
  (* a blocked hand-off: with the reader still holding record 1's login nothing of the sshd side is lost,
     and a run that ends before RemoteLogin emits no UserAction at all *)
  map (fun x => match x with ELogin l => (0, l_id l, 0) | EAction l ev => (1, l_id l, a_id ev) end)
      (plog (acts_of c ins aud [MAudit; MSshd; MSshd; MSshd; MAudit; MAudit]))
    = [(0, 0, 0); (0, 1, 0)].
Proof. vm_compute. repeat split; reflexivity. Qed.

(* ---------- one writer, one unbuffered channel: from the workers' closures themselves ----------
   Besides Gen/OutputWiring.v, the closures RunNamedPipe hands to eg.Go are regenerated statement by statement
   (Gen/WorkerBodies.v) and normalised (Model/WorkerWiring.v): the writer inside the sshd processor and the audit
   processor's EventW are the one variable bound to NewDefaultAuditEventWriter(<the opened events file>), and
   the channel inside the sshd processor and the audit processor's Logins are the one make(chan ..) without capacity. *)
From AM Require Import Model.WorkerWiring Gen.WorkerBodies Proofs.WorkerWiringTie.
Theorem C10_pipelines_share_writer_and_channel :
  opt_weq (bind_opt (bind_opt (bind_opt (ret_of 0) recv_of) (field_of "SshdProcessor")) (field_of "eventW")) (WVar "eventWriter") = true /\
  opt_weq (bind_opt (bind_opt (ret_of 2) recv_of) (field_of "EventW")) (WVar "eventWriter") = true /\
  opt_weq (bind_opt (bind_opt (bind_opt (ret_of 0) recv_of) (field_of "SshdProcessor")) (field_of "logins")) (WVar "logins") = true /\
  opt_weq (bind_opt (bind_opt (ret_of 2) recv_of) (field_of "Logins")) (WVar "logins") = true /\
  resolve_shared gen_shared "logins" = Some (WMake "chan common.RemoteUserLogin" None) /\
  resolve_shared gen_shared "eventWriter" =
    Some (WCall "auditevent.NewDefaultAuditEventWriter"
            [WResult (WCall "helpers.OpenAuditLogFileUntilSuccessWithContext"
                        [WResult (WCall "errgroup.WithContext" [WVar "ctx"]) 1; WVar "appEventsOutput";
                         WCall "zapr.NewLogger" [WResult (WMethod (WVar "optLoggerConfig") "Build" []) 0]]) 0]).
Proof. exact pipelines_share_writer_and_channel. Qed.
Print Assumptions C10_pipelines_share_writer_and_channel.

(* ======================= the JSON line an event becomes =======================
   Model/JsonEnc.v is an executable model of what the daemon's one event writer
   (auditevent.NewDefaultAuditEventWriter = encoding/json's Encoder, escapeHTML on) writes for an AuditEvent:
   [enc_string] follows appendString branch by branch over [decode_rune] = utf8.DecodeRuneInString; Go maps are
   written in the byte order of their keys; struct fields in declaration order with omitempty; [enc_line] = the
   text and ONE newline, handed to the file in one Write call.  The model is compared BYTE FOR BYTE with the real
   writer on every run (harness/jsonenc: hostile strings in every field; the real sshd processor and the real
   correlator writing through the real writer; Model/JsonEncCheck.v).
   The statements below hold for ALL field contents — any bytes: NUL, newlines, quotes, backslashes, invalid
   UTF-8, U+2028 — in every field, key and value. *)
From AM Require Import Model.JsonEnc Model.Framing Proofs.JsonEncLemmas.
From Coq Require Import Ascii Permutation Sorted.
Open Scope list_scope.

(* ---- 1. the text of a string: starts and ends with the double quote; every byte is 0x20 or above and is never a
   raw & < > — so no control byte and in particular NO NEWLINE, whatever the string holds *)
Theorem C10_json_string_quoted : forall s : str, exists body, enc_string s = dq :: body ++ [dq].
Proof. exact enc_string_quoted. Qed.
Print Assumptions C10_json_string_quoted.

Theorem C10_json_string_bytes : forall s : str, forallb out_byte_ok (enc_string s) = true.
Proof. exact enc_string_out. Qed.
Print Assumptions C10_json_string_bytes.

Theorem C10_json_string_no_newline : forall s : str, ~ In newline (enc_string s).
Proof. exact enc_string_no_newline. Qed.
Print Assumptions C10_json_string_no_newline.

(* ---- 3. ROUND TRIP.  A JSON string decoder (RFC 8259 section 7: the two-character escapes, \uXXXX, surrogate pairs;
   raw control bytes and unknown escapes rejected) applied to the encoded string FOLLOWED BY ANY TEXT finds the end
   of the literal exactly where the encoder put it and returns the field: every byte that is part of well-formed
   UTF-8 unchanged, every other byte as U+FFFD.  Nothing a client puts into a field can end the string early, start
   another member, or fake a field boundary. *)
Theorem C10_json_string_roundtrip : forall s rest : str,
  dec_string_prefix (enc_string s ++ rest) = Some (sanitize s, rest).
Proof. exact dec_enc_string_prefix. Qed.
Print Assumptions C10_json_string_roundtrip.

Theorem C10_json_string_roundtrip_exact : forall s : str, dec_string (enc_string s) = Some (sanitize s).
Proof. exact dec_enc_string. Qed.
Print Assumptions C10_json_string_roundtrip_exact.

Theorem C10_json_sanitize_valid : forall s : str, valid_utf8 s = true -> sanitize s = s.
Proof. exact sanitize_valid. Qed.
Print Assumptions C10_json_sanitize_valid.

Theorem C10_json_string_roundtrip_valid : forall s : str, valid_utf8 s = true -> dec_string (enc_string s) = Some s.
Proof. exact dec_enc_string_valid. Qed.
Print Assumptions C10_json_string_roundtrip_valid.

(* ---- 4. the encoding determines the (sanitised) string; on valid UTF-8 it is injective *)
Theorem C10_json_string_determines_field : forall s1 s2 : str, enc_string s1 = enc_string s2 -> sanitize s1 = sanitize s2.
Proof. exact enc_string_sanitize_inj. Qed.
Print Assumptions C10_json_string_determines_field.

Theorem C10_json_string_injective : forall s1 s2 : str,
  valid_utf8 s1 = true -> valid_utf8 s2 = true -> enc_string s1 = enc_string s2 -> s1 = s2.
Proof. exact enc_string_inj. Qed.
Print Assumptions C10_json_string_injective.

(* the encoding is NOT injective on arbitrary bytes: two different invalid bytes are both written as the escape of U+FFFD *)
Theorem C10_json_string_injective_refuted : exists s1 s2 : str, s1 <> s2 /\ enc_string s1 = enc_string s2.
Proof. exists (hx "ff"), (hx "fe"). split; [discriminate|vm_compute; reflexivity]. Qed.
Print Assumptions C10_json_string_injective_refuted.

(* ---- 2. ONE LINE PER EVENT.  [event_ok e]: the formatted time consists of digits and - : . T Z + and the verbatim
   texts inside the Extra maps / Data (there are none in the daemon's events) hold no newline; NOTHING is assumed about
   any string. *)
Theorem C10_json_event_no_newline : forall e : jevent, event_ok e = true -> ~ In newline (enc_event e).
Proof. exact enc_event_no_newline. Qed.
Print Assumptions C10_json_event_no_newline.

Theorem C10_json_one_line : forall e : jevent, event_ok e = true ->
  count_occ ascii_dec (enc_line e) newline = 1%nat /\ last (enc_line e) dq = newline.
Proof. exact enc_line_one_newline. Qed.
Print Assumptions C10_json_one_line.

(* Splitting the output at newlines — [frames] is the very function C12 proves the pipes' reader computes — gives
   back exactly the written events, one per line, for EVERY list of events; a torn tail t (bytes of a write still in
   progress, no newline yet) is never taken for an event. *)
Theorem C10_json_lines_split : forall (es : list jevent) (t : str),
  Forall (fun e => event_ok e = true) es -> ~ In newline t ->
  frames newline (List.concat (map enc_line es) ++ t) = (map enc_line es, t).
Proof. exact lines_split. Qed.
Print Assumptions C10_json_lines_split.

Theorem C10_json_lines_split_bodies : forall es : list jevent,
  Forall (fun e => event_ok e = true) es ->
  map (strip1 newline) (records newline (List.concat (map enc_line es))) = map enc_event es.
Proof. exact lines_split_bodies. Qed.
Print Assumptions C10_json_lines_split_bodies.

(* the events of the two models always meet [event_ok]: only the time text is a premise *)
Theorem C10_json_login_view_ok : forall (aid t : str) (e : Model.SshdProc.event),
  time_text_ok t = true -> event_ok (login_view aid t e) = true.
Proof. exact login_view_ok. Qed.
Print Assumptions C10_json_login_view_ok.

Theorem C10_json_action_view_ok : forall (t : str) (a : Model.ToEvent.uaction),
  time_text_ok t = true -> event_ok (action_view t a) = true.
Proof. exact action_view_ok. Qed.
Print Assumptions C10_json_action_view_ok.

(* ---- 4. maps: a Go map (distinct keys) is written with its keys in strictly increasing byte order, so the order
   in which its entries were inserted / are iterated does not show; two values that are the same event — equal scalar
   fields, maps with the same entries — have the same line *)
Theorem C10_json_map_keys_increasing : forall m : list (str * jval),
  NoDup (map fst m) -> StronglySorted klt (sort_kv m).
Proof. exact (@sort_kv_keys_increasing jval). Qed.
Print Assumptions C10_json_map_keys_increasing.

Theorem C10_json_map_order_independent : forall m1 m2 : list (str * jval),
  NoDup (map fst m1) -> Permutation m1 m2 -> enc_value (jmap m1) = enc_value (jmap m2).
Proof. exact jmap_order_independent. Qed.
Print Assumptions C10_json_map_order_independent.

Theorem C10_json_same_event_same_line : forall e1 e2 : jevent,
  keys_distinct e1 -> same_event e1 e2 -> enc_line e1 = enc_line e2.
Proof. exact enc_line_same_event. Qed.
Print Assumptions C10_json_same_event_same_line.

(* ---- concrete runs.  A UserLogin whose user name tries to end the line and forge a second event: the name is
   "x", a double quote, "}", a NEWLINE, and the start of a forged object. *)
Definition C10_json_hostile_login : Model.SshdProc.event :=
  {| Model.SshdProc.ev_ok := false; Model.SshdProc.ev_src := s2l "10.0.0.9";
     Model.SshdProc.ev_port := Some (s2l "22"); Model.SshdProc.ev_dns := None;
     Model.SshdProc.ev_logged_as := hx "78227d0a7b226d65746164617461223a7b7d7d";
     Model.SshdProc.ev_user_id := s2l "unknown"; Model.SshdProc.ev_pid := s2l "4242";
     Model.SshdProc.ev_file_path := None; Model.SshdProc.ev_key_type := None; Model.SshdProc.ev_fingerprint := None;
     Model.SshdProc.ev_shell := None; Model.SshdProc.ev_data := [];
     Model.SshdProc.ev_host := s2l "node-7"; Model.SshdProc.ev_mid := s2l "mid-0123" |}.

Example C10_json_example :
  let e := login_view (s2l "id-1") (s2l "2023-04-05T06:07:08.123456789Z") C10_json_hostile_login in
  event_ok e = true /\
  enc_line e = s2l "{""metadata"":{""auditId"":""id-1""},""type"":""UserLogin"",""loggedAt"":""2023-04-05T06:07:08.123456789Z"",""source"":{""type"":""IP"",""value"":""10.0.0.9"",""extra"":{""port"":""22""}},""outcome"":""failed"",""subjects"":{""loggedAs"":""x\""}\n{\""metadata\"":{}}"",""pid"":""4242"",""userID"":""unknown""},""component"":""sshd"",""target"":{""host"":""node-7"",""machine-id"":""mid-0123""}}"
               ++ [newline] /\
  (* two such events, then a torn third one: exactly two lines, the torn bytes stay in the tail *)
  frames newline (enc_line e ++ enc_line e ++ firstn 40 (enc_line e)) = ([enc_line e; enc_line e], firstn 40 (enc_line e)) /\
  (* the hostile name reads back as it was *)
  dec_string (enc_string (Model.SshdProc.ev_logged_as C10_json_hostile_login)) = Some (Model.SshdProc.ev_logged_as C10_json_hostile_login) /\
  (* the source reads back with U+FFFD for the invalid byte *)
  dec_string (enc_string (hx "31302e302e302e39ffe280a8")) = Some (hx "31302e302e302e39efbfbde280a8") /\
  valid_utf8 (hx "31302e302e302e39ffe280a8") = false /\ valid_utf8 (hx "78227d0a7b22") = true.
Proof. vm_compute. repeat split; reflexivity. Qed.

(* maps: insertion orders of one map, keys equal up to case and a key that is a prefix of another *)
Example C10_json_map_example :
  let m1 := [(s2l "key", JStr (s2l "1")); (s2l "Key", JStr (s2l "2")); (s2l "ke", JStr (s2l "3")); (s2l "KEY", JNull)] in
  let m2 := [(s2l "ke", JStr (s2l "3")); (s2l "KEY", JNull); (s2l "key", JStr (s2l "1")); (s2l "Key", JStr (s2l "2"))] in
  NoDup (map fst m1) /\ Permutation m1 m2 /\
  enc_value (jmap m1) = s2l "{""KEY"":null,""Key"":""2"",""ke"":""3"",""key"":""1""}" /\
  enc_value (jmap m2) = enc_value (jmap m1).
Proof.
  cbv zeta. split; [|split; [|split; vm_compute; reflexivity]].
  - repeat constructor; cbn; intros H; repeat (destruct H as [H | H]; [discriminate H|]); exact H.
  - eapply Permutation_trans; [|apply Permutation_app_comm with (l := [_; _]) (l' := [_; _])]. apply Permutation_refl.
Qed.

(* ---- 3'. THE WHOLE OBJECT.  A recursive-descent parser for the JSON the events are made of (strings, null, arrays,
   objects; Model/JsonEnc.v [parse_value]) — it uses fuel, and for EVERY text the out-of-fuel value is never returned: *)
From AM Require Import Proofs.JsonParseLemmas.
Theorem C10_json_parse_never_out_of_fuel : forall s : str, parse s <> PFuel.
Proof. exact parse_never_out_of_fuel. Qed.
Print Assumptions C10_json_parse_never_out_of_fuel.

(* applied to the text of ANY value followed by ANY text, with fuel at least the length of the value's text, the
   parser returns the value as a reader sees it ([norm]: every string and key sanitised) and the text that follows:
   values end exactly where the encoder ended them, at every nesting depth *)
Theorem C10_json_parse_value : forall (v : jval) (fuel : nat) (rest : str),
  readable v = true -> (List.length (enc_value v) <= fuel)%nat -> parse_value fuel (enc_value v ++ rest) = POk (norm v) rest.
Proof. intros v fuel rest H. exact (parse_value_enc v H fuel rest). Qed.
Print Assumptions C10_json_parse_value.

(* the line of an event parses to exactly the event: the members of the struct in their fixed order —
   metadata{auditId[,extra]}, type, loggedAt, source{type,value[,extra]}, outcome, subjects, component[,target][,data] —
   each holding the event's field ([reader_view], strings sanitised, maps key-sorted); no field content can add,
   remove, reorder or rename a member *)
Theorem C10_json_parse_event : forall e : jevent,
  event_readable e = true -> parse (enc_event e) = POk (reader_view e) [].
Proof. exact parse_enc_event_view. Qed.
Print Assumptions C10_json_parse_event.

Theorem C10_json_login_view_readable : forall (aid t : str) (e : Model.SshdProc.event),
  time_text_ok t = true -> event_readable (login_view aid t e) = true.
Proof. exact login_view_readable. Qed.
Print Assumptions C10_json_login_view_readable.

Theorem C10_json_action_view_readable : forall (t : str) (a : Model.ToEvent.uaction),
  time_text_ok t = true -> event_readable (action_view t a) = true.
Proof. exact action_view_readable. Qed.
Print Assumptions C10_json_action_view_readable.

(* the hostile login above, read back: the name is ONE string under subjects.loggedAs, byte for byte what it was *)
Example C10_json_parse_example :
  let e := login_view (s2l "id-1") (s2l "2023-04-05T06:07:08.123456789Z") C10_json_hostile_login in
  event_readable e = true /\
  parse (enc_event e) =
    POk (JObj [ (s2l "metadata", JObj [(s2l "auditId", JStr (s2l "id-1"))]);
                (s2l "type", JStr (s2l "UserLogin"));
                (s2l "loggedAt", JStr (s2l "2023-04-05T06:07:08.123456789Z"));
                (s2l "source", JObj [(s2l "type", JStr (s2l "IP")); (s2l "value", JStr (s2l "10.0.0.9"));
                                     (s2l "extra", JObj [(s2l "port", JStr (s2l "22"))])]);
                (s2l "outcome", JStr (s2l "failed"));
                (s2l "subjects", JObj [(s2l "loggedAs", JStr (hx "78227d0a7b226d65746164617461223a7b7d7d"));
                                       (s2l "pid", JStr (s2l "4242")); (s2l "userID", JStr (s2l "unknown"))]);
                (s2l "component", JStr (s2l "sshd"));
                (s2l "target", JObj [(s2l "host", JStr (s2l "node-7")); (s2l "machine-id", JStr (s2l "mid-0123"))]) ]) [] /\
  (* a truncated line is not an event *)
  parse (firstn 60 (enc_event e)) = PErr.
Proof. vm_compute. repeat split; reflexivity. Qed.

(* ---- 1'. which bytes can occur, completed: bytes from 0x80 on occur only inside well-formed UTF-8 — the text of
   every string, and the whole line of every event, is valid UTF-8 whatever bytes the fields hold (invalid input bytes
   having become the six ASCII bytes of the escape of U+FFFD). *)
From AM Require Import Proofs.JsonUtf8Lemmas.
Theorem C10_json_string_valid_utf8 : forall s : str, valid_utf8 (enc_string s) = true.
Proof. exact enc_string_valid. Qed.
Print Assumptions C10_json_string_valid_utf8.

Theorem C10_json_line_valid_utf8 : forall e : jevent, event_utf8 e = true -> valid_utf8 (enc_line e) = true.
Proof. exact enc_line_valid. Qed.
Print Assumptions C10_json_line_valid_utf8.

Theorem C10_json_login_view_utf8 : forall (aid t : str) (e : Model.SshdProc.event),
  time_text_ok t = true -> event_utf8 (login_view aid t e) = true.
Proof. exact login_view_utf8. Qed.
Print Assumptions C10_json_login_view_utf8.

Theorem C10_json_action_view_utf8 : forall (t : str) (a : Model.ToEvent.uaction),
  time_text_ok t = true -> event_utf8 (action_view t a) = true.
Proof. exact action_view_utf8. Qed.
Print Assumptions C10_json_action_view_utf8.

Example C10_json_utf8_example :
  valid_utf8 (hx "78ffc0afeda080f4908080e282") = false /\
  valid_utf8 (enc_string (hx "78ffc0afeda080f4908080e282")) = true /\
  event_utf8 (login_view (hx "ff") (s2l "2023-04-05T06:07:08Z") C10_json_hostile_login) = true.
Proof. vm_compute. repeat split; reflexivity. Qed.
