(* Byte strings: [str] = list of ascii.  Hex decoder used by harness-written case files. *)
From Coq Require Import Ascii String List Bool Arith NArith.
Import ListNotations.

Definition str := list ascii.

Definition s2l (s : string) : str := list_ascii_of_string s.

Definition hexval (c : ascii) : N :=
  let n := N_of_ascii c in
  if (48 <=? n)%N && (n <=? 57)%N then (n - 48)%N
  else if (97 <=? n)%N && (n <=? 102)%N then (n - 87)%N
  else if (65 <=? n)%N && (n <=? 70)%N then (n - 55)%N
  else 0%N.

Fixpoint unhex (l : str) : str :=
  match l with
  | a :: b :: r => ascii_of_N (16 * hexval a + hexval b) :: unhex r
  | _ => []
  end.

(* hx "616263" = "abc" *)
Definition hx (s : string) : str := unhex (list_ascii_of_string s).

Definition str_eqb (a b : str) : bool := String.eqb (string_of_list_ascii a) (string_of_list_ascii b).

Fixpoint seqb (a b : str) : bool :=
  match a, b with
  | [], [] => true
  | x :: r, y :: r' => Ascii.eqb x y && seqb r r'
  | _, _ => false
  end.

Lemma seqb_eq a b : seqb a b = true <-> a = b.
Proof.
  revert b. induction a as [|x r IH]; destruct b as [|y r']; cbn; split; try discriminate; try reflexivity.
  - intros H. apply andb_true_iff in H. destruct H as [H1 H2]. apply Ascii.eqb_eq in H1. apply IH in H2. congruence.
  - intros [= -> ->]. rewrite Ascii.eqb_refl. apply IH. reflexivity.
Qed.

Lemma seqb_refl a : seqb a a = true.
Proof. apply seqb_eq. reflexivity. Qed.

(* is p a prefix of s; the remainder *)
Fixpoint strip_prefix (p s : str) : option str :=
  match p, s with
  | [], _ => Some s
  | x :: r, y :: r' => if Ascii.eqb x y then strip_prefix r r' else None
  | _ :: _, [] => None
  end.

Definition has_prefix (p s : str) : bool :=
  match strip_prefix p s with Some _ => true | None => false end.

Lemma strip_prefix_app p s : strip_prefix p (p ++ s) = Some s.
Proof. induction p as [|x r IH]; cbn; [reflexivity|]. rewrite Ascii.eqb_refl. exact IH. Qed.

Lemma strip_prefix_some p s t : strip_prefix p s = Some t -> s = p ++ t.
Proof.
  revert s. induction p as [|x r IH]; intros s; cbn.
  - intros [= ->]. reflexivity.
  - destruct s as [|y r']; [discriminate|]. destruct (Ascii.eqb_spec x y) as [->|]; [|discriminate].
    intros H. rewrite (IH _ H). reflexivity.
Qed.

(* substring by offsets [a, b) *)
Definition sub (s : str) (a b : nat) : str := firstn (b - a) (skipn a s).

Lemma sub_mid (p v q : str) : sub (p ++ v ++ q) (length p) (length p + length v) = v.
Proof.
  unfold sub. rewrite skipn_app, skipn_all, Nat.sub_diag. cbn.
  replace (length p + length v - length p) with (length v) by (rewrite Nat.add_comm; symmetry; apply Nat.add_sub).
  rewrite firstn_app, firstn_all, Nat.sub_diag. cbn. apply app_nil_r.
Qed.
