(* Executable, total models of the parts of Go that the generated definitions of Gen/PureFuncs.v are
   written in: the functions of package [strings] used by the translated sources, string / slice
   indexing with Go's run-time panics made explicit, fixed-width integer arithmetic, and the
   [for _, c := range s] loop.  Strings are byte strings ([str] = list ascii), as Go strings are.

   Conventions
   - Argument order is Go's (strings.HasPrefix(s, prefix) = go_has_prefix s prefix).
   - A Go expression that can panic at run time (index / slice out of range) is modelled by a
     function into [option]; [None] is the panic.
   - Go [int] values are modelled by [nat].  This is exact for what the translator lets through:
     non-negative literals, len(..), comparisons; it refuses int arithmetic (so there is no overflow).
   - Go [uint64] values are modelled by [N] with every operation reduced modulo 2^64 (exact).
   - Go [rune] / [int32] values are modelled by [Z] with subtraction wrapped to 32 bits (exact).

   Where a function of package strings works on runes (UTF-8) and the model works on bytes, the
   comment says under which condition the two agree; the translator checks that condition at the
   call site and refuses the call otherwise.

   The last section relates the general functions to the special-purpose ones of Model/Syslog.v. *)
From Coq Require Import Ascii String List Bool Arith NArith ZArith Lia.
Import ListNotations.
From AM Require Import Lib.Bytes Model.Syslog.

(* ------------------------------------------------------------------ panics *)

Definition obind {A B : Type} (o : option A) (f : A -> option B) : option B :=
  match o with Some a => f a | None => None end.

(* l[i] *)
Definition go_nth {A : Type} (l : list A) (i : nat) : option A := nth_error l i.

(* l[a:]   (strings and slices alike; panics if a > len(l)) *)
Definition go_slice_from {A : Type} (l : list A) (a : nat) : option (list A) :=
  if a <=? length l then Some (skipn a l) else None.

(* l[:b]   (panics if b > len(l); for a slice Go compares with cap(l), which is not modelled:
   the translator lets [:b] through for strings only) *)
Definition go_slice_to {A : Type} (l : list A) (b : nat) : option (list A) :=
  if b <=? length l then Some (firstn b l) else None.

(* l[a:b]  (panics unless a <= b <= len(l); strings only, see above) *)
Definition go_slice {A : Type} (l : list A) (a b : nat) : option (list A) :=
  if (a <=? b) && (b <=? length l) then Some (firstn (b - a) (skipn a l)) else None.

(* ------------------------------------------------------------------ comparison of strings *)

Definition byte_ltb (x y : ascii) : bool := (N_of_ascii x <? N_of_ascii y)%N.

(* a < b on Go strings: bytewise lexicographic, a proper prefix is smaller *)
Fixpoint str_ltb (a b : str) : bool :=
  match a, b with
  | _, [] => false
  | [], _ :: _ => true
  | x :: r, y :: r' => if byte_ltb x y then true else if Ascii.eqb x y then str_ltb r r' else false
  end.

Definition str_gtb (a b : str) : bool := str_ltb b a.
Definition str_leb (a b : str) : bool := negb (str_ltb b a).
Definition str_geb (a b : str) : bool := negb (str_ltb a b).
(* a == b: Bytes.seqb *)

(* ------------------------------------------------------------------ package strings *)

(* strings.HasPrefix(s, prefix) *)
Definition go_has_prefix (s prefix : str) : bool := has_prefix prefix s.

(* strings.HasSuffix(s, suffix) *)
Definition go_has_suffix (s suffix : str) : bool := has_prefix (rev suffix) (rev s).

(* strings.TrimPrefix(s, prefix) *)
Definition go_trim_prefix (s prefix : str) : str :=
  match strip_prefix prefix s with Some r => r | None => s end.

(* strings.TrimSuffix(s, suffix) *)
Definition go_trim_suffix (s suffix : str) : str :=
  if go_has_suffix s suffix then firstn (length s - length suffix) s else s.

(* strings.Index(s, sep): None is Go's -1.  Index(s, "") = 0. *)
Fixpoint go_index (s sep : str) : option nat :=
  if has_prefix sep s then Some 0
  else match s with
       | [] => None
       | _ :: r => match go_index r sep with Some i => Some (S i) | None => None end
       end.

(* strings.Cut(s, sep) = (before, after, found) *)
Definition go_cut (s sep : str) : str * str * bool :=
  match go_index s sep with
  | Some i => (firstn i s, skipn (i + length sep) s, true)
  | None => (s, [], false)
  end.

(* strings.Split(s, sep) for NON-EMPTY sep: cut at the leftmost occurrence of sep, continue behind it.
   [skip] counts the bytes of the current occurrence of sep that are still to be dropped.
   For sep = "" Go splits after every UTF-8 sequence; this function then returns len(s)+1 empty
   strings, which is NOT what Go does: the translator refuses a separator that is not a non-empty
   constant. *)
Fixpoint go_split_from (sep s : str) (skip : nat) : list str :=
  match s with
  | [] => [[]]
  | c :: r =>
      match skip with
      | S k => go_split_from sep r k
      | O =>
          if has_prefix sep s then [] :: go_split_from sep r (length sep - 1)
          else match go_split_from sep r 0 with
               | x :: xs => (c :: x) :: xs
               | [] => [[c]]                       (* unreachable: the result is never [] *)
               end
      end
  end.

Definition go_split (s sep : str) : list str := go_split_from sep s 0.

(* strings.Join(parts, sep) *)
Fixpoint go_join (parts : list str) (sep : str) : str :=
  match parts with
  | [] => []
  | x :: r => match r with
              | [] => x
              | _ :: _ => x ++ sep ++ go_join r sep
              end
  end.

(* strings.TrimLeft(s, cutset): Go removes leading RUNES that occur in cutset; this function removes
   leading BYTES that occur in cutset.  The two agree whenever every byte of cutset is < 0x80: then
   a leading rune of s is in cutset iff it is a single byte < 0x80 that is in cutset (the bytes of
   a multi-byte sequence, and an invalid byte, which decodes to U+FFFD, are >= 0x80 resp. not ASCII).
   The translator refuses a cutset that is not a constant of bytes < 0x80. *)
Fixpoint go_trim_left (s cutset : str) : str :=
  match s with
  | [] => []
  | c :: r => if existsb (Ascii.eqb c) cutset then go_trim_left r cutset else s
  end.

(* ------------------------------------------------------------------ integers *)

Definition two64 : N := 18446744073709551616%N.

Definition go_u64 (n : N) : N := (n mod two64)%N.
Definition go_u64_add (a b : N) : N := go_u64 (a + b).
Definition go_u64_mul (a b : N) : N := go_u64 (a * b).
(* a - b on uint64: a + (2^64 - b mod 2^64) *)
Definition go_u64_sub (a b : N) : N := go_u64 (a + (two64 - go_u64 b)).

(* int32 (rune): wrap to [-2^31, 2^31) *)
Definition go_i32 (z : Z) : Z := ((z + 2147483648) mod 4294967296 - 2147483648)%Z.
Definition go_i32_add (a b : Z) : Z := go_i32 (a + b).
Definition go_i32_sub (a b : Z) : Z := go_i32 (a - b).

(* uint64(x) for x of type int32: sign extension, i.e. the value modulo 2^64 *)
Definition go_u64_of_i32 (z : Z) : N := Z.to_N (z mod 18446744073709551616)%Z.

(* the rune a single byte < 0x80 decodes to; for bytes >= 0x80 see go_range_bytes *)
Definition go_rune_of_byte (b : ascii) : Z := Z.of_N (N_of_ascii b).

(* ------------------------------------------------------------------ for _, c := range s *)

Inductive loop_step (S R : Type) :=
| LContinue (st : S)        (* the body ran to its end: the loop-carried variables *)
| LReturn (r : R).          (* the body executed  return r  *)
Arguments LContinue {S R} st.
Arguments LReturn {S R} r.

(* One iteration per BYTE of s, the loop variable being the byte's value.  Go iterates over the
   RUNES of s.  The translator uses this function only after it has checked that the loop body
   starts with  if cond(c) { return constants }  where cond(c) holds for every c >= 0x80 (it
   evaluates cond for all of 0x80..0x10FFFF), mentions nothing but c and constants, and that the
   index variable is blank.  Under that condition both loops run identically over the leading
   bytes < 0x80 (each is its own rune); at the first byte >= 0x80 Go's loop sees a rune >= 0x80
   (multi-byte sequences decode to >= 0x80, invalid bytes to U+FFFD) and this loop sees the byte
   itself, also >= 0x80: both return the same constants. *)
Fixpoint go_range_bytes {S R : Type} (body : Z -> S -> loop_step S R) (s : str) (st : S) : loop_step S R :=
  match s with
  | [] => LContinue st
  | b :: r => match body (go_rune_of_byte b) st with
              | LContinue st' => go_range_bytes body r st'
              | LReturn v => LReturn v
              end
  end.

(* ------------------------------------------------------------------ equality tests (for the differential vectors) *)

Fixpoint strs_eqb (a b : list str) : bool :=
  match a, b with
  | [], [] => true
  | x :: r, y :: r' => seqb x y && strs_eqb r r'
  | _, _ => false
  end.

Definition opt_nat_eqb (a b : option nat) : bool :=
  match a, b with
  | None, None => true
  | Some x, Some y => Nat.eqb x y
  | _, _ => false
  end.

Definition cut_eqb (a b : str * str * bool) : bool :=
  let '(a1, a2, a3) := a in let '(b1, b2, b3) := b in seqb a1 b1 && seqb a2 b2 && Bool.eqb a3 b3.

(* ------------------------------------------------------------------ basic facts *)

Lemma str_ltb_irrefl a : str_ltb a a = false.
Proof.
  induction a as [|x r IH]; cbn; [reflexivity|].
  unfold byte_ltb. rewrite N.ltb_irrefl, Ascii.eqb_refl. exact IH.
Qed.

Lemma str_gtb_irrefl a : str_gtb a a = false.
Proof. apply str_ltb_irrefl. Qed.

Lemma go_has_prefix_app p s : go_has_prefix (p ++ s) p = true.
Proof. unfold go_has_prefix, has_prefix. rewrite strip_prefix_app. reflexivity. Qed.

Lemma go_slice_from_app {A : Type} (p s : list A) : go_slice_from (p ++ s) (length p) = Some s.
Proof.
  unfold go_slice_from. rewrite app_length.
  replace (length p <=? length p + length s) with true by (symmetry; apply Nat.leb_le; lia).
  rewrite skipn_app, skipn_all, Nat.sub_diag. reflexivity.
Qed.

Lemma go_split_from_nonempty sep s k : go_split_from sep s k <> [].
Proof.
  revert k. induction s as [|c r IH]; intros k; cbn; [discriminate|].
  destruct k; [|apply IH].
  destruct (has_prefix sep (c :: r)); [discriminate|].
  destruct (go_split_from sep r 0); discriminate.
Qed.

Lemma go_u64_small n : (n < two64)%N -> go_u64 n = n.
Proof. intros H. apply N.mod_small. exact H. Qed.

(* reducing intermediate results modulo 2^64 does not change  n*10 + d  modulo 2^64 *)
Lemma go_u64_step a d : go_u64_add (go_u64_mul (go_u64 a) 10) d = go_u64 (a * 10 + d).
Proof.
  unfold go_u64_add, go_u64_mul, go_u64.
  assert (Hm : two64 <> 0%N) by discriminate.
  rewrite N.mul_mod_idemp_l by exact Hm.
  rewrite N.add_mod_idemp_l by exact Hm. reflexivity.
Qed.

Lemma go_u64_idem n : go_u64 (go_u64 n) = go_u64 n.
Proof. unfold go_u64. apply N.mod_mod. discriminate. Qed.

(* ------------------------------------------------------------------ Model/Syslog.v's functions *)

Lemma go_split_sp s : go_split s [sp] = split_sp s.
Proof.
  unfold go_split. induction s as [|c r IH]; [reflexivity|].
  cbn [go_split_from split_sp]. unfold has_prefix. cbn [strip_prefix length Nat.sub].
  rewrite Ascii.eqb_sym. destruct (Ascii.eqb c sp); cbn; rewrite IH; reflexivity.
Qed.

Lemma go_join_sp parts : go_join parts [sp] = join_sp parts.
Proof.
  induction parts as [|x r IH]; [reflexivity|].
  cbn [go_join join_sp]. destruct r as [|y r']; [reflexivity|]. rewrite IH. reflexivity.
Qed.

Lemma go_trim_left_sp s : go_trim_left s [sp] = trim_left_sp s.
Proof.
  induction s as [|c r IH]; [reflexivity|].
  cbn [go_trim_left trim_left_sp existsb]. rewrite orb_false_r.
  destruct (Ascii.eqb c sp); [exact IH|reflexivity].
Qed.

Lemma trim_nl_snoc r c : trim_nl (r ++ [c]) = if Ascii.eqb c nl then r else r ++ [c].
Proof.
  induction r as [|x r IH]; [cbn; destruct (Ascii.eqb c nl); reflexivity|].
  cbn [app trim_nl]. destruct (r ++ [c]) eqn:E; [destruct r; discriminate|].
  rewrite IH. destruct (Ascii.eqb c nl); reflexivity.
Qed.

Lemma go_trim_suffix_nl s : go_trim_suffix s [nl] = trim_nl s.
Proof.
  destruct s as [|a s'] using rev_ind; [reflexivity|].
  rewrite trim_nl_snoc. unfold go_trim_suffix, go_has_suffix, has_prefix.
  rewrite rev_app_distr. cbn [rev app strip_prefix]. rewrite Ascii.eqb_sym.
  destruct (Ascii.eqb a nl); [|reflexivity].
  rewrite app_length. cbn [length]. replace (length s' + 1 - 1) with (length s') by lia.
  rewrite firstn_app, Nat.sub_diag, firstn_all. cbn. apply app_nil_r.
Qed.
