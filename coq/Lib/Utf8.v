(* unicode/utf8.DecodeRuneInString, shared by the JSON model (Model/JsonEnc.v: encoding/json decodes the
   string rune by rune) and the regular-expression model (Lib/Regex.v: an IRune item consumes one decoding
   step, as Go's regexp does).  Moved here unchanged from Model/JsonEnc.v (group R); the byte-for-byte tie to
   the real decoder is harness/jsonenc (through enc_string) and harness/prims (through IRune).

   [decode_rune]: first[] / acceptRanges tables - overlong forms, surrogates and values above U+10FFFF are
   rejected; an invalid or truncated sequence is (RuneError, 1).  Go's masks and shifts are written as
   mod / multiplication on [N] (s0&mask2 = s0 mod 32, x<<6 = 64x). *)
From Coq Require Import Ascii String List Bool Arith NArith.
Import ListNotations.
From AM Require Import Lib.Bytes.
Local Open Scope N_scope.

Definition nb (c : ascii) : N := N_of_ascii c.
Definition bN (n : N) : ascii := ascii_of_N n.


(* ---------- unicode/utf8.DecodeRuneInString ---------- *)

Definition rune_error : N := 0xFFFD.

(* utf8.first[b] for b >= 0x80: Some (size, accept.lo, accept.hi); None = xx (never starts a sequence) *)
Definition lead_info (n0 : N) : option (nat * N * N) :=
  if n0 <? 0xC2 then None                               (* 80..BF continuation, C0 C1 overlong *)
  else if n0 <? 0xE0 then Some (2%nat, 0x80, 0xBF)      (* s1 *)
  else if n0 =? 0xE0 then Some (3%nat, 0xA0, 0xBF)      (* s2: no overlong 3-byte forms *)
  else if n0 <? 0xED then Some (3%nat, 0x80, 0xBF)      (* s3 *)
  else if n0 =? 0xED then Some (3%nat, 0x80, 0x9F)      (* s4: no surrogates *)
  else if n0 <? 0xF0 then Some (3%nat, 0x80, 0xBF)      (* s3 *)
  else if n0 =? 0xF0 then Some (4%nat, 0x90, 0xBF)      (* s5: no overlong 4-byte forms *)
  else if n0 <? 0xF4 then Some (4%nat, 0x80, 0xBF)      (* s6 *)
  else if n0 =? 0xF4 then Some (4%nat, 0x80, 0x8F)      (* s7: not above U+10FFFF *)
  else None.                                            (* F5..FF *)

Definition is_cont (n : N) : bool := (0x80 <=? n) && (n <=? 0xBF).   (* locb..hicb *)

(* (rune, width).  Width 0 only for the empty string. *)
Definition decode_rune (s : str) : N * nat :=
  match s with
  | [] => (rune_error, 0%nat)
  | b0 :: r1 =>
    let n0 := nb b0 in
    if n0 <? 0x80 then (n0, 1%nat)
    else match lead_info n0 with
    | None => (rune_error, 1%nat)
    | Some (sz, lo, hi) =>
      match r1 with
      | [] => (rune_error, 1%nat)
      | b1 :: r2 =>
        let n1 := nb b1 in
        if (n1 <? lo) || (hi <? n1) then (rune_error, 1%nat)
        else if (sz <=? 2)%nat then ((n0 mod 32) * 64 + n1 mod 64, 2%nat)
        else match r2 with
        | [] => (rune_error, 1%nat)
        | b2 :: r3 =>
          let n2 := nb b2 in
          if negb (is_cont n2) then (rune_error, 1%nat)
          else if (sz <=? 3)%nat then ((n0 mod 16) * 4096 + (n1 mod 64) * 64 + n2 mod 64, 3%nat)
          else match r3 with
          | [] => (rune_error, 1%nat)
          | b3 :: _ =>
            let n3 := nb b3 in
            if negb (is_cont n3) then (rune_error, 1%nat)
            else ((n0 mod 8) * 262144 + (n1 mod 64) * 4096 + (n2 mod 64) * 64 + n3 mod 64, 4%nat)
          end
        end
      end
    end
  end.
