(* Go's regexp (RE2 syntax, leftmost-first submatch semantics) for the flat patterns of
   processors/sshd/openssh_regex.go: a pattern is a sequence of items — literal byte, one
   byte of a class, greedy star over a class, capture open/close, ^ and $ (text anchors).
   `x+` is rendered as  IOne x; IStar x  (same matches, same captures).
   IRune k is ONE RUNE of a class that holds the non-ASCII runes (`.`, \S, [^...]) where it does not stand under a
   repetition of its own: Go's regexp consumes one UTF-8 decoding step there (unicode/utf8.DecodeRuneInString:
   1-4 bytes; an invalid or truncated sequence is U+FFFD, one byte), the byte item IOne would consume one byte.
   Membership is decided on the first byte: an ASCII byte by the class itself, a byte >= 0x80 by whether the class
   holds the non-ASCII runes (all or none of them: go2v refuses other classes), which the byte class records as
   holding all or none of the bytes 128..255.  tools/go2v emits IRune exactly for such a single item that is not
   followed by a star over a class with the non-ASCII runes (which would consume the rest of the rune: x+).

   The matcher is the textbook backtracking matcher: greedy star tries the longest run
   first; [find] tries start offsets left to right.  For patterns without alternation and
   without nested repetition this is exactly the leftmost-first match RE2 returns.

   Bytes, not runes: every class used is a set of ASCII bytes, or a complement of one, so all bytes >= 0x80 are
   either all in or all out; when that makes byte-level matching equal to Go's rune-level matching is the
   condition rune_safe of Model/RegexSpec.v, checked of every generated pattern (docs/R_NOTES.md). *)
From Coq Require Import Ascii String List Bool Arith NArith Lia.
Import ListNotations.
From AM Require Import Lib.Bytes Lib.Utf8.

Definition cls := list (N * N).      (* inclusive byte ranges (binary numbers: the check runs inside vm_compute) *)

Definition in_cls (k : cls) (c : ascii) : bool :=
  let n := N_of_ascii c in existsb (fun r => (fst r <=? n)%N && (n <=? snd r)%N) k.

(* classes that are not one of the standard ones below are emitted by go2v as [mkcls [(lo, hi); ...]] *)
Definition mkcls (l : list (nat * nat)) : cls := map (fun r => (N.of_nat (fst r), N.of_nat (snd r))) l.

Inductive item :=
| ILit (c : ascii)
| IOne (k : cls)
| IStar (k : cls)
| IOpen (g : nat)
| IClose (g : nat)
| IBol
| IEol
| IRune (k : cls).

Definition lits (s : string) : list item := map ILit (s2l s).

Definition caps := list (nat * str).

Fixpoint run_len (k : cls) (s : str) : nat :=
  match s with
  | c :: r => if in_cls k c then S (run_len k r) else 0
  | [] => 0
  end.

Fixpoint try_desc {A} (f : nat -> option A) (n : nat) : option A :=
  match f n with
  | Some x => Some x
  | None => match n with 0 => None | S n' => try_desc f n' end
  end.

Fixpoint lookup_g {A} (g : nat) (l : list (nat * A)) : option A :=
  match l with
  | [] => None
  | (g', x) :: r => if Nat.eqb g' g then Some x else lookup_g g r
  end.

(* m items pos s opens caps: match the items against s (which starts at offset pos of the
   text).  opens remembers, per open group, the remaining text at its opening; a capture is
   the prefix of that text consumed until the group closes.  Result: end offset and captures. *)
Fixpoint m (its : list item) (pos : nat) (s : str) (ops : list (nat * str)) (cs : caps) : option (nat * caps) :=
  match its with
  | [] => Some (pos, cs)
  | ILit c :: r =>
      match s with x :: s' => if Ascii.eqb x c then m r (S pos) s' ops cs else None | [] => None end
  | IOne k :: r =>
      match s with x :: s' => if in_cls k x then m r (S pos) s' ops cs else None | [] => None end
  | IStar k :: r => try_desc (fun j => m r (pos + j) (skipn j s) ops cs) (run_len k s)
  | IOpen g :: r => m r pos s ((g, s) :: ops) cs
  | IClose g :: r =>
      match lookup_g g ops with
      | Some so => m r pos s ops ((g, firstn (length so - length s) so) :: cs)
      | None => None
      end
  | IBol :: r => if Nat.eqb pos 0 then m r pos s ops cs else None
  | IEol :: r => match s with [] => m r pos s ops cs | _ :: _ => None end
  | IRune k :: r =>
      match s with
      | x :: _ => if in_cls k x then let w := snd (decode_rune s) in m r (pos + w) (skipn w s) ops cs else None
      | [] => None
      end
  end.

Record rmatch := { m_start : nat; m_end : nat; m_caps : caps }.

Fixpoint find_from (its : list item) (pos : nat) (s : str) : option rmatch :=
  match m its pos s [] [] with
  | Some (e, cs) => Some {| m_start := pos; m_end := e; m_caps := cs |}
  | None => match s with [] => None | _ :: s' => find_from its (S pos) s' end
  end.

(* regexp.FindStringSubmatch / MatchString *)
Definition find (its : list item) (line : str) : option rmatch := find_from its 0 line.
Definition matches (its : list item) (line : str) : bool :=
  match find its line with Some _ => true | None => false end.

(* matches[i] for a named group; "" if the group is absent *)
Definition cap (g : nat) (r : rmatch) : str :=
  match lookup_g g (m_caps r) with Some v => v | None => [] end.

(* ---------------- standard classes (go2v emits these names when the ranges coincide) -------- *)
Definition cls_dot : cls := [(0, 9); (11, 255)]%N.                       (* .   : anything but \n *)
Definition cls_nonspace : cls := [(0, 8); (11, 11); (14, 31); (33, 255)]%N. (* \S  : not [\t\n\f\r ] *)
Definition cls_space : cls := [(9, 10); (12, 13); (32, 32)]%N.           (* \s *)
Definition cls_digit : cls := [(48, 57)]%N.                              (* \d *)
Definition cls_alnum : cls := [(48, 57); (65, 90); (97, 122)]%N.         (* [[:alnum:]] *)
Definition cls_alg : cls := [(32, 32); (45, 45); (48, 57); (65, 90); (95, 95); (97, 122)]%N.  (* [\w -] *)
Definition cls_keytype : cls := [(45, 45); (48, 57); (65, 90); (95, 95); (97, 122)]%N.        (* [a-zA-Z0-9_-] *)
