(* Association lists as the model of Go maps: lookup, store (replace), delete, with
   the usual lemmas.  A Go map never holds two values for one key; [store] keeps
   that invariant ([NoDup (keys m)]). *)
From Coq Require Import List Bool Arith.
Import ListNotations.

Section Assoc.
  Context {K V : Type}.
  Variable eqb : K -> K -> bool.
  Hypothesis eqb_spec : forall a b, reflect (a = b) (eqb a b).

  Definition amap := list (K * V).

  Fixpoint aget (k : K) (m : amap) : option V :=
    match m with
    | [] => None
    | (k', v) :: r => if eqb k' k then Some v else aget k r
    end.

  Fixpoint adel (k : K) (m : amap) : amap :=
    match m with
    | [] => []
    | (k', v) :: r => if eqb k' k then adel k r else (k', v) :: adel k r
    end.

  Definition aset (k : K) (v : V) (m : amap) : amap := (k, v) :: adel k m.

  Definition ahas (k : K) (m : amap) : bool :=
    match aget k m with Some _ => true | None => false end.

  Definition akeys (m : amap) : list K := map fst m.

  Lemma eqb_refl k : eqb k k = true.
  Proof. destruct (eqb_spec k k); congruence. Qed.

  Lemma eqb_neq a b : a <> b -> eqb a b = false.
  Proof. intros H. destruct (eqb_spec a b); congruence. Qed.

  Lemma aget_adel_same k m : aget k (adel k m) = None.
  Proof.
    induction m as [|[k' v] r IH]; cbn; [reflexivity|].
    destruct (eqb k' k) eqn:E; cbn; [exact IH|]. rewrite E. exact IH.
  Qed.

  Lemma aget_adel_other k k' m : k <> k' -> aget k (adel k' m) = aget k m.
  Proof.
    intros Hne. induction m as [|[k0 v] r IH]; cbn; [reflexivity|].
    destruct (eqb_spec k0 k') as [->|Hn0].
    - rewrite eqb_neq by congruence. exact IH.
    - cbn. destruct (eqb k0 k); [reflexivity|exact IH].
  Qed.

  Lemma aget_aset_same k v m : aget k (aset k v m) = Some v.
  Proof. unfold aset. cbn. rewrite eqb_refl. reflexivity. Qed.

  Lemma aget_aset_other k k' v m : k <> k' -> aget k (aset k' v m) = aget k m.
  Proof.
    intros Hne. unfold aset. cbn. rewrite eqb_neq by congruence.
    apply aget_adel_other. exact Hne.
  Qed.

  Lemma aget_in k v m : aget k m = Some v -> In (k, v) m.
  Proof.
    induction m as [|[k' w] r IH]; cbn; [discriminate|].
    destruct (eqb_spec k' k) as [->|Hn].
    - intros [= ->]. left. reflexivity.
    - intros H. right. apply IH. exact H.
  Qed.

  Lemma in_akeys k v m : In (k, v) m -> In k (akeys m).
  Proof. intros H. change k with (fst (k, v)). apply in_map. exact H. Qed.

  Lemma in_aget k v m : NoDup (akeys m) -> In (k, v) m -> aget k m = Some v.
  Proof.
    induction m as [|[k' w] r IH]; cbn; intros Hnd Hin; [contradiction|].
    inversion Hnd as [|? ? Hn Hr]; subst.
    destruct Hin as [[= -> ->]|Hin].
    - rewrite eqb_refl. reflexivity.
    - destruct (eqb_spec k' k) as [->|Hne].
      + exfalso. apply Hn. eapply in_akeys. exact Hin.
      + apply IH; assumption.
  Qed.

  Lemma in_adel k k' v m : In (k, v) (adel k' m) -> In (k, v) m /\ k <> k'.
  Proof.
    induction m as [|[k0 w] r IH]; cbn; [tauto|].
    destruct (eqb_spec k0 k') as [->|Hn].
    - intros H. destruct (IH H). tauto.
    - cbn. intros [[= -> ->]|H]; [tauto|]. destruct (IH H). tauto.
  Qed.

  Lemma in_adel_intro k k' v m : In (k, v) m -> k <> k' -> In (k, v) (adel k' m).
  Proof.
    induction m as [|[k0 w] r IH]; cbn; [tauto|].
    intros [[= -> ->]|H] Hne.
    - rewrite eqb_neq by exact Hne. left. reflexivity.
    - destruct (eqb k0 k'); [|right]; apply IH; assumption.
  Qed.

  Lemma in_akeys_adel k k' m : In k (akeys (adel k' m)) -> In k (akeys m) /\ k <> k'.
  Proof.
    unfold akeys. rewrite in_map_iff. intros [[k0 v] [<- H]]. cbn.
    apply in_adel in H. destruct H as [H1 H2]. split; [|exact H2].
    eapply in_akeys. exact H1.
  Qed.

  Lemma nodup_adel k m : NoDup (akeys m) -> NoDup (akeys (adel k m)).
  Proof.
    induction m as [|[k' v] r IH]; cbn; intros H; [constructor|].
    inversion H as [|? ? Hn Hr]; subst.
    destruct (eqb k' k); [apply IH; exact Hr|].
    cbn. constructor; [|apply IH; exact Hr].
    intros Hin. apply in_akeys_adel in Hin. tauto.
  Qed.

  Lemma nodup_aset k v m : NoDup (akeys m) -> NoDup (akeys (aset k v m)).
  Proof.
    intros H. unfold aset. cbn. constructor; [|apply nodup_adel; exact H].
    intros Hin. apply in_akeys_adel in Hin. tauto.
  Qed.

  Lemma aget_none_not_in k m : aget k m = None -> ~ In k (akeys m).
  Proof.
    induction m as [|[k' v] r IH]; cbn; [tauto|].
    destruct (eqb_spec k' k) as [->|Hn]; [discriminate|].
    intros H [->|Hin]; [congruence|]. apply IH; assumption.
  Qed.

  Lemma in_aset k v k' v' m :
    In (k, v) (aset k' v' m) -> (k = k' /\ v = v') \/ (k <> k' /\ In (k, v) m).
  Proof.
    unfold aset. cbn. intros [[= -> ->]|H]; [left; tauto|].
    apply in_adel in H. right. tauto.
  Qed.

  Lemma ahas_true k m : ahas k m = true <-> exists v, aget k m = Some v.
  Proof.
    unfold ahas. destruct (aget k m) as [v|]; split; try discriminate; eauto.
    intros [v H]. discriminate.
  Qed.
End Assoc.

Arguments aget {K V} eqb k m.
Arguments adel {K V} eqb k m.
Arguments aset {K V} eqb k v m.
Arguments ahas {K V} eqb k m.
Arguments akeys {K V} m.
