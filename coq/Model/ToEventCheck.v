(* Correspondence check for the UserAction rendering: compact observation format written
   by harness/render, and the boolean comparison of [to_event] against what the real
   correlator wrote.
   (Coq elaborates literals slowly, so a case carries one table of the byte strings that
   occur in it; identities, coalesced events and observed events refer to it by index.)

   A case is one session of the real daemon path: [rc_login] is the identity content of
   the login the harness delivered; every element of [rc_events] pairs the fields of the
   aucoalesce.Event the library produced for a record group (the model's input) with the
   event the real correlator wrote for that group, decoded from its JSON (the expected
   output). *)
From Coq Require Import Ascii String List Bool Arith ZArith.
Import ListNotations.
From AM Require Import Lib.Bytes Model.ToEvent.

Record rcase := RCase { rc_login : login_ident; rc_events : list (cevent * uaction) }.

(* ---------- decoding of the compact form ---------- *)

Definition tb (t : list str) (i : nat) : str := nth i t [].
Definition tbp (t : list str) (l : list (nat * nat)) : list (str * str) :=
  map (fun kv => (tb t (fst kv), tb t (snd kv))) l.

(* identity: subjects, source type, source value, source extra, target *)
Definition I (t : list str) (subj : list (nat * nat)) (st sv : nat) (se tg : list (nat * nat)) : login_ident :=
  {| li_subjects := tbp t subj; li_src_type := tb t st; li_src_value := tb t sv;
     li_src_extra := tbp t se; li_target := tbp t tg |}.

(* coalesced event: time, session, result, action, how, object type/primary/secondary, args *)
Definition E (t : list str) (time : Z) (ses res act how ot op os : nat) (args : list nat) : cevent :=
  {| ce_time := time; ce_session := tb t ses; ce_result := tb t res; ce_action := tb t act;
     ce_how := tb t how;
     ce_object := {| ob_type := tb t ot; ob_primary := tb t op; ob_secondary := tb t os |};
     ce_args := map (tb t) args |}.

(* observed event: type, component, loggedAt, auditId, outcome, action, how, object, args, identity *)
Definition O (t : list str) (typ comp : nat) (time : Z) (aid outc act how ot op os : nat)
    (args : option (list nat)) (id : login_ident) : uaction :=
  {| ua_type := tb t typ; ua_component := tb t comp; ua_logged_at := time; ua_audit_id := tb t aid;
     ua_outcome := tb t outc; ua_action := tb t act; ua_how := tb t how;
     ua_object := {| ob_type := tb t ot; ob_primary := tb t op; ob_secondary := tb t os |};
     ua_args := option_map (map (tb t)) args; ua_ident := id |}.

(* ---------- comparison ---------- *)

Fixpoint list_eqb {A} (f : A -> A -> bool) (a b : list A) : bool :=
  match a, b with
  | [], [] => true
  | x :: r, y :: r' => f x y && list_eqb f r r'
  | _, _ => false
  end.

Definition pair_eqb (a b : str * str) : bool := seqb (fst a) (fst b) && seqb (snd a) (snd b).

Definition ident_eqb (a b : login_ident) : bool :=
  list_eqb pair_eqb (li_subjects a) (li_subjects b)
  && seqb (li_src_type a) (li_src_type b) && seqb (li_src_value a) (li_src_value b)
  && list_eqb pair_eqb (li_src_extra a) (li_src_extra b)
  && list_eqb pair_eqb (li_target a) (li_target b).

Definition object_eqb (a b : cobject) : bool :=
  seqb (ob_type a) (ob_type b) && seqb (ob_primary a) (ob_primary b) && seqb (ob_secondary a) (ob_secondary b).

Definition oargs_eqb (a b : option (list str)) : bool :=
  match a, b with
  | None, None => true
  | Some x, Some y => list_eqb seqb x y
  | _, _ => false
  end.

Definition ua_eqb (a b : uaction) : bool :=
  seqb (ua_type a) (ua_type b) && seqb (ua_component a) (ua_component b)
  && Z.eqb (ua_logged_at a) (ua_logged_at b) && seqb (ua_audit_id a) (ua_audit_id b)
  && seqb (ua_outcome a) (ua_outcome b) && seqb (ua_action a) (ua_action b) && seqb (ua_how a) (ua_how b)
  && object_eqb (ua_object a) (ua_object b) && oargs_eqb (ua_args a) (ua_args b)
  && ident_eqb (ua_ident a) (ua_ident b).

Definition event_ok (l : login_ident) (p : cevent * uaction) : bool := ua_eqb (to_event l (fst p)) (snd p).

Definition case_ok (c : rcase) : bool := forallb (event_ok (rc_login c)) (rc_events c).

Fixpoint mism_from {A} (f : A -> bool) (i : nat) (cs : list A) : list nat :=
  match cs with
  | [] => []
  | c :: r => if f c then mism_from f (S i) r else i :: mism_from f (S i) r
  end.

(* indices of the cases in which some rendered event differs from the model *)
Definition mismatches (cs : list rcase) : list nat := mism_from case_ok 0 cs.

(* (case index, indices of the differing events), for reporting *)
Fixpoint bad_from (i : nat) (cs : list rcase) : list (nat * list nat) :=
  match cs with
  | [] => []
  | c :: r => match mism_from (event_ok (rc_login c)) 0 (rc_events c) with
              | [] => bad_from (S i) r
              | b => (i, b) :: bad_from (S i) r
              end
  end.
Definition bad_events (cs : list rcase) : list (nat * list nat) := bad_from 0 cs.

(* number of (coalesced event, observed event) pairs evaluated *)
Definition n_events (cs : list rcase) : nat := fold_right (fun c n => length (rc_events c) + n) 0 cs.
