(* Model of the pipeline workers as cancellable threads (C13) and of the daemon as an
   errgroup over them (C08).  Definitions only; proofs are in Proofs/WorkersLemmas.v.

   A worker = one main goroutine + the helper goroutines it starts.  Every goroutine is
   in one of the states
       Running b | BlockedAt r b | Joining e | Returned e
   where r is a row of the generated table Gen/Blocking.v (a blocking operation of that
   goroutine's code), e says whether it returns a non-nil error, and b is the number of
   times Go's select may still prefer ANOTHER ready arm although <-ctx.Done() is ready
   (Go chooses uniformly among ready arms; the budget turns "eventually" into a bound:
   the theorems hold for every budget K).

   One scheduled step of a goroutine runs it up to its next blocking operation.
   What is modelled: at a guarded blocking point a cancelled goroutine cannot stay (the
   ctx.Done() arm is ready); at an unguarded one it can stay for ever.  A main goroutine
   that returns first runs its deferred join (state Joining): it cancels the derived
   context of the helpers it joins and waits for them.  A helper that is not joined
   lives on after its parent has returned.
   What is NOT modelled (runtime, observed by harness/workers): wall-clock time, that
   close(2) unblocks a read(2), the opener goroutine that leaks inside open(2). *)
From Coq Require Import String List Bool Arith.
Import ListNotations.
From AM Require Import Gen.Blocking.

(* ---- reading the generated table ---- *)

Definition arm_is_done (a : arm) : bool := match a with ADone => true | _ => false end.
Definition arm_is_default (a : arm) : bool := match a with ADefault => true | _ => false end.

(* A select is guarded iff one of ITS OWN arms is <-ctx.Done() (or it has a default arm and
   never blocks); this is recomputed here from the arms, the generator's flag must agree.
   For the other kinds the flag records the idiom the generator recognised. *)
Definition row_guarded (r : row) : bool :=
  match r_kind r with
  | KSelect => r_guarded r && (existsb arm_is_done (r_arms r) || existsb arm_is_default (r_arms r))
  | KRange => false
  | _ => r_guarded r
  end.

(* a helper that can deliver downstream must be joined by its parent *)
Definition helper_ok (h : helper) : bool := implb (h_delivers h) (h_joined h).

Record hdesc := mkHdesc { hd_name : string; hd_rows : list row; hd_delivers : bool; hd_joined : bool }.
Record wdesc := mkWdesc { wd_name : string; wd_rows : list row; wd_helpers : list hdesc }.

Definition rows_of (rows : list row) (w t : string) : list row :=
  filter (fun r => String.eqb (r_worker r) w && String.eqb (r_thread r) t) rows.

Definition wdesc_of (rows : list row) (hs : list helper) (w : string) : wdesc :=
  mkWdesc w (rows_of rows w "main")
    (map (fun h => mkHdesc (h_name h) (rows_of rows w (h_name h)) (h_delivers h) (h_joined h))
         (filter (fun h => String.eqb (h_worker h) w) hs)).

Definition desc_guarded (d : wdesc) : bool :=
  forallb row_guarded (wd_rows d) && forallb (fun h => forallb row_guarded (hd_rows h)) (wd_helpers d).
Definition desc_helpers_ok (d : wdesc) : bool :=
  forallb (fun h => implb (hd_delivers h) (hd_joined h)) (wd_helpers d).

(* ---- goroutines ---- *)

Inductive gstate :=
| Running (b : nat)
| BlockedAt (r : row) (b : nat)
| Joining (e : bool)
| Returned (e : bool).

Inductive label := Tau | Deliver.

Definition is_returned (g : gstate) : bool := match g with Returned _ => true | _ => false end.
Definition exiting (g : gstate) : bool := match g with Joining _ | Returned _ => true | _ => false end.
Definition failed (g : gstate) : bool := match g with Returned true => true | _ => false end.

(* gstep rows can_deliver ec join_ok g l g' : one scheduled step of a goroutine.
   ec = its context is cancelled;  join_ok = every helper it joins has returned. *)
Inductive gstep (rows : list row) (dl : bool) (ec : bool) (join_ok : bool) : gstate -> label -> gstate -> Prop :=
| GArrive : forall b r l, In r rows -> (l = Deliver -> dl = true) ->
    gstep rows dl ec join_ok (Running b) l (BlockedAt r b)           (* runs to its next blocking operation *)
| GReturn : forall b e l, (l = Deliver -> dl = true) ->
    gstep rows dl ec join_ok (Running b) l (Joining e)               (* runs to a return statement *)
| GStay : forall r b, ec && row_guarded r = false ->
    gstep rows dl ec join_ok (BlockedAt r b) Tau (BlockedAt r b)     (* nothing ready: still blocked *)
| GUnblock : forall r b, ec = false ->
    gstep rows dl ec join_ok (BlockedAt r b) Tau (Running b)         (* the awaited operation happened *)
| GUnblockUnguarded : forall r b, row_guarded r = false ->
    gstep rows dl ec join_ok (BlockedAt r b) Tau (Running b)         (* ... also possible after cancellation *)
| GRace : forall r b, ec = true -> row_guarded r = true ->
    gstep rows dl ec join_ok (BlockedAt r (S b)) Tau (Running b)     (* Done ready, select took another ready arm *)
| GCancelled : forall r b, ec = true -> row_guarded r = true ->
    gstep rows dl ec join_ok (BlockedAt r b) Tau (Joining true)      (* took the ctx.Done() arm / read failed *)
| GJoinWait : forall e, join_ok = false ->
    gstep rows dl ec join_ok (Joining e) Tau (Joining e)
| GJoined : forall e, join_ok = true ->
    gstep rows dl ec join_ok (Joining e) Tau (Returned e)
| GDone : forall e,
    gstep rows dl ec join_ok (Returned e) Tau (Returned e).          (* scheduling a finished goroutine: no-op *)

(* ---- a worker ---- *)

Record wst := mkWst { ws_main : gstate; ws_helpers : list gstate }.

Fixpoint upd {A} (i : nat) (x : A) (l : list A) : list A :=
  match l, i with
  | [], _ => []
  | _ :: t, O => x :: t
  | a :: t, S j => a :: upd j x t
  end.

(* all helpers that the main goroutine joins have returned *)
Fixpoint joined_done (hds : list hdesc) (hs : list gstate) : bool :=
  match hds, hs with
  | hd :: hds', s :: hs' => (negb (hd_joined hd) || is_returned s) && joined_done hds' hs'
  | _, _ => true
  end.

(* goroutine ids: None = the worker function itself, Some i = i-th helper *)
Definition gid := option nat.

Inductive wstep (d : wdesc) (cn : bool) (w : wst) : gid -> label -> wst -> Prop :=
| WMain : forall l m',
    gstep (wd_rows d) true cn (joined_done (wd_helpers d) (ws_helpers w)) (ws_main w) l m' ->
    wstep d cn w None l (mkWst m' (ws_helpers w))
| WHelper : forall i hd s l s',
    nth_error (wd_helpers d) i = Some hd -> nth_error (ws_helpers w) i = Some s ->
    (* a joined helper runs under the derived context, cancelled by the parent's deferred stop *)
    gstep (hd_rows hd) (hd_delivers hd) (cn || (hd_joined hd && exiting (ws_main w))) true s l s' ->
    wstep d cn w (Some i) l (mkWst (ws_main w) (upd i s' (ws_helpers w))).

(* execution of a schedule (list of goroutine ids), with the trace of labels *)
Inductive wexec (d : wdesc) (cn : bool) : wst -> list gid -> list label -> wst -> Prop :=
| WE0 : forall w, wexec d cn w [] [] w
| WE1 : forall w g l w1 sch tr w2, wstep d cn w g l w1 -> wexec d cn w1 sch tr w2 ->
    wexec d cn w (g :: sch) (l :: tr) w2.

(* FAIRNESS.  A round is a schedule in which every goroutine of the worker occurs at least
   once (any order, any repetitions).  A fair run is a sequence of rounds. *)
Definition fair_round (w : wst) (sch : list gid) : Prop :=
  In None sch /\ forall i, i < length (ws_helpers w) -> In (Some i) sch.

Inductive wrounds (d : wdesc) (cn : bool) : nat -> wst -> list label -> wst -> Prop :=
| WR0 : forall w, wrounds d cn 0 w [] w
| WRS : forall n w sch tr w1 tr' w2, fair_round w sch -> wexec d cn w sch tr w1 -> wrounds d cn n w1 tr' w2 ->
    wrounds d cn (S n) w (tr ++ tr') w2.

Definition winit (K : nat) (d : wdesc) : wst := mkWst (Running K) (map (fun _ => Running K) (wd_helpers d)).

(* reachable: from the start, any steps, the context being cancelled or not at each step *)
Inductive wreach (K : nat) (d : wdesc) : wst -> Prop :=
| RInit : wreach K d (winit K d)
| RStep : forall w cn g l w', wreach K d w -> wstep d cn w g l w' -> wreach K d w'.

(* bound, in rounds, for a worker whose select loses the race against Done at most K times *)
Definition cancel_bound (K : nat) : nat := 2 * K + 4.

(* ---- the daemon: errgroup over the workers ---- *)

Record dst := mkDst { d_cancel : bool; d_ws : list wst }.

(* one fair round of every worker, all under the same value of the group context *)
Inductive all_round (cn : bool) : list wdesc -> list wst -> list wst -> Prop :=
| AR0 : all_round cn [] [] []
| ARS : forall d ds w ws w' ws' sch tr, fair_round w sch -> wexec d cn w sch tr w' -> all_round cn ds ws ws' ->
    all_round cn (d :: ds) (w :: ws) (w' :: ws').

Definition any_failed (ws : list wst) : bool := existsb (fun w => failed (ws_main w)) ws.
Definition all_returned (ws : list wst) : bool := forallb (fun w => is_returned (ws_main w)) ws.

(* A daemon round.  errgroup: a worker function that has returned a non-nil error cancels the
   group context; a signal (SIGTERM/SIGINT -> root context -> group context) may arrive in any
   round; a cancelled context stays cancelled. *)
Inductive dround (ds : list wdesc) : dst -> dst -> Prop :=
| DR : forall s ws' c', all_round (d_cancel s) ds (d_ws s) ws' ->
    (d_cancel s || any_failed ws' = true -> c' = true) ->
    dround ds s (mkDst c' ws').

Inductive drounds (ds : list wdesc) : nat -> dst -> dst -> Prop :=
| DRs0 : forall s, drounds ds 0 s s
| DRsS : forall n s s1 s2, dround ds s s1 -> drounds ds n s1 s2 -> drounds ds (S n) s s2.

(* eg.Wait() returns when every worker function has returned, with the first non-nil error;
   main then ends in log.Fatalln (status 1) iff that error is non-nil. *)
Definition exited (s : dst) : option nat :=
  if all_returned (d_ws s) then Some (if any_failed (d_ws s) then 1 else 0) else None.

Definition dinit (K : nat) (ds : list wdesc) : dst := mkDst false (map (winit K) ds).

Inductive dreach (K : nat) (ds : list wdesc) : dst -> Prop :=
| DRInit : dreach K ds (dinit K ds)
| DRStep : forall s s', dreach K ds s -> dround ds s s' -> dreach K ds s'.
