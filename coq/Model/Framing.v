(* Pipe framing (C12): executable model of NamedPipeIngester.Ingest
   (ingesters/namedpipe/namedpipeingester.go) over a byte stream that arrives in chunks.
   Definitions only; the proofs are in Proofs/FramingLemmas.v.

   Go:   r := bufio.NewReader(file)
         for { line, err := r.ReadString(delim); if err != nil { return err }
               err = callback(ctx, line);        if err != nil { return err } }

   Conventions.  A RECORD is delivered WITH its terminating delimiter (that is what ReadString
   returns and what the callback receives); its BODY is the record without that last byte.
   [records d bs] lists the records of a stream WITH their delimiter; [bodies] strips it. *)
From Coq Require Import Ascii String List Bool Arith.
Import ListNotations.
From AM Require Import Lib.Bytes.

(* ---------- the stream seen as records: specification side ---------- *)

(* [frames d bs] = (the maximal d-terminated pieces of bs, in order, each with its d;
                    the unterminated tail after the last d). *)
Fixpoint frames (d : ascii) (bs : str) : list str * str :=
  match bs with
  | [] => ([], [])
  | c :: r =>
      let (rs, t) := frames d r in
      if Ascii.eqb c d then ([c] :: rs, t)
      else match rs with
           | [] => ([], c :: t)
           | x :: xs => ((c :: x) :: xs, t)
           end
  end.

Definition records (d : ascii) (bs : str) : list str := fst (frames d bs).
Definition tail (d : ascii) (bs : str) : str := snd (frames d bs).

(* the stream made of the given bodies, each followed by d, and then an unterminated tail t *)
Definition terminate (d : ascii) (b : str) : str := b ++ [d].
Definition frame (d : ascii) (bodies : list str) (t : str) : str :=
  concat (map (terminate d) bodies) ++ t.

(* remove exactly one trailing d, if there is one *)
Fixpoint strip1 (d : ascii) (s : str) : str :=
  match s with
  | [] => []
  | c :: r => match r with
              | [] => if Ascii.eqb c d then [] else [c]
              | _ :: _ => c :: strip1 d r
              end
  end.

(* ---------- the callback and what Ingest returns ---------- *)

(* The callback's verdict may depend on how many records it has seen and on the record;
   [true] = returned nil.  The identity of the error it returns is abstracted to the index of
   the call that returned it. *)
Definition callback := nat -> str -> bool.

Inductive ret :=
| RetCallbackErr (k : nat)   (* Ingest returned the error of the k-th callback call (k from 0) *)
| RetEOF                     (* Ingest returned ReadString's end-of-stream error *)
| RetOutOfFuel.              (* artefact of the fuel below; proved never to be returned *)

(* Specification: hand the records to the callback in order until it fails. *)
Fixpoint deliver (cb : callback) (k : nat) (rs : list str) : list str * ret :=
  match rs with
  | [] => ([], RetEOF)
  | r :: rs' =>
      if cb k r then let (l, e) := deliver cb (S k) rs' in (r :: l, e)
      else ([r], RetCallbackErr k)
  end.

(* ---------- implementation side: bufio.Reader.ReadString over arriving chunks ---------- *)

(* [cut d buf]: if buf holds a delimiter, the bytes up to and including the first one, and the rest *)
Fixpoint cut (d : ascii) (buf : str) : option (str * str) :=
  match buf with
  | [] => None
  | c :: r =>
      if Ascii.eqb c d then Some ([c], r)
      else match cut d r with
           | Some (l, q) => Some (c :: l, q)
           | None => None
           end
  end.

(* Contract of ReadString (library code, stated, not proved): with [buf] the bytes already
   read from the file but not yet returned and [cs] the chunks that successive read(2) calls
   will still yield (the stream ends after the last one):
   - if buf holds a delimiter: return the bytes up to and including the first one;
   - otherwise read the next chunk and try again;
   - at end of stream: return the remaining bytes together with io.EOF. *)
Inductive rd :=
| RdLine (line rest : str) (cs : list str)   (* line, err = nil; new reader state (rest, cs) *)
| RdEOF (remaining : str).                   (* remaining, io.EOF *)

Fixpoint read_string (d : ascii) (buf : str) (cs : list str) : rd :=
  match cut d buf with
  | Some (l, rest) => RdLine l rest cs
  | None => match cs with
            | [] => RdEOF buf
            | c :: cs' => read_string d (buf ++ c) cs'
            end
  end.

(* The for-loop of Ingest.  Every iteration that does not return consumes at least one byte
   (the delimiter), so [1 + number of bytes] iterations always suffice. *)
Fixpoint loop (fuel : nat) (d : ascii) (cb : callback) (k : nat) (buf : str) (cs : list str)
  : list str * ret :=
  match fuel with
  | 0 => ([], RetOutOfFuel)
  | S f =>
      match read_string d buf cs with
      | RdEOF _ => ([], RetEOF)                      (* if err != nil { return err }: the bytes are dropped *)
      | RdLine l rest cs' =>
          if cb k l
          then let (ls, e) := loop f d cb (S k) rest cs' in (l :: ls, e)
          else ([l], RetCallbackErr k)               (* if err != nil { return err } *)
      end
  end.

(* result = (the records handed to the callback, in order; what Ingest returned) *)
Definition ingest (cs : list str) (d : ascii) (cb : callback) : list str * ret :=
  loop (S (length (concat cs))) d cb 0 [] cs.

(* callbacks used in statements and by the harness: fail at the k-th call / never fail *)
Definition fail_at (k : nat) : callback := fun i _ => negb (Nat.eqb i k).
Definition never_fail : callback := fun _ _ => true.
