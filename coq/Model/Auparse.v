(* Model of the header-level line parser of go-libaudit (module github.com/metal-toolbox/go-libaudit/v2
   v2.3.3, which /repo/go.mod's replace directive resolves github.com/elastic/go-libaudit/v2 to):
   auparse.ParseLogLine, auparse.GetAuditMessageType, auparse.Parse, parseAuditHeader, indexOfMessage
   (auparse/auparse.go, auparse/zaudit_msg_types.go), together with the standard-library functions
   they call, as of Go 1.23.5: strings.Index / IndexByte / IndexRune (ASCII rune) / IndexFunc,
   strings.TrimSpace, strings.ToUpper, strconv.ParseInt / ParseUint (base 10), time.Unix.
   Definitions only, all executable; proofs are in Proofs/AuparseLemmas.v, the comparison with the
   real library in Model/AuparseCheck.v (harness/auparse).

   Conventions
   - strings are byte strings ([str] = list ascii); Go [int] indices are [nat] (they are lengths
     and offsets of the line, additions cannot overflow); uint64 / uint32 / uint16 values are [N],
     int64 values are [Z].
   - every slice expression of the source is modelled by Lib/GoStrings' [go_slice*] functions
     ([None] = run-time panic "slice bounds out of range") and a panic is the explicit outcome
     [PPanic]; Proofs/AuparseLemmas.parse_log_line_never_panics shows that it is never returned.
   - what is NOT modelled is an explicit outcome as well, [PUnmodelled]: it is returned exactly when
     the real code leaves ASCII: (a) the type name (the bytes between offset 5 and the byte before
     the first "msg=") holds a byte >= 0x80 - strings.ToUpper then maps runes (U+017F, the long s, is
     upper-cased to 'S', invalid UTF-8 becomes U+FFFD) -, or (b) the type was accepted and the text
     behind "msg=", after its leading ASCII white space has been removed, begins with a byte >= 0x80,
     or begins with an ASCII byte and, after its trailing ASCII white space has been removed, ends
     with a byte >= 0x80 - strings.TrimSpace then falls back to unicode.IsSpace on decoded runes
     (U+0085, U+00A0, U+1680, U+2000-U+200A, U+2028, U+2029, U+202F, U+205F, U+3000).
   - the message-type table (auditMessageNameToType, a Go map) is the Section variable [type_of]:
     a function from the UPPER-CASED name to the type number, about which nothing is assumed.
   - key/value parsing of the message body (AuditMessage.Data, kvRegex, normalizeAuditMessage,
     aucoalesce) is not part of this model. *)
From Coq Require Import Ascii String List Bool Arith NArith ZArith.
Import ListNotations.
From AM Require Import Lib.Bytes Lib.GoStrings.
Open Scope list_scope.

(* ------------------------------------------------------------------ bytes *)

Definition code (c : ascii) : N := N_of_ascii c.

(* strings.asciiSpace: '\t' '\n' '\v' '\f' '\r' ' ' *)
Definition is_space (c : ascii) : bool := ((9 <=? code c) && (code c <=? 13) || (code c =? 32))%N.
(* c >= utf8.RuneSelf *)
Definition non_ascii (c : ascii) : bool := (128 <=? code c)%N.
Definition is_digit (c : ascii) : bool := ((48 <=? code c) && (code c <=? 57))%N.
Definition digit_val (c : ascii) : N := (code c - 48)%N.
Definition is_lower (c : ascii) : bool := ((97 <=? code c) && (code c <=? 122))%N.
(* c -= 'a' - 'A' *)
Definition to_upper (c : ascii) : ascii := if is_lower c then ascii_of_N (code c - 32) else c.

Definition c_lparen : ascii := "("%char.
Definition c_rparen : ascii := ")"%char.
Definition c_dot : ascii := "."%char.
Definition c_colon : ascii := ":"%char.
Definition c_lbrack : ascii := "["%char.
Definition c_rbrack : ascii := "]"%char.
Definition c_plus : ascii := "+"%char.
Definition c_minus : ascii := "-"%char.

Definition type_token : str := s2l "type=".
Definition msg_token : str := s2l "msg=".

(* ------------------------------------------------------------------ package strings *)

(* strings.IndexByte(s, c); also strings.IndexRune(s, r) for r < 0x80 (IndexRune calls IndexByte
   for such r).  None is Go's -1. *)
Fixpoint index_byte (s : str) (c : ascii) : option nat :=
  match s with
  | [] => None
  | x :: r => if Ascii.eqb x c then Some 0
              else match index_byte r c with Some i => Some (S i) | None => None end
  end.

(* strings.IndexFunc(s, f) for an f that is false on every rune >= 0x80 and decides a rune < 0x80
   by [p] on its byte: the bytes of a multi-byte sequence are all >= 0x80, an invalid byte decodes
   to U+FFFD (width 1), so the first rune satisfying f starts at the first BYTE < 0x80 satisfying p,
   and IndexFunc returns that byte offset. *)
Fixpoint index_pred (p : ascii -> bool) (s : str) : option nat :=
  match s with
  | [] => None
  | x :: r => if p x then Some 0
              else match index_pred p r with Some i => Some (S i) | None => None end
  end.

(* strings.ToUpper(s) on a string of bytes < 0x80 (both branches of its ASCII fast path) *)
Definition to_upper_ascii (s : str) : str := map to_upper s.

(* strings.TrimSpace, first loop: drop leading ASCII white space; None = a byte >= 0x80 was met
   before an ASCII non-space byte (the function then returns TrimFunc(s[start:], unicode.IsSpace)) *)
Fixpoint trim_start (s : str) : option str :=
  match s with
  | [] => Some []
  | c :: r => if non_ascii c then None else if is_space c then trim_start r else Some s
  end.

(* second loop, on s[start:], from the end: drop trailing ASCII white space; None = a byte >= 0x80
   was met before an ASCII non-space byte (TrimRightFunc(s[start:stop], unicode.IsSpace)) *)
Fixpoint trim_stop (s : str) : option str :=
  match s with
  | [] => Some []
  | c :: r => match trim_stop r with
              | None => None
              | Some [] => if non_ascii c then None else if is_space c then Some [] else Some [c]
              | Some (x :: r') => Some (c :: x :: r')
              end
  end.

(* strings.TrimSpace(s); None = the Unicode fallback (not modelled) *)
Definition trim_space (s : str) : option str :=
  match trim_start s with
  | None => None
  | Some s1 => trim_stop s1
  end.

(* ------------------------------------------------------------------ package strconv, base 10 *)

Inductive numres (A : Type) :=
| NumOk (v : A)
| NumSyntax           (* *NumError with Err == ErrSyntax *)
| NumRange.           (* *NumError with Err == ErrRange *)
Arguments NumOk {A} v.
Arguments NumSyntax {A}.
Arguments NumRange {A}.

(* cutoff = maxUint64/10 + 1 *)
Definition cutoff10 : N := 1844674407370955162%N.
(* maxVal = uint64(1)<<uint(bitSize) - 1, for 1 <= bitSize <= 64 (the shift of a uint64 by 64 gives
   0, minus 1 wraps to 2^64-1, which is 2^64 - 1 as well) *)
Definition max_val (bits : N) : N := (2 ^ bits - 1)%N.

(* The loop  for _, c := range []byte(s)  of ParseUint with base = 10, base0 = false.
   Source cases per byte: c == '_' && base0 - never (base0 is false); '0'..'9' - d = c - '0' < 10;
   a letter - d = lower(c) - 'a' + 10 >= 10 = base: syntax error; anything else ('_', '+', ' ', ...,
   a byte >= 0x80) - syntax error.  So: a non-digit is a syntax error.
   n >= cutoff: range error (returned at once: the rest of the string is not looked at);
   n *= 10; n1 := n + d on uint64 (wraps); n1 < n || n1 > maxVal: range error. *)
Fixpoint parse_uint_loop (maxv : N) (s : str) (n : N) : numres N :=
  match s with
  | [] => NumOk n
  | c :: r =>
      if is_digit c then
        if (cutoff10 <=? n)%N then NumRange
        else
          let n10 := go_u64_mul n 10 in
          let n1 := go_u64_add n10 (digit_val c) in
          if (n1 <? n10)%N || (maxv <? n1)%N then NumRange
          else parse_uint_loop maxv r n1
      else NumSyntax
  end.

(* strconv.ParseUint(s, 10, bits), 1 <= bits <= 64 *)
Definition parse_uint (bits : N) (s : str) : numres N :=
  match s with
  | [] => NumSyntax
  | _ :: _ => parse_uint_loop (max_val bits) s 0
  end.

(* strconv.ParseInt(s, 10, bits), 1 <= bits <= 64.  On a range error ParseUint returns maxVal
   = 2^bits - 1 >= 2^(bits-1) = cutoff together with the error, ParseInt does not return early for
   ErrRange and then finds un >= cutoff (resp. > cutoff): a range error of its own. *)
Definition parse_int (bits : N) (s : str) : numres Z :=
  match s with
  | [] => NumSyntax
  | c :: r =>
      let '(neg, body) := if Ascii.eqb c c_plus then (false, r)
                          else if Ascii.eqb c c_minus then (true, r) else (false, s) in
      match parse_uint bits body with
      | NumSyntax => NumSyntax
      | NumRange => NumRange
      | NumOk un =>
          let cutoff := (2 ^ (bits - 1))%N in
          if negb neg && (cutoff <=? un)%N then NumRange
          else if neg && (cutoff <? un)%N then NumRange
          else NumOk (if neg then (- Z.of_N un)%Z else Z.of_N un)
      end
  end.

(* ------------------------------------------------------------------ package time *)

(* int64 wrap-around *)
Definition wrap64 (z : Z) : Z := ((z + 9223372036854775808) mod 18446744073709551616 - 9223372036854775808)%Z.

(* time.Unix(sec, msec*int64(time.Millisecond)) observed through Time.Unix() and Time.Nanosecond():
   the product wraps on int64; Unix normalises nsec into [0, 1e9) (Go's / truncates toward zero:
   Z.quot), the additions on sec wrap; unixTime adds unixToInternal and Time.Unix() subtracts it
   again (both wrapping), so the observed seconds are the normalised sec itself. *)
Definition time_unix (sec msec : Z) : Z * Z :=
  let nsec := wrap64 (msec * 1000000) in
  if (nsec <? 0)%Z || (1000000000 <=? nsec)%Z then
    let n := Z.quot nsec 1000000000 in
    let sec1 := wrap64 (sec + n) in
    let nsec1 := (nsec - n * 1000000000)%Z in
    if (nsec1 <? 0)%Z then (wrap64 (sec1 - 1), (nsec1 + 1000000000)%Z) else (sec1, nsec1)
  else (sec, nsec).

(* ------------------------------------------------------------------ auparse *)

(* what ParseLogLine returns when err == nil: the fields of *AuditMessage it sets *)
Record amsg := mkMsg {
  a_typ : N;          (* RecordType (AuditMessageType is uint16) *)
  a_sec : Z;          (* first number of the header: seconds, as parsed (int64) *)
  a_msec : Z;         (* second number of the header, as parsed (int64); Timestamp = time_unix a_sec a_msec *)
  a_seq : N;          (* Sequence (uint32) *)
  a_offset : Z;       (* offset (unexported): indexOfMessage(message[end:]), -1 when there is none *)
  a_raw : str         (* RawData: the trimmed text behind "msg=" *)
}.

Inductive result :=
| POk (m : amsg)
| PErrHeader          (* errInvalidAuditHeader: "invalid audit message header" *)
| PErrType            (* errInvalidAuditMessageTypName: "invalid message type" *)
| PPanic              (* a slice expression out of range *)
| PUnmodelled.        (* outside the modelled domain, see the head of the file *)

Inductive tyres := TyOk (t : N) | TyErr | TyPanic | TyUnmodelled.

Inductive hres := HOk (sec msec : Z) (seq : N) (e : nat) | HErr | HPanic.

Definition is_msg_start (c : ascii) : bool := Ascii.eqb c c_colon || Ascii.eqb c " "%char.

(* indexOfMessage(msg) as an int *)
Definition index_of_message (s : str) : Z :=
  match index_pred is_msg_start s with Some i => Z.of_nat i | None => (-1)%Z end.

(* parseAuditHeader(line): (sec, msec, sequence, end) *)
Definition parse_audit_header (line : str) : hres :=
  match index_byte line c_lparen with                        (* start := strings.IndexRune(line, '(') *)
  | None => HErr
  | Some start =>
  match go_slice_from line start with None => HPanic | Some l1 =>
  match index_byte l1 c_dot with                             (* dot := strings.IndexRune(line[start:], '.') *)
  | None => HErr
  | Some dot0 =>
  let dot := dot0 + start in                                 (* dot += start *)
  match go_slice_from line dot with None => HPanic | Some l2 =>
  match index_byte l2 c_colon with                           (* sep := strings.IndexRune(line[dot:], ':') *)
  | None => HErr
  | Some sep0 =>
  let sep := sep0 + dot in                                   (* sep += dot *)
  match go_slice_from line sep with None => HPanic | Some l3 =>
  match index_byte l3 c_rparen with                          (* end := strings.IndexRune(line[sep:], ')') *)
  | None => HErr
  | Some end0 =>
  let e := end0 + sep in                                     (* end += sep *)
  match go_slice line (start + 1) dot with None => HPanic | Some ssec =>
  match parse_int 64 ssec with                               (* strconv.ParseInt(line[start+1:dot], 10, 64) *)
  | NumSyntax | NumRange => HErr
  | NumOk sec =>
  match go_slice line (dot + 1) sep with None => HPanic | Some smsec =>
  match parse_int 64 smsec with                              (* strconv.ParseInt(line[dot+1:sep], 10, 64) *)
  | NumSyntax | NumRange => HErr
  | NumOk msec =>
  match go_slice line (sep + 1) e with None => HPanic | Some sseq =>
  match parse_uint 32 sseq with                              (* strconv.ParseUint(line[sep+1:end], 10, 32) *)
  | NumSyntax | NumRange => HErr
  | NumOk sq => HOk sec msec sq e
  end end end end end end end end end end end end end.

(* Parse(typ, message) *)
Definition parse (typ : N) (message : str) : result :=
  match trim_space message with                              (* message = strings.TrimSpace(message) *)
  | None => PUnmodelled
  | Some m =>
      match parse_audit_header m with
      | HErr => PErrHeader
      | HPanic => PPanic
      | HOk sec msec sq e =>
          match go_slice_from m e with                       (* message[end:] *)
          | None => PPanic
          | Some tl => POk (mkMsg typ sec msec sq (index_of_message tl) m)
          end
      end
  end.

Section Table.
  (* auditMessageNameToType[name], for the upper-cased name *)
  Variable type_of : str -> option N.

  (* GetAuditMessageType(name) *)
  Definition get_type (name : str) : tyres :=
    if existsb non_ascii name then TyUnmodelled else
    let name := to_upper_ascii name in                       (* name = strings.ToUpper(name) *)
    match type_of name with
    | Some t => TyOk t                                       (* typ, found := auditMessageNameToType[name] *)
    | None =>
    match index_byte name c_lbrack with                      (* start := strings.IndexByte(name, '[') *)
    | None => TyErr
    | Some start =>
    match go_slice_from name (start + 1) with None => TyPanic | Some name1 =>   (* name = name[start+1:] *)
    match index_byte name1 c_rbrack with                     (* end := strings.IndexByte(name, ']') *)
    | None => TyErr
    | Some e =>
    match go_slice_to name1 e with None => TyPanic | Some name2 =>              (* name = name[:end] *)
    match parse_uint 16 name2 with                           (* strconv.ParseUint(name, 10, 16) *)
    | NumOk v => TyOk v                                      (* AuditMessageType(num) *)
    | NumSyntax | NumRange => TyErr
    end end end end end end.

  (* ParseLogLine(line) *)
  Definition parse_log_line (line : str) : result :=
    match go_index line msg_token with                       (* msgIndex := strings.Index(line, msgToken) *)
    | None => PErrHeader                                     (* msgIndex == -1 *)
    | Some i =>
        if i <? length type_token + 1 then PErrHeader        (* msgIndex < len(typeToken)+1 *)
        else
          match go_slice line (length type_token) (i - 1) with   (* typName := line[len(typeToken) : msgIndex-1] *)
          | None => PPanic
          | Some tname =>
              match get_type tname with
              | TyErr => PErrType
              | TyPanic => PPanic
              | TyUnmodelled => PUnmodelled
              | TyOk typ =>
                  match go_slice_from line (i + length msg_token) with   (* msg := line[msgIndex+len(msgToken):] *)
                  | None => PPanic
                  | Some msg => parse typ msg
                  end
              end
          end
    end.
End Table.

(* what processors/auditd/auditd.go parseAuditLogs does with one received line ([is_empty] of
   Model/AuditIR.v / Gen/AuditProg.v is  line == "" ) *)
Definition audit_is_empty (l : str) : bool := match l with [] => true | _ :: _ => false end.

Inductive line_fate := LSkipped | LPushed (m : amsg) | LStops (r : result).

Definition audit_line_fate (type_of : str -> option N) (l : str) : line_fate :=
  if audit_is_empty l then LSkipped
  else match parse_log_line type_of l with
       | POk m => LPushed m
       | r => LStops r
       end.

(* the parser as the oracle [parse] of Model/AuditProc.v / Model/AuditIR.v: Some = the message pushed to the
   reassembler, None = ParseLogLine returned an error.  Meaningful for lines inside the modelled domain only
   (parse_log_line l <> PUnmodelled): the theorems that use it say so. *)
Definition parse_opt (type_of : str -> option N) (l : str) : option amsg :=
  match parse_log_line type_of l with POk m => Some m | _ => None end.
