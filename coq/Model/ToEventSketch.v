(* Interpretation of the GENERATED sketch of user.toAuditEvent (Gen/ToEventSketch.v) into the
   observable event of the hand model (Model/ToEvent.v).  Definitions only.
   The interpretation fails closed (None): a field fed from a source of the wrong kind (or from the
   clock / a random id / an unknown field), metadata keys other than exactly action, how, object,
   a guarded key other than exactly one process_args, or duplicated keys yield None. *)
From Coq Require Import Ascii String List Bool ZArith.
Import ListNotations.
From AM Require Import Lib.Bytes Model.ToEvent Gen.ToEventSketch.
Open Scope string_scope.

(* sources by the type of what they deliver *)
Definition te_time (s : te_src) (e : cevent) : option Z :=
  match s with FromEvTimestamp => Some (ce_time e) | _ => None end.

Definition te_string (s : te_src) (e : cevent) : option str :=
  match s with
  | FromEvSession => Some (ce_session e)
  | FromEvResult => Some (ce_result e)
  | FromEvSummaryAction => Some (ce_action e)
  | FromEvSummaryHow => Some (ce_how e)
  | _ => None
  end.

Definition te_object (s : te_src) (e : cevent) : option cobject :=
  match s with FromEvSummaryObject => Some (ce_object e) | _ => None end.

Definition te_strings (s : te_src) (e : cevent) : option (list str) :=
  match s with FromEvProcessArgs => Some (ce_args e) | _ => None end.

(* subjects / source / target must be the login's subjects / source / target *)
Definition te_ident (sk : te_sketch) (l : login_ident) : option login_ident :=
  match te_subjects sk, te_source sk, te_target sk with
  | FromLoginSubjects, FromLoginSource, FromLoginTarget =>
      Some {| li_subjects := li_subjects l;
              li_src_type := li_src_type l; li_src_value := li_src_value l; li_src_extra := li_src_extra l;
              li_target := li_target l |}
  | _, _, _ => None
  end.

(* switch scrutinee { case lit: outcome ... } with a default *)
Fixpoint te_outcome_by (cases : list (string * string)) (default : string) (r : str) : str :=
  match cases with
  | [] => s2l default
  | (lit, out) :: rest => if seqb r (s2l lit) then s2l out else te_outcome_by rest default r
  end.

Fixpoint te_lookup (k : string) (l : list (string * te_src)) : option te_src :=
  match l with
  | [] => None
  | (k', v) :: r => if String.eqb k k' then Some v else te_lookup k r
  end.

Fixpoint te_nodup (l : list string) : bool :=
  match l with
  | [] => true
  | k :: r => negb (existsb (String.eqb k) r) && te_nodup r
  end.

(* exactly the keys action, how, object *)
Definition te_extra_ok (l : list (string * te_src)) : bool :=
  Nat.eqb (length l) 3 && te_nodup (map fst l)
  && forallb (fun kv => existsb (String.eqb (fst kv)) ["action"; "how"; "object"]) l.

(* if len(g) > 0 { Extra["process_args"] = v }: absent, or the (then non-empty) list *)
Definition te_args (l : list (te_guard * string * te_src)) (e : cevent) : option (option (list str)) :=
  match l with
  | [(GuardNonEmpty g, k, v)] =>
      if String.eqb k "process_args" then
        match te_strings g e, te_strings v e with
        | Some gl, Some vl => Some (match gl with [] => None | _ :: _ => Some vl end)
        | _, _ => None
        end
      else None
  | _ => None
  end.

Definition render_sketch (sk : te_sketch) (l : login_ident) (e : cevent) : option uaction :=
  if te_extra_ok (te_extra sk) then
    match te_ident sk l, te_time (te_logged_at sk) e, te_string (te_audit_id sk) e,
          te_string (te_outcome_scrutinee sk) e, te_args (te_extra_guarded sk) e with
    | Some id, Some t, Some aid, Some r, Some args =>
        match te_lookup "action" (te_extra sk), te_lookup "how" (te_extra sk), te_lookup "object" (te_extra sk) with
        | Some sa, Some sh, Some so =>
            match te_string sa e, te_string sh e, te_object so e with
            | Some a, Some h, Some o =>
                Some {| ua_type := s2l (te_type sk);
                        ua_component := s2l (te_component sk);
                        ua_logged_at := t;
                        ua_audit_id := aid;
                        ua_outcome := te_outcome_by (te_outcome_cases sk) (te_outcome_default sk) r;
                        ua_action := a;
                        ua_how := h;
                        ua_object := o;
                        ua_args := args;
                        ua_ident := id |}
            | _, _, _ => None
            end
        | _, _, _ => None
        end
    | _, _, _, _, _ => None
    end
  else None.
