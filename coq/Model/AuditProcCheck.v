(* Correspondence check for the audit processor (C15): case formats written by
   harness/auditproc and their comparison with Model/AuditProc.v.

   Level 1 (real parseAuditLogs + real libaudit.Reassembler + real reassemblerCB, fake Auditor):
     the model's on_line / reass / shutdown are composed without the main loop's select.
     Inputs: per line its class as found by the REAL auparse.ParseLogLine (empty / error /
     sequence number, record type, "timestamp before After"), Maintain calls, pauses longer than
     the event timeout, the reassembler limits, the Auditor's fault plan (call indices at which
     it fails).  Observed: the groups ReassemblyComplete received (line indices, in order), the
     events handed to the Auditor, the content of the errors channel, the EventsLost arguments,
     the parser's result and how many lines it took.
   Level 2 (real Auditd.Read end to end): the model's [read] with the correlator instantiated by
     Model/Tracker.v.  Inputs: line classes, for the head line of each group the (session, type,
     pid) of the event the REAL aucoalesce produces, logins, the encoder's failure budget.
     Observed: Read's result class, the offending line, the number of events written. *)
From Coq Require Import List Bool Arith ZArith NArith.
Import ListNotations.
From AM Require Import Model.AuditProc Model.Tracker.
From AM Require Gen.Consts.

(* record types are written as binary numbers (N): unary literals like 1327 would dominate the
   time Coq needs to read a case file *)
Inductive cline := LE | LB | LM (seq : N) (ty : N) (old : bool).
Record cm := { c_idx : nat; c_seq : N; c_ty : nat; c_old : bool }.
Definition iline := (nat * cline)%type.

Definition c_empty (l : iline) : bool := match snd l with LE => true | _ => false end.
Definition c_parse (l : iline) : option cm :=
  match snd l with
  | LM s t o => Some {| c_idx := fst l; c_seq := s; c_ty := N.to_nat t; c_old := o |}
  | _ => None
  end.

Fixpoint nat_list_eqb (a b : list nat) : bool :=
  match a, b with
  | [], [] => true
  | x :: r, y :: r' => Nat.eqb x y && nat_list_eqb r r'
  | _, _ => false
  end.

Fixpoint list_eqb {A} (f : A -> A -> bool) (a b : list A) : bool :=
  match a, b with
  | [], [] => true
  | x :: r, y :: r' => f x y && list_eqb f r r'
  | _, _ => false
  end.

Definition onat_eqb (a b : option nat) : bool :=
  match a, b with Some x, Some y => Nat.eqb x y | None, None => true | _, _ => false end.

Definition head_idx (g : list cm) : nat := match g with m :: _ => c_idx m | [] => 0 end.

(* ---------- level 1 ---------- *)
Definition ev1 := list cm.
Definition coalesce1 (g : list cm) : option ev1 := Some g.
Definition old1 (g : ev1) : bool := match g with m :: _ => c_old m | [] => false end.
Definition audit1 (failat : list nat) (n : nat) (_ : ev1) : nat * option nat :=
  (S n, if existsb (Nat.eqb n) failat then Some n else None).

Inductive item1 := K1Line (c : cline) | K1Tick | K1Pause.

Definition pst1 := pst iline cm ev1 nat nat.

Section L1.
  Variables (maxsz timeout : nat) (failat : list nat).

  Definition on_line1 := on_line iline cm ev1 nat nat c_empty c_parse c_seq c_ty coalesce1 old1 (audit1 failat) maxsz timeout.
  Definition reass1 := reass iline cm ev1 nat nat c_seq c_ty coalesce1 old1 (audit1 failat) maxsz timeout.

  Fixpoint l1_go (s : pst1) (now idx : nat) (items : list item1) : pst1 :=
    match p_perr _ _ _ _ _ s with
    | Some _ => s                 (* parseAuditLogs has returned: the harness stops feeding *)
    | None =>
        match items with
        | [] => s
        | K1Line c :: r => l1_go (on_line1 now (idx, c) s) now (S idx) r
        | K1Tick :: r => l1_go (reass1 s (RMaintain now)) now idx r
        | K1Pause :: r => l1_go s (now + timeout + 1) idx r
        end
    end.

  Definition l1_final (items : list item1) : pst1 :=
    reass1 (l1_go (pinit iline cm ev1 nat nat 0) 0 0 items) RClose.
End L1.

(* observed slot: None = empty, Some k = the Auditor's error of call k, Some 4999 = coalesce error *)
Definition slot_code (s : option (rerr cm nat)) : option nat :=
  match s with
  | None => None
  | Some (EAudit _ _ _ k) => Some k
  | Some (ECoalesce _ _ _) => Some 4999
  end.

Inductive case1 :=
| C1 (maxsz timeout : nat) (failat : list nat) (items : list item1)
     (groups : list (list nat)) (handed : list nat) (slot : option nat) (lost : list N)
     (perr : option nat) (consumed : nat).

Definition case1_ok (c : case1) : bool :=
  let '(C1 maxsz timeout failat items groups handed slot lost perr consumed) := c in
  let s := l1_final maxsz timeout failat items in
  let cbs := p_cb _ _ _ _ _ s in
  list_eqb nat_list_eqb (map (map c_idx) (cb_groups _ _ _ _ cbs)) groups
  && nat_list_eqb (map head_idx (cb_handed _ _ _ _ cbs)) handed
  && onat_eqb (slot_code (cb_slot _ _ _ _ cbs)) slot
  && list_eqb N.eqb (cb_lost _ _ _ _ cbs) lost
  && onat_eqb (option_map fst (p_perr _ _ _ _ _ s)) perr
  && Nat.eqb (length (p_consumed _ _ _ _ _ s)) consumed.

(* ---------- level 1, sequence numbers around the 2^32 wrap or further apart than 2^24 ----------
   The same composition with the reassembler ordered by the SOURCE's comparison ([rstep_by seq_less], Model/AuditProc.v):
   the harness uses it for streams whose numbers form two clusters (either side of the wrap, or two groups further apart
   than 2^24-1), where sequenceNumSlice.Less is a strict total order that is not the plain one.  Inside a window
   [rstep_by seq_less = rstep] (Proofs/ReassemblerIRTie.v), so this is the check above for every other stream. *)
Section L1By.
  Variables (maxsz timeout : nat) (failat : list nat).

  Definition reass1_by (s : pst1) (o : rop cm) : pst1 :=
    let '(r', ev, lost) := rstep_by cm c_seq c_ty seq_less maxsz timeout (p_r _ _ _ _ _ s) o in
    {| p_r := r';
       p_cb := callback cm ev1 nat nat coalesce1 old1 (audit1 failat) (p_cb _ _ _ _ _ s) ev lost;
       p_perr := p_perr _ _ _ _ _ s; p_consumed := p_consumed _ _ _ _ _ s;
       p_ops := p_ops _ _ _ _ _ s ++ [o] |}.

  Definition on_line1_by (now : nat) (l : iline) (s : pst1) : pst1 :=
    let s := consume iline cm ev1 nat nat l s in
    if c_empty l then s else
    match c_parse l with
    | None => set_perr iline cm ev1 nat nat l s
    | Some m => reass1_by s (RPush now m)
    end.

  Fixpoint l1_go_by (s : pst1) (now idx : nat) (items : list item1) : pst1 :=
    match p_perr _ _ _ _ _ s with
    | Some _ => s
    | None =>
        match items with
        | [] => s
        | K1Line c :: r => l1_go_by (on_line1_by now (idx, c) s) now (S idx) r
        | K1Tick :: r => l1_go_by (reass1_by s (RMaintain now)) now idx r
        | K1Pause :: r => l1_go_by s (now + timeout + 1) idx r
        end
    end.

  Definition l1_final_by (items : list item1) : pst1 :=
    reass1_by (l1_go_by (pinit iline cm ev1 nat nat 0) 0 0 items) RClose.
End L1By.

Definition case1_ok_by (c : case1) : bool :=
  let '(C1 maxsz timeout failat items groups handed slot lost perr consumed) := c in
  let s := l1_final_by maxsz timeout failat items in
  let cbs := p_cb _ _ _ _ _ s in
  list_eqb nat_list_eqb (map (map c_idx) (cb_groups _ _ _ _ cbs)) groups
  && nat_list_eqb (map head_idx (cb_handed _ _ _ _ cbs)) handed
  && onat_eqb (slot_code (cb_slot _ _ _ _ cbs)) slot
  && list_eqb N.eqb (cb_lost _ _ _ _ cbs) lost
  && onat_eqb (option_map fst (p_perr _ _ _ _ _ s)) perr
  && Nat.eqb (length (p_consumed _ _ _ _ _ s)) consumed.

(* ---------- level 2 ---------- *)
Definition as2 := (tstate * nat)%type.        (* correlator state, number of events written *)

Definition err_of (r : tres) : option tres := match r with ROk => None | x => Some x end.

Definition audit2 (a : as2) (ev : aev) : as2 * option tres :=
  let '(st, out, r) := audit_event (fst a) ev 0%Z in ((st, snd a + length out), err_of r).
Definition rlogin2 (a : as2) (l : login) : as2 * option tres :=
  let '(st, out, r) := remote_login (fst a) l 0 in ((st, snd a + length out), err_of r).

(* what the real aucoalesce made of the group whose first record is line i: session, type, pid *)
Definition evrow := (nat * (ses * atype * option Z))%type.

Fixpoint lookup_row (i : nat) (t : list evrow) : option (ses * atype * option Z) :=
  match t with
  | [] => None
  | (k, v) :: r => if Nat.eqb i k then Some v else lookup_row i r
  end.

Definition coalesce2 (tab : list evrow) (g : list cm) : option aev :=
  match g with
  | [] => None
  | m :: _ =>
      match lookup_row (c_idx m) tab with
      | Some (s, t, p) => Some {| a_id := c_idx m; a_ses := s; a_type := t; a_pid := p |}
      | None => Some {| a_id := c_idx m; a_ses := SNone; a_type := TOther 0; a_pid := None |}
      end
  end.

Inductive item2 := JL (c : cline) | JG (id : nat) (pid : Z) (valid : bool) | JC.

Fixpoint inputs2 (idx : nat) (items : list item2) : list (inp iline login) :=
  match items with
  | [] => []
  | JL c :: r => ILine _ _ 0 (idx, c) :: inputs2 (S idx) r
  | JG id pid v :: r => ILogin _ _ {| l_id := id; l_pid := pid; l_at := 0%Z; l_valid := v |} :: inputs2 idx r
  | JC :: r => ICancel _ _ :: inputs2 idx r
  end.

Definition read2 (tab : list evrow) (budget : option nat) (items : list item2) :=
  read iline cm aev tres login as2 c_empty c_parse c_seq c_ty (coalesce2 tab) (fun _ => false) audit2 rlogin2
       (Z.to_nat Gen.Consts.maxEventsInFlight) 2000 (tinit budget, 0) (inputs2 0 items).

(* result classes: 0 still running, 1 parse error (arg = line), 2 callback: write error,
   3 callback: unparsable pid, 4 login: invalid, 5 login: write error, 6 cancelled,
   7 callback: coalesce error, 8 other *)
Definition res_code (r : result iline cm tres) : nat * nat :=
  match r with
  | RNone _ _ _ => (0, 0)
  | RParse _ _ _ l => (1, fst l)
  | RSlot _ _ _ (EAudit _ _ _ RErrWrite) => (2, 0)
  | RSlot _ _ _ (EAudit _ _ _ RErrPid) => (3, 0)
  | RSlot _ _ _ (ECoalesce _ _ _) => (7, 0)
  | RLogin _ _ _ RErrValidate => (4, 0)
  | RLogin _ _ _ RErrWrite => (5, 0)
  | RCancel _ _ _ => (6, 0)
  | _ => (8, 0)
  end.

Inductive case2 :=
| C2 (tab : list evrow) (budget : option nat) (items : list item2) (res arg written : nat).

Definition case2_ok (c : case2) : bool :=
  let '(C2 tab budget items res arg written) := c in
  let o := read2 tab budget items in
  let rc := res_code (o_res _ _ _ _ _ o) in
  Nat.eqb (fst rc) res && Nat.eqb (snd rc) arg
  && Nat.eqb (snd (cb_as _ _ _ _ (p_cb _ _ _ _ _ (o_fin _ _ _ _ _ o)))) written.

Inductive acase := A1 (c : case1) | A1W (c : case1) | A2 (c : case2).

Definition acase_ok (c : acase) : bool :=
  match c with A1 c => case1_ok c | A1W c => case1_ok_by c | A2 c => case2_ok c end.

Fixpoint mism_from {A} (f : A -> bool) (i : nat) (cs : list A) : list nat :=
  match cs with
  | [] => []
  | c :: r => if f c then mism_from f (S i) r else i :: mism_from f (S i) r
  end.

Definition mismatches (cs : list acase) : list nat := mism_from acase_ok 0 cs.
