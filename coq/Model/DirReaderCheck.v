(* Correspondence check for the directory reader (C20): compact case format written by
   harness/dirreader and the boolean comparison of the model's deliveries with what the real
   LogDirReader delivered.

   Byte strings are lists of segments: [H "6162"] = hex-coded bytes, [R n "78"] = n repetitions
   (long lines are generated as runs, which keeps the case files small: Coq elaborates literals
   at about 20 KB/s).  A group of delivered lines is coded as (number of lines, the lines each
   followed by a newline, concatenated); because model lines never contain a newline this
   coding is faithful: equal count and equal concatenation imply equal lines. *)
From Coq Require Import Ascii String List Bool Arith NArith.
Import ListNotations.
From AM Require Import Lib.Bytes Model.DirReader.

Inductive seg := H (s : string) | R (n : N) (s : string).

Fixpoint rep (n : nat) (x acc : str) : str :=
  match n with 0 => acc | S k => rep k x (x ++ acc) end.

Fixpoint dec (l : list seg) : str :=
  match l with
  | [] => []
  | H s :: r => hx s ++ dec r
  | R n s :: r => rep (N.to_nat n) (hx s) (dec r)
  end.

(* operations: append / rotate (rename+create) / recreate (remove+create) / truncate / chmod *)
Inductive cop := A (b : list seg) | Ro | Rc | Tr | Ch.

Definition dec_op (o : cop) : op :=
  match o with A b => Append (dec b) | Ro => Rotate | Rc => Recreate | Tr => Truncate | Ch => Chmod end.

Definition grp := (nat * list seg)%type.

Record case := Case {
  c_dir : list (name * list seg);   (* directory entries as listed, with content *)
  c_ops : list cop;                 (* changes of audit.log after start-up *)
  c_sorted : list name;             (* observed: result of sortLogNamesOldToNew *)
  c_init : list grp;                (* observed: lines delivered per initial file *)
  c_steps : list grp                (* observed: lines delivered per operation *)
}.

Fixpoint all2 {A B} (f : A -> B -> bool) (a : list A) (b : list B) : bool :=
  match a, b with
  | [], [] => true
  | x :: r, y :: r' => f x y && all2 f r r'
  | _, _ => false
  end.

Definition grp_ok (ls : list str) (g : grp) : bool :=
  Nat.eqb (length ls) (fst g) && seqb (join ls) (dec (snd g)).

Definition case_parts (c : case) : bool * bool * bool :=
  let d := map (fun e => (fst e, dec (snd e))) (c_dir c) in
  let '(names, init, steps) := run d (map dec_op (c_ops c)) in
  (all2 name_eqb names (c_sorted c), all2 grp_ok init (c_init c), all2 grp_ok steps (c_steps c)).

Definition case_ok (c : case) : bool :=
  let '(a, b, d) := case_parts c in a && b && d.

Fixpoint mism_from {A} (f : A -> bool) (i : nat) (cs : list A) : list nat :=
  match cs with
  | [] => []
  | c :: r => if f c then mism_from f (S i) r else i :: mism_from f (S i) r
  end.

Definition mismatches (cs : list case) : list nat := mism_from case_ok 0 cs.

(* for diagnosis by hand: which part of case i differs (sorted names, initial lines, tail lines) *)
Definition diag (cs : list case) (i : nat) : option (bool * bool * bool) :=
  option_map case_parts (nth_error cs i).
