(* Sequential model of processors/auditd/sessiontracker/sessiontracker.go
   (the correlator).  Definitions only; proofs are in Proofs/Tracker*.v.

   Abstractions (each is part of the correspondence check, see DESIGN.md):
   - a remote login is identified by [l_id]; its identity content (subjects, source,
     target of the UserLogin event it points to) is a function of that id;
   - an audit event is identified by [a_id]; the rendering of a UserAction from
     (login, audit event) is Model/ToEvent.v; here an emitted event is that pair;
   - the session field is [SNone] (""), [SUnset] ("unset") or [SId n] (any other text);
   - the PID text of an audit event is [Some z] when strconv.Atoi parses it, else [None];
   - times are integers; [Audit ev now] carries the value time.Now() returns;
   - the event writer succeeds [wb] more times ([None] = never fails), then fails for ever;
   - Go's random map iteration order in RemoteLogin's scan is the [choice] argument. *)
From Coq Require Import List Bool Arith ZArith NArith.
Import ListNotations.
From AM Require Import Lib.Assoc.

Inductive atype := TLogin | TCredDisp | TOther (n : nat).
Inductive ses := SNone | SUnset | SId (n : N).

Record aev := { a_id : nat; a_ses : ses; a_type : atype; a_pid : option Z }.
Record login := { l_id : nat; l_pid : Z; l_at : Z; l_valid : bool }.

Record user := { u_added : Z; u_pid : Z; u_login : option login; u_cached : list aev }.

Record tstate := {
  sess : list (N * user);      (* sessIDsToUsers *)
  parked : list (Z * login);   (* pidsToRULs     *)
  wb : option nat              (* remaining successful writes *)
}.

Definition emitted := (login * aev)%type.

Inductive tres := ROk | RErrValidate | RErrWrite | RErrPid.

Inductive top :=
| RemoteLogin (l : login) (choice : nat)
| Audit (ev : aev) (now : Z)
| CleanSess (t : Z)      (* DeleteUsersWithoutLoginsBefore(t) *)
| CleanLogins (t : Z).   (* DeleteRemoteUserLoginsBefore(t)   *)

Definition tinit (budget : option nat) : tstate := {| sess := []; parked := []; wb := budget |}.

Definition is_login (t : atype) : bool := match t with TLogin => true | _ => false end.
Definition is_disp (t : atype) : bool := match t with TCredDisp => true | _ => false end.

(* RemoteUserLogin.Validate: Source != nil, PID > 0, CredUserID != "" *)
Definition validate (l : login) : bool := l_valid l && (0 <? l_pid l)%Z.

(* eventWriter.Write, once *)
Definition write1 (b : option nat) : option nat * bool :=
  match b with
  | None => (None, true)
  | Some 0 => (Some 0, false)
  | Some (S k) => (Some k, true)
  end.

(* user.writeAndClearCache: writes in order, stops at the first failure.
   Returns the budget, what was written, and whether all writes succeeded. *)
Fixpoint write_all (b : option nat) (l : login) (evs : list aev) : option nat * list emitted * bool :=
  match evs with
  | [] => (b, [], true)
  | e :: r =>
      match write1 b with
      | (b', true) => let '(b'', out, ok) := write_all b' l r in (b'', (l, e) :: out, ok)
      | (b', false) => (b', [], false)
      end
  end.

Definition unbound (u : user) : bool := match u_login u with None => true | Some _ => false end.

(* sessions the scan of RemoteLogin may stop at: no login yet and same PID *)
Definition candidates (p : Z) (m : list (N * user)) : list (N * user) :=
  filter (fun su => unbound (snd su) && (u_pid (snd su) =? p)%Z) m.

Definition has_disp (evs : list aev) : bool := existsb (fun e => is_disp (a_type e)) evs.

(* the scan stops at the first candidate in Go's (random) iteration order: any candidate
   may be the one; [choice] selects it (taken modulo the number of candidates) *)
Definition pick {A} (choice : nat) (l : list A) : option A :=
  match l with
  | [] => None
  | x :: _ => Some (nth (choice mod length l) l x)
  end.

Definition remote_login (st : tstate) (l : login) (choice : nat) : tstate * list emitted * tres :=
  if negb (validate l) then (st, [], RErrValidate) else
  match pick choice (candidates (l_pid l) (sess st)) with
  | Some (s, u) =>
      (* bind in place, flush the held events *)
      let '(b', out, ok) := write_all (wb st) l (u_cached u) in
      if ok then
        let u' := {| u_added := u_added u; u_pid := u_pid u; u_login := Some l; u_cached := [] |} in
        let sess' := if has_disp (u_cached u)
                     then adel N.eqb s (sess st)            (* the session ended before its login arrived *)
                     else aset N.eqb s u' (sess st) in
        ({| sess := sess'; parked := parked st; wb := b' |}, out, ROk)
      else
        let u' := {| u_added := u_added u; u_pid := u_pid u; u_login := Some l; u_cached := u_cached u |} in
        ({| sess := aset N.eqb s u' (sess st); parked := parked st; wb := b' |}, out, RErrWrite)
  | None =>
      ({| sess := sess st; parked := aset Z.eqb (l_pid l) l (parked st); wb := wb st |}, [], ROk)
  end.

Definition audit_with_session (st : tstate) (s : N) (u : user) (ev : aev) : tstate * list emitted * tres :=
  match u_login u with
  | None =>
      let u' := {| u_added := u_added u; u_pid := u_pid u; u_login := None; u_cached := u_cached u ++ [ev] |} in
      ({| sess := aset N.eqb s u' (sess st); parked := parked st; wb := wb st |}, [], ROk)
  | Some l =>
      (* `defer DeleteUnsafe` for CRED_DISP runs whatever the writes return *)
      let fin := fun (u' : user) => if is_disp (a_type ev) then adel N.eqb s (sess st) else aset N.eqb s u' (sess st) in
      let '(b', out, ok) := write_all (wb st) l (u_cached u) in
      if ok then
        let u' := {| u_added := u_added u; u_pid := u_pid u; u_login := Some l; u_cached := [] |} in
        match write1 b' with
        | (b'', true) => ({| sess := fin u'; parked := parked st; wb := b'' |}, out ++ [(l, ev)], ROk)
        | (b'', false) => ({| sess := fin u'; parked := parked st; wb := b'' |}, out, RErrWrite)
        end
      else ({| sess := fin u; parked := parked st; wb := b' |}, out, RErrWrite)
  end.

Definition audit_without_session (st : tstate) (s : N) (ev : aev) (now : Z) : tstate * list emitted * tres :=
  if negb (is_login (a_type ev)) then (st, [], ROk) else
  match a_pid ev with
  | None => (st, [], RErrPid)
  | Some p =>
      match aget Z.eqb p (parked st) with
      | Some l =>
          let u := {| u_added := now; u_pid := p; u_login := Some l; u_cached := [] |} in
          let st' := fun b => {| sess := aset N.eqb s u (sess st); parked := adel Z.eqb p (parked st); wb := b |} in
          match write1 (wb st) with
          | (b', true) => (st' b', [(l, ev)], ROk)
          | (b', false) => (st' b', [], RErrWrite)
          end
      | None =>
          let u := {| u_added := now; u_pid := p; u_login := None; u_cached := [ev] |} in
          ({| sess := aset N.eqb s u (sess st); parked := parked st; wb := wb st |}, [], ROk)
      end
  end.

Definition audit_event (st : tstate) (ev : aev) (now : Z) : tstate * list emitted * tres :=
  match a_ses ev with
  | SNone | SUnset => (st, [], ROk)
  | SId s =>
      match aget N.eqb s (sess st) with
      | Some u => audit_with_session st s u ev
      | None => audit_without_session st s ev now
      end
  end.

Definition clean_sess (st : tstate) (t : Z) : tstate :=
  {| sess := filter (fun su => negb (unbound (snd su) && (u_added (snd su) <? t)%Z)) (sess st);
     parked := parked st; wb := wb st |}.

Definition clean_logins (st : tstate) (t : Z) : tstate :=
  {| sess := sess st;
     parked := filter (fun pl => negb (l_at (snd pl) <? t)%Z) (parked st); wb := wb st |}.

Definition tstep (st : tstate) (o : top) : tstate * list emitted * tres :=
  match o with
  | RemoteLogin l c => remote_login st l c
  | Audit ev now => audit_event st ev now
  | CleanSess t => (clean_sess st t, [], ROk)
  | CleanLogins t => (clean_logins st t, [], ROk)
  end.

(* Running a history: the daemon stops at the first error (fail-stop, C15), but the
   correlator itself has no such notion; [trun] keeps going, which is the stronger setting. *)
Fixpoint trun (st : tstate) (h : list top) : tstate * list emitted :=
  match h with
  | [] => (st, [])
  | o :: r => let '(st', out, _) := tstep st o in
              let '(st'', out') := trun st' r in (st'', out ++ out')
  end.

Definition outs (h : list top) : list emitted := snd (trun (tinit None) h).
Definition final (h : list top) : tstate := fst (trun (tinit None) h).

