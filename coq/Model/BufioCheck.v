(* Correspondence check for the bufio.Reader model (C12, also used by C07 / C20): compact
   observation format written by harness/bufio and its comparison with Model/Bufio.v, evaluated by
   vm_compute.

   One case = one real bufio.NewReaderSize(script, size) and the sequence of ReadString(delim)
   calls the harness made on it.  Per call the harness recorded: the returned string, the class
   of the returned error, Buffered() after the call, and the number of Read calls the script
   reader had served by then.  The model makes the same number of calls on the same script and
   must produce the same four values each time: no canonicalisation.
   Byte strings use the run-length encoding of Model/FramingCheck.v ([L]/[R] segments, expanded
   to plain bytes before anything runs); the script's chunks are given as the bytes of all
   chunks plus (size, count) pairs (size 0 = an empty chunk, i.e. a (0, nil) read). *)
From Coq Require Import Ascii String List Bool Arith NArith.
Import ListNotations.
From AM Require Import Lib.Bytes Model.Framing Model.FramingCheck Model.Bufio.

Inductive oerr :=
| ONil            (* err == nil *)
| OEof            (* err == io.EOF *)
| OSrc            (* err == the script's other error value *)
| ONoProgress     (* err == io.ErrNoProgress *)
| OUnknown.       (* anything else (bufio.ErrBufferFull included): never matches *)

Inductive ocall := OCall (s : enc) (e : oerr) (buffered served : N).

Inductive bcase :=
| BCase (size : N) (bytes : enc) (sizes : list (N * N)) (lastb : enc) (eof : bool) (delim : N)
        (calls : list ocall).

Definition err_matches (m : option error) (o : oerr) : bool :=
  match m, o with
  | None, ONil | Some EEOF, OEof | Some EOther, OSrc | Some ENoProgress, ONoProgress => true
  | _, _ => false
  end.

Definition source_of (bytes : enc) (sizes : list (N * N)) (lastb : enc) (eof : bool) : source :=
  mkSource (chop (expand_sizes sizes) (expand bytes)) (expand lastb) (if eof then EEOF else EOther) 0.

(* make the calls one after the other; a panic or out-of-fuel outcome ends the run with no
   further entries, so that the lengths differ and the case mismatches *)
Fixpoint run_calls (d : ascii) (b : reader) (calls : list ocall) : bool :=
  match calls with
  | [] => true
  | OCall s e nb ns :: rest =>
      match read_string_b d b with
      | RSOk line me b' =>
          seqb line (expand s) && err_matches me e &&
          (N.of_nat (buffered_n b') =? nb)%N && (N.of_nat (served (rsrc b')) =? ns)%N &&
          run_calls d b' rest
      | _ => false
      end
  end.

Definition bcase_ok (c : bcase) : bool :=
  let '(BCase size bytes sizes lastb eof delim calls) := c in
  run_calls (ascii_of_N delim) (new_reader_size (source_of bytes sizes lastb eof) (N.to_nat size)) calls.

Definition bufio_mismatches (cs : list bcase) : list nat := mism_from bcase_ok 0 cs.
