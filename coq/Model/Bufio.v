(* bufio.Reader (Go 1.23.5, $GOROOT/src/bufio/bufio.go) at ARRAY level: the part that
   NamedPipeIngester.Ingest and the directory reader use -- NewReaderSize / NewReader, fill,
   readErr, Buffered, ReadSlice, collectFragments, ReadString -- followed statement by
   statement.  Definitions only; the proofs (invariant, the ReadString contract [read_string] of
   Model/Framing.v, the Ingest loop) are in Proofs/BufioLemmas.v; the tie to the real package is
   harness/bufio + Model/BufioCheck.v.

   What is in the state:   buf (a byte array of FIXED length len(b.buf)), r, w, err, and the
                           underlying io.Reader as a script (below).
   What is left out:       lastByte / lastRuneSize (only UnreadByte / UnreadRune read them);
                           totalLen of collectFragments (only sizes the strings.Builder);
                           NewReaderSize's "is rd already a *bufio.Reader" shortcut (rd is a file);
                           errNegativeRead (a count is a nat here).
   Aliasing:               ReadSlice returns a slice INTO b.buf which the next fill overwrites;
                           collectFragments therefore clones each full buffer (bytes.Clone).  Values
                           are immutable here, so the clone is the identity; that the real code does
                           clone is checked by the correspondence harness (records longer than the
                           buffer would come back corrupted otherwise).
   Panics:                 "bufio: tried to fill full buffer" and an out-of-range slice expression are
                           explicit outcomes; Proofs/BufioLemmas.v shows that no reachable state
                           produces them.
   Loops:                  fill's `for i := maxConsecutiveEmptyReads; i > 0; i--` is structural;
                           the two `for { }` loops (ReadSlice, collectFragments) and Ingest's get fuel,
                           with theorems that the out-of-fuel value is never returned. *)
From Coq Require Import Ascii String List Bool Arith.
Import ListNotations.
From AM Require Import Lib.Bytes Model.Framing.

(* ---------- errors ---------- *)

Inductive error :=
| EEOF           (* io.EOF *)
| EOther         (* the script's other error value, e.g. os.ErrClosed after the close-on-cancel goroutine closed the file *)
| ENoProgress    (* io.ErrNoProgress *)
| EBufferFull.   (* bufio.ErrBufferFull *)

Definition error_eqb (a b : error) : bool :=
  match a, b with
  | EEOF, EEOF | EOther, EOther | ENoProgress, ENoProgress | EBufferFull, EBufferFull => true
  | _, _ => false
  end.

(* ---------- the underlying io.Reader: a script of read results ----------
   [chunks]: each Read(p) call is served from the first chunk: it returns the first
             min(len p, len chunk) bytes of it with a nil error and leaves the rest of the chunk
             for the next call; an EMPTY chunk is a (0, nil) read.
   [last], [ferr]: after the chunks, Read returns the bytes of [last] (in pieces of len p if
             need be) and, together with the final piece, the error [ferr]; from then on
             (0, ferr) for ever.  [last] = [] is the usual reader (os.File: 0 bytes with io.EOF);
             a non-empty [last] is io.Reader's "n > 0 bytes together with an error".
   [served]: number of Read calls served so far (observed by the harness). *)
Record source := mkSource { chunks : list str; last : str; ferr : error; served : nat }.

(* copy(dst, src): n = min(len dst, len src) bytes; dst afterwards *)
Definition copy_n (dst s : str) : nat := Nat.min (length dst) (length s).
Definition copy_to (dst s : str) : str := firstn (copy_n dst s) s ++ skipn (copy_n dst s) dst.

(* rd.Read(p) = (p after the call, n, err, the reader after the call) *)
Definition src_read (s : source) (p : str) : str * nat * option error * source :=
  match chunks s with
  | c :: cs =>
      (copy_to p c, copy_n p c, None,
       mkSource (if length c <=? length p then cs else skipn (length p) c :: cs)
                (last s) (ferr s) (S (served s)))
  | [] =>
      if length (last s) <=? length p
      then (copy_to p (last s), copy_n p (last s), Some (ferr s), mkSource [] [] (ferr s) (S (served s)))
      else (copy_to p (last s), copy_n p (last s), None,
            mkSource [] (skipn (length p) (last s)) (ferr s) (S (served s)))
  end.

(* ---------- Reader ---------- *)

Record reader := mkReader { buf : str; rpos : nat; wpos : nat; rerr : option error; rsrc : source }.

Definition min_read_buffer_size := 16.
Definition default_buf_size := 4096.
Definition max_consecutive_empty_reads := 100.

(* make([]byte, n): n zero bytes *)
Definition make_bytes (n : nat) : str := repeat Ascii.zero n.

(* func NewReaderSize(rd io.Reader, size int) *Reader
     r := new(Reader); r.reset(make([]byte, max(size, minReadBufferSize)), rd) *)
Definition new_reader_size (rd : source) (size : nat) : reader :=
  mkReader (make_bytes (Nat.max size min_read_buffer_size)) 0 0 None rd.

(* func NewReader(rd io.Reader) *Reader { return NewReaderSize(rd, defaultBufSize) } *)
Definition new_reader (rd : source) : reader := new_reader_size rd default_buf_size.

(* a slice expression a[i:j] (j = len a for a[i:]): run-time panic unless i <= j <= len a *)
Definition slice (a : str) (i j : nat) : option str :=
  if (i <=? j) && (j <=? length a) then Some (sub a i j) else None.

Inductive panic :=
| PFillFull        (* panic("bufio: tried to fill full buffer") *)
| PSliceBounds.    (* runtime error: slice bounds out of range *)

Inductive fill_out := FillOk (b : reader) | FillPanic (p : panic).

Definition set_err (b : reader) (e : option error) : reader :=
  mkReader (buf b) (rpos b) (wpos b) e (rsrc b).
Definition set_rpos (b : reader) (r : nat) : reader :=
  mkReader (buf b) r (wpos b) (rerr b) (rsrc b).

(* func (b *Reader) Buffered() int { return b.w - b.r } *)
Definition buffered_n (b : reader) : nat := wpos b - rpos b.

(*  for i := maxConsecutiveEmptyReads; i > 0; i-- {
        n, err := b.rd.Read(b.buf[b.w:])
        b.w += n
        if err != nil { b.err = err; return }
        if n > 0 { return }
    }
    b.err = io.ErrNoProgress                                                                  *)
Fixpoint fill_loop (i : nat) (b : reader) : fill_out :=
  match i with
  | 0 => FillOk (set_err b (Some ENoProgress))
  | S i' =>
      match slice (buf b) (wpos b) (length (buf b)) with
      | None => FillPanic PSliceBounds
      | Some p =>
          let '(p', n, e, rd') := src_read (rsrc b) p in
          (* the callee wrote through p, which aliases b.buf[b.w:] *)
          let b1 := mkReader (firstn (wpos b) (buf b) ++ p') (rpos b) (wpos b + n) (rerr b) rd' in
          match e with
          | Some e => FillOk (set_err b1 (Some e))
          | None => if 0 <? n then FillOk b1 else fill_loop i' b1
          end
      end
  end.

(*  if b.r > 0 { copy(b.buf, b.buf[b.r:b.w]); b.w -= b.r; b.r = 0 }
    (copy is a memmove: the source bytes are those before the call)                           *)
Definition slide (b : reader) : option reader :=
  if 0 <? rpos b then
    match slice (buf b) (rpos b) (wpos b) with
    | None => None
    | Some s => Some (mkReader (copy_to (buf b) s) 0 (wpos b - rpos b) (rerr b) (rsrc b))
    end
  else Some b.

(* func (b *Reader) fill() *)
Definition fill (b : reader) : fill_out :=
  match slide b with
  | None => FillPanic PSliceBounds
  | Some b1 =>
      if length (buf b1) <=? wpos b1 then FillPanic PFillFull
      else fill_loop max_consecutive_empty_reads b1
  end.

(* func (b *Reader) readErr() error { err := b.err; b.err = nil; return err } *)
Definition read_err (b : reader) : option error * reader := (rerr b, set_err b None).

(* bytes.IndexByte *)
Fixpoint index_byte (s : str) (d : ascii) : option nat :=
  match s with
  | [] => None
  | c :: r => if Ascii.eqb c d then Some 0
              else match index_byte r d with Some i => Some (S i) | None => None end
  end.

Inductive rs_out :=
| RSOk (line : str) (err : option error) (b : reader)
| RSPanic (p : panic)
| RSOutOfFuel.         (* artefact of the fuel; proved never to be returned *)

(* func (b *Reader) ReadSlice(delim byte) (line []byte, err error): the for { } loop, s = search start index *)
Fixpoint read_slice_loop (fuel : nat) (d : ascii) (s : nat) (b : reader) : rs_out :=
  match fuel with
  | 0 => RSOutOfFuel
  | S f =>
      match slice (buf b) (rpos b + s) (wpos b) with
      | None => RSPanic PSliceBounds
      | Some area =>
          match index_byte area d with
          | Some i =>
              (* i += s; line = b.buf[b.r : b.r+i+1]; b.r += i + 1; break *)
              let i := i + s in
              match slice (buf b) (rpos b) (rpos b + i + 1) with
              | None => RSPanic PSliceBounds
              | Some line => RSOk line None (set_rpos b (rpos b + i + 1))
              end
          | None =>
              match rerr b with
              | Some _ =>
                  (* Pending error?  line = b.buf[b.r:b.w]; b.r = b.w; err = b.readErr(); break *)
                  match slice (buf b) (rpos b) (wpos b) with
                  | None => RSPanic PSliceBounds
                  | Some line =>
                      let (e, b') := read_err (set_rpos b (wpos b)) in RSOk line e b'
                  end
              | None =>
                  if length (buf b) <=? buffered_n b
                  then (* Buffer full?  b.r = b.w; line = b.buf; err = ErrBufferFull; break *)
                       RSOk (buf b) (Some EBufferFull) (set_rpos b (wpos b))
                  else (* s = b.w - b.r; b.fill() *)
                       match fill b with
                       | FillPanic p => RSPanic p
                       | FillOk b' => read_slice_loop f d (wpos b - rpos b) b'
                       end
              end
          end
      end
  end.

(* every iteration that does not break makes the buffer fuller or sets b.err *)
Definition read_slice_fuel (b : reader) : nat := length (buf b) + 2.
Definition read_slice (d : ascii) (b : reader) : rs_out := read_slice_loop (read_slice_fuel b) d 0 b.

Inductive cf_out :=
| CFOk (full : list str) (frag : str) (err : option error) (b : reader)
| CFPanic (p : panic)
| CFOutOfFuel.

(* func (b *Reader) collectFragments(delim byte) (fullBuffers [][]byte, finalFragment []byte, totalLen int, err error) *)
Fixpoint collect_loop (fuel : nat) (d : ascii) (full : list str) (b : reader) : cf_out :=
  match fuel with
  | 0 => CFOutOfFuel
  | S f =>
      match read_slice d b with
      | RSPanic p => CFPanic p
      | RSOutOfFuel => CFOutOfFuel
      | RSOk frag None b' => CFOk full frag None b'                       (* got final fragment *)
      | RSOk frag (Some EBufferFull) b' => collect_loop f d (full ++ [frag]) b'   (* append(fullBuffers, bytes.Clone(frag)) *)
      | RSOk frag (Some e) b' => CFOk full frag (Some e) b'               (* unexpected error *)
      end
  end.

Definition stream (s : source) : str := concat (chunks s) ++ last s.

(* every ErrBufferFull round takes len(b.buf) >= 1 bytes out of what is still to come *)
Definition collect_fuel (b : reader) : nat := S (buffered_n b + length (stream (rsrc b))).
Definition collect_fragments (d : ascii) (b : reader) : cf_out := collect_loop (collect_fuel b) d [] b.

(* func (b *Reader) ReadString(delim byte) (string, error):
   full, frag, n, err := b.collectFragments(delim); all of full, then frag, written to a strings.Builder *)
Definition read_string_b (d : ascii) (b : reader) : rs_out :=
  match collect_fragments d b with
  | CFOk full frag e b' => RSOk (concat full ++ frag) e b'
  | CFPanic p => RSPanic p
  | CFOutOfFuel => RSOutOfFuel
  end.

(* ---------- NamedPipeIngester.Ingest on this reader ----------
     r := bufio.NewReader(file)
     for { line, err := r.ReadString(delim); if err != nil { return err }
           err = callback(ctx, line);        if err != nil { return err } }                    *)
Inductive bret :=
| BCallbackErr (k : nat)    (* the error of the k-th callback call *)
| BReadErr (e : error)      (* ReadString's error, unchanged; the bytes returned with it are dropped *)
| BPanic (p : panic)
| BOutOfFuel.

Fixpoint bufio_loop (fuel : nat) (d : ascii) (cb : callback) (k : nat) (b : reader) : list str * bret :=
  match fuel with
  | 0 => ([], BOutOfFuel)
  | S f =>
      match read_string_b d b with
      | RSPanic p => ([], BPanic p)
      | RSOutOfFuel => ([], BOutOfFuel)
      | RSOk _ (Some e) _ => ([], BReadErr e)
      | RSOk line None b' =>
          if cb k line
          then let (ls, e) := bufio_loop f d cb (S k) b' in (line :: ls, e)
          else ([line], BCallbackErr k)
      end
  end.

(* every iteration that does not return takes at least the delimiter out of what is still to come *)
Definition bufio_ingest_src (size : nat) (rd : source) (d : ascii) (cb : callback) : list str * bret :=
  bufio_loop (S (length (stream rd))) d cb 0 (new_reader_size rd size).

(* the reader of Model/Framing.v: chunks cs, then (0, io.EOF) *)
Definition eof_source (cs : list str) : source := mkSource cs [] EEOF 0.

Definition bret_to_ret (r : bret) : option ret :=
  match r with
  | BCallbackErr k => Some (RetCallbackErr k)
  | BReadErr EEOF => Some RetEOF
  | _ => None
  end.

Definition bufio_ingest (size : nat) (cs : list str) (d : ascii) (cb : callback) : list str * option ret :=
  let (ls, r) := bufio_ingest_src size (eof_source cs) d cb in (ls, bret_to_ret r).

(* ---------- dirreader.readLines on this reader (ctx never done) ----------
     bufioReader := bufio.NewReader(reader); var numBytesRead int64
     for { lineRaw, err := bufioReader.ReadString('\n')
           if err != nil { if errors.Is(err, io.EOF) { return numBytesRead, nil }; return numBytesRead, err }
           lineLen := len(lineRaw); numBytesRead += int64(lineLen)
           if lineLen > 0 { line = lineRaw[0 : lineLen-1] }
           lines <- line }
   result = (lines sent, numBytesRead, returned error)                                          *)
Inductive rl_ret := RLNil | RLErr (e : error) | RLPanic (p : panic) | RLOutOfFuel.

Fixpoint bufio_read_lines_loop (fuel : nat) (b : reader) (n : nat) : list str * nat * rl_ret :=
  match fuel with
  | 0 => ([], n, RLOutOfFuel)
  | S f =>
      match read_string_b "010"%char b with
      | RSPanic p => ([], n, RLPanic p)
      | RSOutOfFuel => ([], n, RLOutOfFuel)
      | RSOk _ (Some EEOF) _ => ([], n, RLNil)
      | RSOk _ (Some e) _ => ([], n, RLErr e)
      | RSOk raw None b' =>
          let line := firstn (length raw - 1) raw in
          let '(ls, n', r) := bufio_read_lines_loop f b' (n + length raw) in (line :: ls, n', r)
      end
  end.

Definition bufio_read_lines (size : nat) (rd : source) : list str * nat * rl_ret :=
  bufio_read_lines_loop (S (length (stream rd))) (new_reader_size rd size) 0.
