(* Model of internal/health/health.go over internal/common/genericsyncmap.go.
   Definitions only; proofs are in Proofs/HealthLemmas.v.

   The readiness map is map[string]bool.  Component names are abstracted to
   [nat] (the harness numbers the names it uses).  A Go map is an association
   list without duplicate keys; iteration order is irrelevant to every
   observable modelled here (the answers are a conjunction over all entries and
   a per-key status). *)
From Coq Require Import List Arith Bool.
Import ListNotations.

Definition name := nat.
Definition hstate := list (name * bool).

Inductive hop :=
| HAdd (n : name)      (* Health.AddReadiness(n):  readyMap.Store(n, false) *)
| HReady (n : name).   (* Health.OnReady(n):       readyMap.Store(n, true)  *)

Definition op_name (o : hop) : name :=
  match o with HAdd n => n | HReady n => n end.

Fixpoint remove_key (n : name) (s : hstate) : hstate :=
  match s with
  | [] => []
  | (k, v) :: r => if Nat.eqb k n then remove_key n r else (k, v) :: remove_key n r
  end.

(* m[key] = value *)
Definition store (n : name) (v : bool) (s : hstate) : hstate :=
  (n, v) :: remove_key n s.

Fixpoint lookup (n : name) (s : hstate) : option bool :=
  match s with
  | [] => None
  | (k, v) :: r => if Nat.eqb k n then Some v else lookup n r
  end.

Definition hstep (s : hstate) (o : hop) : hstate :=
  match o with
  | HAdd n => store n false s
  | HReady n => store n true s
  end.

Definition hrun (ops : list hop) : hstate := fold_left hstep ops [].

(* IsReady: iterate, false as soon as one value is false. *)
Definition is_ready (s : hstate) : bool := forallb snd s.

(* GetReadyzStatusMap + readyzHandler.
   Result: HTTP status code, overall flag, per-component flags (true = "ok"). *)
Record status := { st_code : nat; st_overall : bool; st_comps : list (name * bool) }.

Definition status_of (s : hstate) : status :=
  let ok := forallb snd s in
  {| st_code := if ok then 200 else 503; st_overall := ok; st_comps := s |}.

(* --- lock-granularity view of a status request -------------------------------
   GetReadyzStatusMap performs two critical sections on the map:
   [Len] (only sizes the result map) and then [Iterate] (reads every entry and
   computes overall in the same critical section).  Other goroutines' Store
   calls may run before, between and after.  An execution of one request
   against concurrent stores is therefore  pre ; Len ; mid ; Iterate ; post. *)
Inductive sev :=
| EvOp (o : hop)     (* a concurrent AddReadiness / OnReady (one critical section) *)
| EvLen              (* the request's Len critical section     *)
| EvIter.            (* the request's Iterate critical section *)

(* Runs the events; the request's answer is produced at EvIter. *)
Fixpoint exec_req (evs : list sev) (s : hstate) (ans : option status) : hstate * option status :=
  match evs with
  | [] => (s, ans)
  | EvOp o :: r => exec_req r (hstep s o) ans
  | EvLen :: r => exec_req r s ans
  | EvIter :: r => exec_req r s (Some (status_of s))
  end.

(* --- WaitForReady ------------------------------------------------------------
   The goroutine loops on  select { <-ctx.Done(): out <- ctx.Err(); return
                                   | <-ticker.C: if IsReady() { close(out); return } }.
   An execution is the sequence of arms the select takes; at each tick the
   readiness map has some current state. *)
Inductive wev :=
| WTick (s : hstate)   (* ticker arm taken, map state at that moment *)
| WCancel.             (* ctx.Done arm taken *)

Inductive wout := WClosed | WErr | WPending.

Fixpoint wait_run (evs : list wev) : wout :=
  match evs with
  | [] => WPending
  | WCancel :: _ => WErr
  | WTick s :: r => if is_ready s then WClosed else wait_run r
  end.

(* --- boolean comparison used by the correspondence check ------------------- *)
Fixpoint subset_b (a b : hstate) : bool :=
  match a with
  | [] => true
  | (k, v) :: r =>
      match lookup k b with
      | Some v' => Bool.eqb v v' && subset_b r b
      | None => false
      end
  end.

Definition same_map (a b : hstate) : bool :=
  Nat.eqb (length a) (length b) && subset_b a b && subset_b b a.

(* one observation of the real handler after a prefix of operations *)
Record hobs := { o_code : nat; o_overall : bool; o_comps : list (name * bool); o_isready : bool }.

Definition obs_matches (s : hstate) (o : hobs) : bool :=
  let m := status_of s in
  Nat.eqb (st_code m) (o_code o) && Bool.eqb (st_overall m) (o_overall o)
  && same_map (st_comps m) (o_comps o) && Bool.eqb (is_ready s) (o_isready o).

(* a case: operations, each followed by the observation taken after it *)
Fixpoint check_case (s : hstate) (c : list (hop * hobs)) : bool :=
  match c with
  | [] => true
  | (o, ob) :: r => let s' := hstep s o in obs_matches s' ob && check_case s' r
  end.

Fixpoint mismatches_from {A} (f : A -> bool) (i : nat) (cs : list A) : list nat :=
  match cs with
  | [] => []
  | c :: r => if f c then mismatches_from f (S i) r else i :: mismatches_from f (S i) r
  end.

Definition mismatches (cs : list (list (hop * hobs))) : list nat :=
  mismatches_from (check_case []) 0 cs.

(* concurrent case: events, and the answer the real request returned *)
Definition check_conc (c : list sev * hobs) : bool :=
  match exec_req (fst c) [] None with
  | (_, Some m) =>
      Nat.eqb (st_code m) (o_code (snd c)) && Bool.eqb (st_overall m) (o_overall (snd c))
      && same_map (st_comps m) (o_comps (snd c))
  | (_, None) => false
  end.

Definition mismatches_conc (cs : list (list sev * hobs)) : list nat :=
  mismatches_from check_conc 0 cs.

(* --- a component NAMED like the verdict key ----------------------------------------------------
   The model keeps component names (numbers) apart from the result map's "overall" key.  In the Go
   result map both are strings: a component registered under the very name of the verdict key has
   its own entry overwritten by the verdict (written last), so the body of the answer does not list
   it.  Status code, overall flag and IsReady are those of the model all the same.  The harness
   says which component number (if any) carries that name in a case: [sh]; the listed components
   are then compared with the model's minus that one.  With [sh = None] these are the definitions
   above. *)
Definition comps_listed (sh : option name) (s : hstate) : hstate :=
  match sh with Some n => remove_key n s | None => s end.

Definition obs_matches_sh (sh : option name) (s : hstate) (o : hobs) : bool :=
  let m := status_of s in
  Nat.eqb (st_code m) (o_code o) && Bool.eqb (st_overall m) (o_overall o)
  && same_map (comps_listed sh (st_comps m)) (o_comps o) && Bool.eqb (is_ready s) (o_isready o).

Fixpoint check_case_sh (sh : option name) (s : hstate) (c : list (hop * hobs)) : bool :=
  match c with
  | [] => true
  | (o, ob) :: r => let s' := hstep s o in obs_matches_sh sh s' ob && check_case_sh sh s' r
  end.

Definition mismatches_sh (cs : list (option name * list (hop * hobs))) : list nat :=
  mismatches_from (fun c => check_case_sh (fst c) [] (snd c)) 0 cs.

Definition check_conc_sh (c : option name * (list sev * hobs)) : bool :=
  match exec_req (fst (snd c)) [] None with
  | (_, Some m) =>
      Nat.eqb (st_code m) (o_code (snd (snd c))) && Bool.eqb (st_overall m) (o_overall (snd (snd c)))
      && same_map (comps_listed (fst c) (st_comps m)) (o_comps (snd (snd c)))
  | (_, None) => false
  end.

Definition mismatches_conc_sh (cs : list (option name * (list sev * hobs))) : list nat :=
  mismatches_from check_conc_sh 0 cs.
