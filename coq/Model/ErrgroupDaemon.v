(* The daemon of Model/Workers.v with its errgroup spelled out: the workers of Model/Workers.v run as the worker
   functions of the errgroup machine of Model/Errgroup.v.  Definitions only; the refinement proof (every run of this
   composite is a run of Workers.v's [dround], and its Wait returns what [exited] says) is in Proofs/ErrgroupWorkers.v.

   Goroutine i of the group runs worker i of the daemon: it is inside f exactly as long as the worker function (the main
   goroutine of worker i in Model/Workers.v) has not returned, and f's result is nil / non-nil as that worker's.  The
   script of the errgroup machine is used as a prophecy of those results ([agrees]); no worker of the script waits for
   the context by itself ([plain]: WHEN a worker function returns is decided by Model/Workers.v, which is where the
   context is watched).  The value of the group context the workers see in a round is the machine's.

   One round of the composite = one round of every worker (Workers.v's [all_round], under the context value at the start
   of the round), then the environment events of the errgroup machine (TF i for the worker functions that have returned,
   possibly TX: a signal), then three fair rounds of the errgroup machine's own threads (signals may fall into them too). *)
From Coq Require Import String List Bool Arith.
Import ListNotations.
From AM Require Import Gen.Blocking Model.Workers Model.Errgroup.

Definition plain (sc : script) : Prop := forall w, In w sc -> w_wait w = false.

Definition ctx_done (c : cfg) : bool := is_some (s_ctx (fst c)).

Definition coupled (sc : script) (s : dst) (c : cfg) : Prop :=
  length (d_ws s) = length sc /\ d_cancel s = ctx_done c /\
  forall i w, nth_error (d_ws s) i = Some w ->
    match ws_main w with
    | Returned b => exists r, g_ret (s_g (fst c) i) = Some r /\ is_some r = b
    | _ => s_g (fst c) i = GF
    end.

(* the script foretells what each worker function returns *)
Definition agrees (sc : script) (ws : list wst) : Prop :=
  forall i w b, nth_error ws i = Some w -> ws_main w = Returned b ->
    exists x, nth_error sc i = Some x /\ is_some (w_res x) = b.

(* the environment events after the workers' round: f_i returns for every worker function that has returned (and for
   no other); a signal may arrive *)
Definition env_ok (ws : list wst) (env : list tid) : Prop :=
  (forall t, In t env -> t = TX \/ exists i w b, t = TF i /\ nth_error ws i = Some w /\ ws_main w = Returned b) /\
  (forall i w b, nth_error ws i = Some w -> ws_main w = Returned b -> In (TF i) env).

Definition no_tf (seg : list tid) : Prop := forall i, ~ In (TF i) seg.

(* fair rounds of the group's own threads (no worker function returns inside them) *)
Inductive grounds (sc : script) : nat -> cfg -> cfg -> Prop :=
| G0 : forall c, grounds sc 0 c c
| GS : forall n c seg c', efair sc seg -> no_tf seg -> grounds sc n (run sc c seg) c' -> grounds sc (S n) c c'.

Inductive cround (ds : list wdesc) (sc : script) : dst * cfg -> dst * cfg -> Prop :=
| CR : forall s c ws' env c',
    all_round (d_cancel s) ds (d_ws s) ws' ->
    agrees sc ws' ->
    env_ok ws' env ->
    grounds sc 3 (run sc c env) c' ->
    cround ds sc (s, c) (mkDst (ctx_done c') ws', c').

Inductive crounds (ds : list wdesc) (sc : script) : nat -> dst * cfg -> dst * cfg -> Prop :=
| CRs0 : forall x, crounds ds sc 0 x x
| CRsS : forall n x y z, cround ds sc x y -> crounds ds sc n y z -> crounds ds sc (S n) x z.

(* the caller has executed its Go statements: every goroutine exists and is inside its worker function *)
Definition cstart (sc : script) : cfg := exec sc (repeat TC (2 * length sc)).

Inductive creach (K : nat) (ds : list wdesc) (sc : script) : dst * cfg -> Prop :=
| CRInit : creach K ds sc (dinit K ds, cstart sc)
| CRStep : forall x y, creach K ds sc x -> cround ds sc x y -> creach K ds sc y.
