(* Model of processors/auditd/dirreader/dirreader.go (C20).  Definitions only.

   - [lines]           readLines: the complete (newline-terminated) lines of a byte string,
                       without the newline, and the unterminated rest.
   - [on_event]        rotatingFile.read for one fsnotify event on the live file.
   - [op], [step]      what the environment does to the live file (audit.log) and the
                       events fsnotify reports for it; each event is processed before the
                       next change.
   - [sort_names]      sortLogNamesOldToNew in its REPAIRED form: audit.log.N by descending
                       N (numeric), audit.log last.  (The pinned tree sorts reverse
                       lexicographically, which is wrong as soon as suffixes of different
                       digit counts occur, e.g. audit.log.9 / audit.log.10.)
   - [startup]         loopWithError's initial phase: the initial files one after the other
                       in sorted order; the live file's count of whole-line bytes becomes
                       the tail offset.
   - [run]             start-up followed by tailing. *)
From Coq Require Import Ascii String List Bool Arith NArith.
Import ListNotations.
From AM Require Import Lib.Bytes.

(* ------------------------------------------------------------------ readLines *)

Definition nl : ascii := "010"%char.
Definition is_nl (c : ascii) : bool := Ascii.eqb c nl.

(* (complete lines without their newline, unterminated rest) *)
Fixpoint lines (s : str) : list str * str :=
  match s with
  | [] => ([], [])
  | c :: r =>
      let (ls, tl) := lines r in
      if is_nl c then ([] :: ls, tl)
      else match ls with
           | [] => ([], c :: tl)
           | l :: ls' => ((c :: l) :: ls', tl)
           end
  end.

(* numBytesRead: every delivered line counts with its newline *)
Fixpoint line_bytes (ls : list str) : nat :=
  match ls with
  | [] => 0
  | l :: r => S (length l) + line_bytes r
  end.

(* readLines(reader) = (lines sent to the channel, numBytesRead) *)
Definition read_lines (s : str) : list str * nat :=
  let ls := fst (lines s) in (ls, line_bytes ls).

(* the inverse of [lines]: every line followed by a newline *)
Fixpoint join (ls : list str) : str :=
  match ls with
  | [] => []
  | l :: r => l ++ nl :: join r
  end.

(* ------------------------------------------------------------------ rotatingFile *)

Inductive fsev := EvCreate | EvRemove | EvRename | EvWrite | EvChmod.

Record rstate := RS { offset : nat; lastSz : nat }.

(* rotatingFile.read(op) with the live file's content [file] at that moment.
   Seeking past the end is allowed (os.File) and reads nothing. *)
Definition on_event (st : rstate) (file : str) (e : fsev) : rstate * list str :=
  match e with
  | EvCreate | EvRemove | EvRename => (RS 0 (lastSz st), [])
  | EvChmod => (st, [])
  | EvWrite =>
      let sz := length file in
      let off := if sz <? lastSz st then 0 else offset st in
      let (ls, n) := read_lines (skipn off file) in
      (RS (off + n) sz, ls)
  end.

Fixpoint on_events (st : rstate) (file : str) (es : list fsev) : rstate * list str :=
  match es with
  | [] => (st, [])
  | e :: r =>
      let (st1, o1) := on_event st file e in
      let (st2, o2) := on_events st1 file r in
      (st2, o1 ++ o2)
  end.

(* ------------------------------------------------------------------ environment *)

(* Append b: write b at the end (b may hold no, one or several newlines, may be empty);
   Rotate: rename audit.log away and create an empty one;
   Recreate: remove audit.log and create an empty one;
   Truncate: cut audit.log to length 0 in place;
   Chmod: attribute change only. *)
Inductive op := Append (b : str) | Rotate | Recreate | Truncate | Chmod.

Definition apply_op (live : str) (o : op) : str :=
  match o with
  | Append b => live ++ b
  | Rotate | Recreate | Truncate => []
  | Chmod => live
  end.

Definition events_of (o : op) : list fsev :=
  match o with
  | Append _ => [EvWrite]
  | Rotate => [EvRename; EvCreate]
  | Recreate => [EvRemove; EvCreate]
  | Truncate => [EvWrite]
  | Chmod => [EvChmod]
  end.

(* one change of the live file and the processing of its events *)
Definition step (st : rstate) (live : str) (o : op) : rstate * str * list str :=
  let live' := apply_op live o in
  let (st', out) := on_events st live' (events_of o) in
  (st', live', out).

(* the lines delivered, per operation *)
Fixpoint run_tail (st : rstate) (live : str) (ops : list op) : list (list str) :=
  match ops with
  | [] => []
  | o :: r =>
      let '(st', live', out) := step st live o in
      out :: run_tail st' live' r
  end.

(* state after the operations *)
Fixpoint end_tail (st : rstate) (live : str) (ops : list op) : rstate * str :=
  match ops with
  | [] => (st, live)
  | o :: r => let '(st', live', _) := step st live o in end_tail st' live' r
  end.

(* ------------------------------------------------------------------ names and their order *)

(* Live = "audit.log", Rot n = "audit.log.<n>" (decimal), Other = an entry that
   sortLogNamesOldToNew filters out (a directory, or no "audit.log" prefix). *)
Inductive name := Live | Rot (n : nat) | Other.

Definition name_eqb (a b : name) : bool :=
  match a, b with
  | Live, Live => true
  | Rot x, Rot y => Nat.eqb x y
  | Other, Other => true
  | _, _ => false
  end.

Definition is_log (a : name) : bool := match a with Other => false | _ => true end.

(* [before a b]: a is delivered no later than b (a is at least as old) *)
Definition before (a b : name) : bool :=
  match a, b with
  | Rot x, Rot y => y <=? x
  | Rot _, Live => true
  | Live, Rot _ => false
  | Live, Live => true
  | Other, _ => true
  | _, Other => false
  end.

Fixpoint insert (a : name) (l : list name) : list name :=
  match l with
  | [] => [a]
  | b :: r => if before a b then a :: l else b :: insert a r
  end.

Fixpoint isort (l : list name) : list name :=
  match l with
  | [] => []
  | a :: r => insert a (isort r)
  end.

Definition sort_names (l : list name) : list name := isort (filter is_log l).

(* ------------------------------------------------------------------ start-up *)

Definition dir := list (name * str).

Fixpoint content (d : dir) (a : name) : str :=
  match d with
  | [] => []
  | (b, c) :: r => if name_eqb a b then c else content r a
  end.

(* lastSz after the initial read of audit.log that returned n whole-line bytes.
   REPAIRED form.  The pinned tree leaves lastSz = 0 here, so that a truncation that is the
   first change after start-up is not noticed (size 0 < lastSz 0 is false), the offset stays
   behind the end of the file and the lines appended next are lost. *)
Definition startup_lastsz (n : nat) : nat := n.

(* the initial files one after the other; reading audit.log sets the tail state *)
Fixpoint read_initial (d : dir) (st : rstate) (names : list name) : rstate * list (list str) :=
  match names with
  | [] => (st, [])
  | a :: r =>
      let (ls, n) := read_lines (content d a) in
      let st1 := if name_eqb a Live then RS n (startup_lastsz n) else st in
      let (st2, out) := read_initial d st1 r in
      (st2, ls :: out)
  end.

Definition startup (d : dir) : rstate * list (list str) :=
  read_initial d (RS 0 0) (sort_names (map fst d)).

(* whole run: (names in delivery order, lines per initial file, lines per operation) *)
Definition run (d : dir) (ops : list op) : list name * list (list str) * list (list str) :=
  let (st, init) := startup d in
  (sort_names (map fst d), init, run_tail st (content d Live) ops).

(* ------------------------------------------------------------------ specification side *)

(* What must be delivered, from the operations alone.  [cur] is everything written so far to
   the current incarnation of audit.log; an incarnation ends with Rotate/Recreate/Truncate.
   The result is the complete lines of every incarnation, incarnation after incarnation. *)
Fixpoint spec_all (cur : str) (ops : list op) : list str :=
  match ops with
  | [] => fst (lines cur)
  | Append b :: r => spec_all (cur ++ b) r
  | Chmod :: r => spec_all cur r
  | (Rotate | Recreate | Truncate) :: r => fst (lines cur) ++ spec_all [] r
  end.

(* The same per operation: [pend] is the unterminated rest already in the file.  An Append
   delivers exactly the lines its bytes complete (the first one prefixed by [pend]). *)
Fixpoint spec_steps (pend : str) (ops : list op) : list (list str) :=
  match ops with
  | [] => []
  | Append b :: r => let (ls, tl) := lines (pend ++ b) in ls :: spec_steps tl r
  | Chmod :: r => [] :: spec_steps pend r
  | (Rotate | Recreate | Truncate) :: r => [] :: spec_steps [] r
  end.

(* strict "older" order on names of audit logs *)
Definition older (a b : name) : Prop :=
  match a, b with
  | Rot x, Rot y => y < x
  | Rot _, Live => True
  | _, _ => False
  end.

(* the tail state fits the live file: the offset is the length of the delivered whole-line
   prefix, and a later shrink to a size below that offset will be noticed *)
Definition tail_inv (st : rstate) (live : str) : Prop :=
  offset st = line_bytes (fst (lines live)) /\
  (offset st = 0 \/ (0 < lastSz st /\ lastSz st <= length live)).
