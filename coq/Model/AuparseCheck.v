(* Correspondence check for the auparse line-parser model (C07 auditd half, C15 "unparsable
   line"): compact observation format written by harness/auparse and its comparison with
   Model/Auparse.v, evaluated by vm_compute.

   The harness calls the REAL library / standard library and records what came back:
   - [ALine]: auparse.ParseLogLine on  pre ++ line ++ suf  for every variant (pre, suf) of a generated
     line: ok (RecordType, Timestamp.Unix(), Timestamp.Nanosecond(), Sequence, the unexported offset
     read by reflection, RawData) or which error (errInvalidAuditHeader / errInvalidAuditMessageTypName,
     identified by their messages - the variables are unexported -, anything else is [OOther] and never
     matches);
   - [AType]: auparse.GetAuditMessageType on a name;
   - [ANum]: strconv.ParseInt / ParseUint (base 10, bit size 64 / 32 / 16) on a string, with the error
     class (ErrSyntax / ErrRange by errors.Is);
   - [ATrim]: strings.TrimSpace;
   - [ATime]: time.Unix(sec, msec*int64(time.Millisecond)) observed through Unix() and Nanosecond().
   The message-type table is the library's own map (auditMessageNameToType, dumped by the harness on
   every run) written at the head of each case file; [type_of_tbl] looks names up in it.

   No canonicalisation, with ONE documented exception, the [PUnmodelled] guard: when the model answers
   PUnmodelled / TyUnmodelled / trim_space = None (the real code leaves ASCII: strings.ToUpper on a type
   name with a byte >= 0x80, strings.TrimSpace's Unicode fallback) the observation is not compared, but
   the harness' own flag [unm] - computed from the bytes of the input alone: a byte >= 0x80 in the
   type-name position, or at either end of the text behind "msg=" once its ASCII white space is removed -
   must be set; a model that claims "unmodelled" anywhere else mismatches.
   RawData is a substring of the line: it is written as (offset, length) into the full line - the harness
   writes that form only after checking line[off:off+len] == RawData - or as a literal. *)
From Coq Require Import Ascii String List Bool Arith NArith ZArith.
Import ListNotations.
From AM Require Import Lib.Bytes Lib.GoStrings Model.Auparse.
Open Scope list_scope.

Inductive seg := L (s : str) | R (n c : N).
Definition enc := list seg.

Fixpoint expand (e : enc) : str :=
  match e with
  | [] => []
  | L s :: r => s ++ expand r
  | R n c :: r => repeat (ascii_of_N c) (N.to_nat n) ++ expand r
  end.

Fixpoint mism_from {A} (f : A -> bool) (i : nat) (cs : list A) : list nat :=
  match cs with
  | [] => []
  | c :: r => if f c then mism_from f (S i) r else i :: mism_from f (S i) r
  end.

Fixpoint type_of_tbl (tbl : list (str * N)) (name : str) : option N :=
  match tbl with
  | [] => None
  | (k, v) :: r => if seqb k name then Some v else type_of_tbl r name
  end.

Inductive oraw := RawSub (off len : N) | RawLit (e : enc).

Inductive aobs :=
| OOk (typ : N) (usec nsec : Z) (sq : N) (offset : Z) (raw : oraw)
| OErrHeader
| OErrType
| OOther.

Inductive avar := AVar (pre suf : str) (unm : bool) (o : aobs).

Inductive otyp := OTyp (t : N) | OTypErr | OTypOther.
Inductive onum := ONum (v : Z) | OSyntax | ORange | ONumOther.

Inductive ccase :=
| ALine (line : enc) (vars : list avar)
| AType (name : str) (unm : bool) (o : otyp)
| ANum (signed : bool) (bits : N) (s : str) (o : onum)
| ATrim (s : str) (unm : bool) (o : str)
| ATime (sec msec usec nsec : Z).

Definition raw_matches (full : str) (m : str) (o : oraw) : bool :=
  match o with
  | RawSub off len => seqb m (firstn (N.to_nat len) (skipn (N.to_nat off) full))
  | RawLit e => seqb m (expand e)
  end.

Definition obs_matches (full : str) (r : result) (unm : bool) (o : aobs) : bool :=
  match r with
  | PUnmodelled => unm
  | PPanic => false
  | PErrHeader => match o with OErrHeader => true | _ => false end
  | PErrType => match o with OErrType => true | _ => false end
  | POk m =>
      match o with
      | OOk typ usec nsec sq offset raw =>
          let '(ms, mn) := time_unix (a_sec m) (a_msec m) in
          (a_typ m =? typ)%N && (ms =? usec)%Z && (mn =? nsec)%Z && (a_seq m =? sq)%N &&
          (a_offset m =? offset)%Z && raw_matches full (a_raw m) raw
      | _ => false
      end
  end.

Definition var_ok (tbl : list (str * N)) (line : str) (v : avar) : bool :=
  let '(AVar pre suf unm o) := v in
  let full := pre ++ line ++ suf in
  obs_matches full (parse_log_line (type_of_tbl tbl) full) unm o.

Definition case_ok (tbl : list (str * N)) (c : ccase) : bool :=
  match c with
  | ALine line vars => let l := expand line in forallb (var_ok tbl l) vars
  | AType name unm o =>
      match get_type (type_of_tbl tbl) name, o with
      | TyUnmodelled, _ => unm
      | TyOk t, OTyp t' => (t =? t')%N
      | TyErr, OTypErr => true
      | _, _ => false
      end
  | ANum signed bits s o =>
      if signed then
        match parse_int bits s, o with
        | NumOk v, ONum v' => (v =? v')%Z
        | NumSyntax, OSyntax | NumRange, ORange => true
        | _, _ => false
        end
      else
        match parse_uint bits s, o with
        | NumOk v, ONum v' => (Z.of_N v =? v')%Z
        | NumSyntax, OSyntax | NumRange, ORange => true
        | _, _ => false
        end
  | ATrim s unm o =>
      match trim_space s with
      | None => unm
      | Some t => seqb t o
      end
  | ATime sec msec usec nsec =>
      let '(ms, mn) := time_unix sec msec in (ms =? usec)%Z && (mn =? nsec)%Z
  end.

Definition auparse_mismatches (tbl : list (str * N)) (cs : list ccase) : list nat :=
  mism_from (case_ok tbl) 0 cs.
