(* Correspondence check for the JSON rendering (C10): observation format written by harness/jsonenc and its
   comparison, BYTE FOR BYTE, with Model/JsonEnc.v, evaluated by vm_compute.

   Every case carries the exact bytes the real code produced:
   - [JCStr s out valid back]  json.NewEncoder(w).Encode(s) for a Go string s wrote [out]  (= enc_string s, newline);
                          utf8.ValidString(s) = valid (= valid_utf8 s); json.Unmarshal of [out] into a Go string gave
                          [back] (= sanitize s, and = dec_string of the text: the spec-side functions of the theorems
                          are tied to the Go library too);
   - [JCEv e line]        auditevent.NewDefaultAuditEventWriter(w).Write(ev) for a generated AuditEvent whose JSON
                          view is e issued one Write call with the bytes [line]        (= enc_line e);
   - [JCLogin tok msg ws] the REAL sshd processor, given (tok, msg) and writing through the real event writer,
                          issued the Write calls ws = [(auditId, loggedAt text, bytes)] — auditId (random) and
                          loggedAt (the clock) are read back from the line, everything else is the model's:
                          the events of SshdProc.process, seen through [login_view], rendered by [enc_line];
   - [JCAction l ce t line] the REAL correlator (RemoteLogin, then AuditdEvent) wrote [line] for the coalesced
                          event ce of a session bound to the login with identity l; t = ce's timestamp as
                          time.Time.MarshalJSON formats it (computed by the harness from the generated time);
   - [JCDec lit r]        json.Unmarshal of the text lit into a Go string gave r (None: an error).  Compared with
                          [dec_string] when lit's raw bytes are valid UTF-8 (the model's decoder copies raw bytes;
                          Go's replaces invalid ones — the harness only emits valid raw bytes here). *)
From Coq Require Import Ascii String List Bool Arith NArith ZArith.
Import ListNotations.
From AM Require Import Lib.Bytes Model.JsonEnc Model.SshdProc Model.SshdCheck Model.ToEvent.
Open Scope list_scope.

Inductive jcase :=
| JCStr (s out : str) (valid : bool) (back : str)
| JCEv (e : jevent) (line : str)
| JCLogin (tok msg : str) (ws : list (str * str * str))
| JCAction (l : login_ident) (ce : cevent) (t : str) (line : str)
| JCDec (lit : str) (r : option str).

(* compact constructors used by the harness *)
Definition EV := Build_jevent.
Definition OBJ (t p s : str) : jval := object_json {| ob_type := t; ob_primary := p; ob_secondary := s |}.
Definition SA (l : list str) : jval := JArr (map JStr l).
Definition ID := Build_login_ident.
Definition CE (time : Z) (ses res act how ot op os : str) (args : list str) : cevent :=
  {| ce_time := time; ce_session := ses; ce_result := res; ce_action := act; ce_how := how;
     ce_object := {| ob_type := ot; ob_primary := op; ob_secondary := os |}; ce_args := args |}.

Fixpoint all2 {A B} (f : A -> B -> bool) (a : list A) (b : list B) : bool :=
  match a, b with
  | [], [] => true
  | x :: r, y :: r' => f x y && all2 f r r'
  | _, _ => false
  end.

Definition ostr_eqb (a b : option str) : bool :=
  match a, b with Some x, Some y => seqb x y | None, None => true | _, _ => false end.

(* Go maps arrive in the harness' generation order: the rendering sorts them ([jmap]) *)
Definition case_ok (c : jcase) : bool :=
  match c with
  | JCStr s out valid back =>
      seqb (enc_string s ++ [newline]) out && Bool.eqb (valid_utf8 s) valid && seqb (sanitize s) back
      && ostr_eqb (dec_string (enc_string s)) (Some back)
  | JCEv e line => seqb (enc_line e) line
  | JCLogin tok msg ws =>
      all2 (fun ev w => let '(aid, t, line) := w in seqb (enc_line (login_view aid t ev)) line)
           (r_writes (process cfg0 tok msg true true)) ws
  | JCAction l ce t line => seqb (enc_line (action_view t (to_event l ce))) line
  | JCDec lit r => ostr_eqb (dec_string lit) r
  end.

Fixpoint mism_from {A} (f : A -> bool) (i : nat) (cs : list A) : list nat :=
  match cs with
  | [] => []
  | c :: r => if f c then mism_from f (S i) r else i :: mism_from f (S i) r
  end.

Definition mismatches (cs : list jcase) : list nat := mism_from case_ok 0 cs.

(* what the model says, for a report *)
Definition model_out (c : jcase) : list str :=
  match c with
  | JCStr s _ _ _ => [enc_string s ++ [newline]; sanitize s]
  | JCEv e _ => [enc_line e]
  | JCLogin tok msg ws =>
      map (fun ev => enc_line (login_view [] [] ev)) (r_writes (process cfg0 tok msg true true))
  | JCAction l ce t _ => [enc_line (action_view t (to_event l ce))]
  | JCDec lit _ => match dec_string lit with Some d => [d] | None => [] end
  end.
