(* Correspondence check for the syslog line parser: the harness (harness/pipes, syslog mode)
   records what the real ParseSyslogMessage returned for a generated entry. *)
From Coq Require Import Ascii String List Bool Arith.
Import ListNotations.
From AM Require Import Lib.Bytes Model.Syslog.

(* entry handed to ParseSyslogMessage; PID and Message of the returned SshdLogEntry *)
Inductive ycase := YCase (entry pid msg : str).

Definition ycase_ok (c : ycase) : bool :=
  let '(YCase entry pid msg) := c in
  let (p, m) := parse entry in seqb p pid && seqb m msg.

Fixpoint ymism_from (i : nat) (cs : list ycase) : list nat :=
  match cs with
  | [] => []
  | c :: r => if ycase_ok c then ymism_from (S i) r else i :: ymism_from (S i) r
  end.

Definition syslog_mismatches (cs : list ycase) : list nat := ymism_from 0 cs.
