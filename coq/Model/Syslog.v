(* Model of SyslogIngester.ParseSyslogMessage and of the line handling of
   SyslogIngester.Process (ingesters/syslog/syslogingester.go).  Definitions only; proofs in
   Proofs/SyslogLemmas.v.

   Go:  entrySplit := strings.Split(entry, " ")
        if len(entrySplit) < 2 { return sshd.SshdLogEntry{} }            // PID "", Message ""
        pid := entrySplit[0]
        logMsg := strings.TrimLeft(strings.Join(entrySplit[1:], " "), " ")
   and Process: line = strings.TrimSuffix(line, "\n") before parsing (one trailing newline, the
   record delimiter the pipe ingester leaves on the line, is removed). *)
From Coq Require Import Ascii String List Bool Arith.
Import ListNotations.
From AM Require Import Lib.Bytes.

Definition sp : ascii := " "%char.
Definition nl : ascii := "010"%char.

(* strings.Split(s, " "): always at least one part; n spaces give n+1 parts *)
Fixpoint split_sp (s : str) : list str :=
  match s with
  | [] => [[]]
  | c :: r =>
      if Ascii.eqb c sp then [] :: split_sp r
      else match split_sp r with
           | [] => [[c]]                      (* unreachable: split_sp never returns [] *)
           | x :: xs => (c :: x) :: xs
           end
  end.

(* strings.Join(parts, " ") *)
Fixpoint join_sp (parts : list str) : str :=
  match parts with
  | [] => []
  | x :: r => match r with
              | [] => x
              | _ :: _ => x ++ sp :: join_sp r
              end
  end.

(* strings.TrimLeft(s, " ") *)
Fixpoint trim_left_sp (s : str) : str :=
  match s with
  | [] => []
  | c :: r => if Ascii.eqb c sp then trim_left_sp r else s
  end.

(* strings.TrimSuffix(s, "\n"): exactly one trailing newline is removed, if present *)
Fixpoint trim_nl (s : str) : str :=
  match s with
  | [] => []
  | c :: r => match r with
              | [] => if Ascii.eqb c nl then [] else [c]
              | _ :: _ => c :: trim_nl r
              end
  end.

(* ParseSyslogMessage: (PID, Message) *)
Definition parse (entry : str) : str * str :=
  let parts := split_sp entry in
  if length parts <? 2 then ([], [])
  else (hd [] parts, trim_left_sp (join_sp (tl parts))).

(* Process, up to the hand-over to the sshd processor *)
Definition process_line (line : str) : str * str := parse (trim_nl line).
