(* Interpretation of the GENERATED handler sketches (Gen/SshdHandlers.v) into the event record and the
   result shapes of the hand model (Model/SshdProc.v).  Definitions only.

   The interpretation fails closed (None): a key the event record cannot represent, a missing
   mandatory key, a duplicated key, or an event type / component / source type other than the one the
   model fixes all yield None, so that no tie lemma can be proved for such a sketch. *)
From Coq Require Import Ascii String List Bool Arith ZArith.
Import ListNotations.
From AM Require Import Lib.Bytes Lib.Regex Gen.SshdRegexes Gen.SshdDispatch Gen.SshdHandlers Model.SshdProc.
Open Scope string_scope.
Open Scope nat_scope.

(* the value a field source denotes, for processor fields [c], PID token [tok] and regex match [mt] *)
Definition eval_src (c : cfg) (tok : str) (mt : rmatch) (f : fsrc) : str :=
  match f with
  | FCap g => cap g mt
  | FConst s => s2l s
  | FCfgPid => tok
  | FCfgNode => c_node c
  | FCfgMachineID => c_mid c
  end.

Fixpoint sk_lookup (k : string) (l : list (string * fsrc)) : option fsrc :=
  match l with
  | [] => None
  | (k', v) :: r => if String.eqb k k' then Some v else sk_lookup k r
  end.

Definition sk_mem (k : string) (l : list string) : bool := existsb (String.eqb k) l.

Fixpoint sk_nodup (l : list string) : bool :=
  match l with
  | [] => true
  | k :: r => negb (sk_mem k r) && sk_nodup r
  end.

(* every key is one of [allowed], every key of [mandatory] is present, no key occurs twice *)
Definition sk_keys_ok (allowed mandatory : list string) (l : list (string * fsrc)) : bool :=
  let ks := map fst l in
  forallb (fun k => sk_mem k allowed) ks && forallb (fun k => sk_mem k ks) mandatory && sk_nodup ks.

Definition source_extra_keys : list string := ["port"; "dns"].
Definition subject_keys : list string := ["loggedAs"; "userID"; "pid"; "filePath"; "keyType"; "fingerprint"].
Definition subject_mandatory : list string := ["loggedAs"; "userID"; "pid"].
Definition target_keys : list string := ["host"; "machine-id"].
Definition meta_extra_keys : list string := ["shell"].

(* what the model's event record leaves implicit *)
Definition sketch_fixed_ok (hs : hsketch) : bool :=
  String.eqb (hs_action hs) "UserLogin" && String.eqb (hs_component hs) "sshd" && String.eqb (hs_source_type hs) "IP".

Definition sketch_wf (hs : hsketch) : bool :=
  sketch_fixed_ok hs
  && sk_keys_ok source_extra_keys [] (hs_source_extra hs)
  && sk_keys_ok subject_keys subject_mandatory (hs_subjects hs)
  && sk_keys_ok target_keys target_keys (hs_target hs)
  && sk_keys_ok meta_extra_keys [] (hs_meta_extra hs).

Definition event_of_sketch (hs : hsketch) (c : cfg) (tok : str) (mt : rmatch) : option event :=
  if sketch_wf hs then
    let ev := eval_src c tok mt in
    let opt k l := option_map ev (sk_lookup k l) in
    match sk_lookup "loggedAs" (hs_subjects hs), sk_lookup "userID" (hs_subjects hs), sk_lookup "pid" (hs_subjects hs),
          sk_lookup "host" (hs_target hs), sk_lookup "machine-id" (hs_target hs) with
    | Some la, Some uid, Some pid, Some host, Some mid =>
        Some {| ev_ok := hs_ok hs;
                ev_src := ev (hs_source_value hs);
                ev_port := opt "port" (hs_source_extra hs);
                ev_dns := opt "dns" (hs_source_extra hs);
                ev_logged_as := ev la;
                ev_user_id := ev uid;
                ev_pid := ev pid;
                ev_file_path := opt "filePath" (hs_subjects hs);
                ev_key_type := opt "keyType" (hs_subjects hs);
                ev_fingerprint := opt "fingerprint" (hs_subjects hs);
                ev_shell := opt "shell" (hs_meta_extra hs);
                ev_data := [];
                ev_host := ev host;
                ev_mid := ev mid |}
    | _, _, _, _, _ => None
    end
  else None.

(* The whole handler as the sketch describes it.
   hs_forward = None:      re-match; no match: nothing; else build the event, count hs_metrics, write.
   hs_forward = Some cred: Atoi(pid token) first (failure: nothing), then as above, and after a
                           successful write offer the login (that PID, cred) to the correlator. *)
Definition run_sketch (hs : hsketch) (c : cfg) (tok line : str) (wok ready : bool) : option result :=
  match hs_forward hs with
  | None =>
      match find (hs_re hs) line with
      | None => Some nothing
      | Some mt => option_map (write_only wok (hs_metrics hs)) (event_of_sketch hs c tok mt)
      end
  | Some cred =>
      match atoi tok with
      | None => Some nothing
      | Some pid =>
          match find (hs_re hs) line with
          | None => Some nothing
          | Some mt =>
              option_map (fun e => write_forward wok ready (hs_metrics hs) e pid (eval_src c tok mt cred))
                         (event_of_sketch hs c tok mt)
          end
      end
  end.
