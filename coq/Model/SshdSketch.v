(* Interpretation of the GENERATED handler sketches and decision trees (Gen/SshdHandlers.v) into the
   event record and the result shapes of the hand model (Model/SshdProc.v).  Definitions only.

   The interpretation fails closed (None): a key the event record cannot represent, a missing
   mandatory key, a duplicated key, or an event type / component / source type other than the one the
   model fixes all yield None, so that no tie lemma can be proved for such a sketch. *)
From Coq Require Import Ascii String List Bool Arith ZArith.
Import ListNotations.
From AM Require Import Lib.Bytes Lib.Regex Gen.SshdRegexes Gen.SshdDispatch Gen.SshdHandlers Model.SshdProc.
Open Scope string_scope.
Open Scope nat_scope.

(* the value a field source denotes, for processor fields [c], PID token [tok] and regex match [mt] *)
Definition eval_src (c : cfg) (tok : str) (mt : rmatch) (f : fsrc) : str :=
  match f with
  | FCap g => cap g mt
  | FConst s => s2l s
  | FCfgPid => tok
  | FCfgNode => c_node c
  | FCfgMachineID => c_mid c
  | FCap2 _ => []            (* not available in a flat sketch: sketch_wf demands plain sources, *)
  | FLineFrom _ _ => []      (* so these two cases are never reached by a successful interpretation *)
  end.

(* sources a flat sketch may use: captures of its one regex, constants, processor fields *)
Definition fsrc_plain (f : fsrc) : bool :=
  match f with
  | FCap _ | FConst _ | FCfgPid | FCfgNode | FCfgMachineID => true
  | FCap2 _ | FLineFrom _ _ => false
  end.

Fixpoint sk_lookup (k : string) (l : list (string * fsrc)) : option fsrc :=
  match l with
  | [] => None
  | (k', v) :: r => if String.eqb k k' then Some v else sk_lookup k r
  end.

Definition sk_mem (k : string) (l : list string) : bool := existsb (String.eqb k) l.

Fixpoint sk_nodup (l : list string) : bool :=
  match l with
  | [] => true
  | k :: r => negb (sk_mem k r) && sk_nodup r
  end.

(* every key is one of [allowed], every key of [mandatory] is present, no key occurs twice *)
Definition sk_keys_ok (allowed mandatory : list string) (l : list (string * fsrc)) : bool :=
  let ks := map fst l in
  forallb (fun k => sk_mem k allowed) ks && forallb (fun k => sk_mem k ks) mandatory && sk_nodup ks.

Definition source_extra_keys : list string := ["port"; "dns"].
Definition subject_keys : list string := ["loggedAs"; "userID"; "pid"; "filePath"; "keyType"; "fingerprint"].
Definition subject_mandatory : list string := ["loggedAs"; "userID"; "pid"].
Definition target_keys : list string := ["host"; "machine-id"].
Definition meta_extra_keys : list string := ["shell"].

(* what the model's event record leaves implicit *)
Definition sketch_fixed_ok (hs : hsketch) : bool :=
  String.eqb (hs_action hs) "UserLogin" && String.eqb (hs_component hs) "sshd" && String.eqb (hs_source_type hs) "IP".

Definition sketch_plain (hs : hsketch) : bool :=
  fsrc_plain (hs_source_value hs)
  && forallb (fun kv => fsrc_plain (snd kv))
       (hs_source_extra hs ++ hs_subjects hs ++ hs_target hs ++ hs_meta_extra hs)
  && match hs_forward hs with Some cred => fsrc_plain cred | None => true end.

Definition sketch_wf (hs : hsketch) : bool :=
  sketch_fixed_ok hs
  && sketch_plain hs
  && sk_keys_ok source_extra_keys [] (hs_source_extra hs)
  && sk_keys_ok subject_keys subject_mandatory (hs_subjects hs)
  && sk_keys_ok target_keys target_keys (hs_target hs)
  && sk_keys_ok meta_extra_keys [] (hs_meta_extra hs).

Definition event_of_sketch (hs : hsketch) (c : cfg) (tok : str) (mt : rmatch) : option event :=
  if sketch_wf hs then
    let ev := eval_src c tok mt in
    let opt k l := option_map ev (sk_lookup k l) in
    match sk_lookup "loggedAs" (hs_subjects hs), sk_lookup "userID" (hs_subjects hs), sk_lookup "pid" (hs_subjects hs),
          sk_lookup "host" (hs_target hs), sk_lookup "machine-id" (hs_target hs) with
    | Some la, Some uid, Some pid, Some host, Some mid =>
        Some {| ev_ok := hs_ok hs;
                ev_src := ev (hs_source_value hs);
                ev_port := opt "port" (hs_source_extra hs);
                ev_dns := opt "dns" (hs_source_extra hs);
                ev_logged_as := ev la;
                ev_user_id := ev uid;
                ev_pid := ev pid;
                ev_file_path := opt "filePath" (hs_subjects hs);
                ev_key_type := opt "keyType" (hs_subjects hs);
                ev_fingerprint := opt "fingerprint" (hs_subjects hs);
                ev_shell := opt "shell" (hs_meta_extra hs);
                ev_data := [];
                ev_host := ev host;
                ev_mid := ev mid |}
    | _, _, _, _, _ => None
    end
  else None.

(* The whole handler as the sketch describes it.
   hs_forward = None:      re-match; no match: nothing; else build the event, count hs_metrics, write.
   hs_forward = Some cred: Atoi(pid token) first (failure: nothing), then as above, and after a
                           successful write offer the login (that PID, cred) to the correlator. *)
Definition run_sketch (hs : hsketch) (c : cfg) (tok line : str) (wok ready : bool) : option result :=
  match hs_forward hs with
  | None =>
      match find (hs_re hs) line with
      | None => Some nothing
      | Some mt => option_map (write_only wok (hs_metrics hs)) (event_of_sketch hs c tok mt)
      end
  | Some cred =>
      match atoi tok with
      | None => Some nothing
      | Some pid =>
          match find (hs_re hs) line with
          | None => Some nothing
          | Some mt =>
              option_map (fun e => write_forward wok ready (hs_metrics hs) e pid (eval_src c tok mt cred))
                         (event_of_sketch hs c tok mt)
          end
      end
  end.

(* ================================================================================================
   Decision trees (hprog): every handler, including the two that branch or use no regex.
   ================================================================================================ *)

(* what is known on the path: first match, second match, the Atoi'd pid *)
Record penv := { pe_mt : option rmatch; pe_im : option rmatch; pe_pid : option Z }.
Definition penv0 : penv := {| pe_mt := None; pe_im := None; pe_pid := None |}.

(* a source that refers to a match the path does not have evaluates to None (fail closed) *)
Definition eval_psrc (c : cfg) (tok line : str) (env : penv) (f : fsrc) : option str :=
  match f with
  | FCap g => option_map (cap g) (pe_mt env)
  | FCap2 g => option_map (cap g) (pe_im env)
  | FConst s => Some (s2l s)
  | FCfgPid => Some tok
  | FCfgNode => Some (c_node c)
  | FCfgMachineID => Some (c_mid c)
  | FLineFrom n fallback => Some (if length line <=? n then s2l fallback else skipn n line)
  end.

Fixpoint eval_kvs (ev : fsrc -> option str) (l : list (string * fsrc)) : option (list (string * str)) :=
  match l with
  | [] => Some []
  | (k, f) :: r =>
      match ev f, eval_kvs ev r with
      | Some v, Some r' => Some ((k, v) :: r')
      | _, _ => None
      end
  end.

Fixpoint kv_lookup (k : string) (l : list (string * str)) : option str :=
  match l with
  | [] => None
  | (k', v) :: r => if String.eqb k k' then Some v else kv_lookup k r
  end.

Definition hevent_wf (he : hevent) : bool :=
  String.eqb (he_action he) "UserLogin" && String.eqb (he_component he) "sshd" && String.eqb (he_source_type he) "IP"
  && sk_keys_ok source_extra_keys [] (he_source_extra he)
  && sk_keys_ok subject_keys subject_mandatory (he_subjects he)
  && sk_keys_ok target_keys target_keys (he_target he)
  && sk_keys_ok meta_extra_keys [] (he_meta_extra he)
  && sk_nodup (map fst (he_data he)).

Definition event_of_hevent (he : hevent) (c : cfg) (tok line : str) (env : penv) : option event :=
  if hevent_wf he then
    let ev := eval_psrc c tok line env in
    match ev (he_source_value he), eval_kvs ev (he_source_extra he), eval_kvs ev (he_subjects he),
          eval_kvs ev (he_target he), eval_kvs ev (he_meta_extra he), eval_kvs ev (he_data he) with
    | Some src, Some se, Some su, Some tg, Some me, Some da =>
        match kv_lookup "loggedAs" su, kv_lookup "userID" su, kv_lookup "pid" su,
              kv_lookup "host" tg, kv_lookup "machine-id" tg with
        | Some la, Some uid, Some pid, Some host, Some mid =>
            Some {| ev_ok := he_ok he;
                    ev_src := src;
                    ev_port := kv_lookup "port" se;
                    ev_dns := kv_lookup "dns" se;
                    ev_logged_as := la;
                    ev_user_id := uid;
                    ev_pid := pid;
                    ev_file_path := kv_lookup "filePath" su;
                    ev_key_type := kv_lookup "keyType" su;
                    ev_fingerprint := kv_lookup "fingerprint" su;
                    ev_shell := kv_lookup "shell" me;
                    ev_data := da;
                    ev_host := host;
                    ev_mid := mid |}
        | _, _, _, _, _ => None
        end
    | _, _, _, _, _, _ => None
    end
  else None.

(* metrics, write, and (only with an Atoi'd pid on the path) the hand-off *)
Definition run_leaf (l : hleaf) (c : cfg) (tok line : str) (wok ready : bool) (env : penv) : option result :=
  match event_of_hevent (hl_event l) c tok line env with
  | None => None
  | Some e =>
      match hl_forward l with
      | None => Some (write_only wok (hl_metrics l) e)
      | Some cred =>
          match pe_pid env, eval_psrc c tok line env cred with
          | Some pid, Some cr => Some (write_forward wok ready (hl_metrics l) e pid cr)
          | _, _ => None
          end
      end
  end.

(* a slice expression with a start beyond the end of the string panics *)
Definition panicked : result := {| r_writes := []; r_forwards := []; r_metrics := []; r_ret := RetPanic |}.

Fixpoint run_prog (p : hprog) (c : cfg) (tok line : str) (wok ready : bool) (env : penv) : option result :=
  match p with
  | PWrite l => run_leaf l c tok line wok ready env
  | PFind re k =>
      match pe_mt env with
      | Some _ => None
      | None =>
          match find re line with
          | None => Some nothing
          | Some mt => run_prog k c tok line wok ready {| pe_mt := Some mt; pe_im := pe_im env; pe_pid := pe_pid env |}
          end
      end
  | PAtoi k =>
      match pe_pid env with
      | Some _ => None
      | None =>
          match atoi tok with
          | None => Some nothing
          | Some pid => run_prog k c tok line wok ready {| pe_mt := pe_mt env; pe_im := pe_im env; pe_pid := Some pid |}
          end
      end
  | PIfWholeLine k_then k_else =>
      match pe_mt env with
      | None => None
      | Some mt =>
          if Nat.eqb (length line) (m_end mt - m_start mt) then run_prog k_then c tok line wok ready env
          else run_prog k_else c tok line wok ready env
      end
  | PFind2 skip re2 k_none k_some =>
      match pe_mt env, pe_im env with
      | Some mt, None =>
          let start := (m_end mt - m_start mt) + skip in
          if length line <? start then Some panicked
          else
            match find re2 (skipn start line) with
            | None => run_prog k_none c tok line wok ready env
            | Some im => run_prog k_some c tok line wok ready {| pe_mt := pe_mt env; pe_im := Some im; pe_pid := pe_pid env |}
            end
      | _, _ => None
      end
  end.

(* ProcessEntry's handler [h] as go2v read it from the source: generated data only *)
Definition run_generated (h : handler) (c : cfg) (tok line : str) (wok ready : bool) : option result :=
  run_prog (handler_prog h) c tok line wok ready penv0.
