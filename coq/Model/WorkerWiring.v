(* The wiring of the three pipeline workers in cmd/namedpipe.go (RunNamedPipe): a small expression language for
   the closures handed to eg.Go and the constructors they call, and its normalisation.  Definitions only.

   The programs are GENERATED (Gen/WorkerBodies.v, by tools/go2v/workersgen.go) statement by statement from the
   closures' bodies; statements that only log are left out by the translator.  Normalising a closure
     - substitutes the closure's own variables (x := e; later uses of x),
     - inlines the four constructors (each is a single  return [&]T{field: parameter, ...}),
   and yields: the error values the closure tests and returns when non-nil (in order), and the expression whose
   value it returns at its end.  Proofs/WorkerWiringTie.v compares that normal form with the expected wiring.
   Variables of RunNamedPipe itself (groupCtx, logins, eventWriter, h, ...) stay symbolic; what they are bound to
   is [gen_shared], resolved by [resolve_shared]. *)
From Coq Require Import String List Bool ZArith Arith.
Import ListNotations.
Open Scope string_scope.

Inductive wexp :=
| WNil
| WVar (x : string)                                   (* a variable, or pkg.Name *)
| WStr (s : string)
| WInt (n : Z)
| WOpaque (src : string)                              (* an expression the translator gives no structure to *)
| WSel (e : wexp) (f : string)                        (* e.f *)
| WCall (f : string) (args : list wexp)               (* f(args), f a package-level function *)
| WMethod (recv : wexp) (m : string) (args : list wexp)   (* recv.m(args) *)
| WLit (ty : string) (addr : bool) (fields : list (string * wexp))   (* T{f: e, ...} or &T{f: e, ...} *)
| WMake (ty : string) (cap : option wexp)             (* make(chan T) / make(chan T, cap) *)
| WResult (e : wexp) (i : nat).                       (* the i-th result of the multi-valued call e *)

Inductive wstmt :=
| WSet (lhs : list string) (e : wexp)                 (* lhs := e  /  lhs = e *)
| WIfErrReturn (x : string) (wraps : bool)            (* if x != nil { return x }  /  { return fmt.Errorf("..%w..", .., x) } *)
| WReturn (e : wexp).

Record wworker := mkWorker { w_line : nat; w_body : list wstmt }.
Record wctor := mkCtor { c_name : string; c_params : list string; c_body : wexp }.

Fixpoint lookup (x : string) (env : list (string * wexp)) : option wexp :=
  match env with
  | [] => None
  | (y, v) :: r => if String.eqb x y then Some v else lookup x r
  end.

Fixpoint subst (env : list (string * wexp)) (e : wexp) : wexp :=
  match e with
  | WVar x => match lookup x env with Some v => v | None => e end
  | WSel a f => WSel (subst env a) f
  | WCall f args => WCall f (map (subst env) args)
  | WMethod r m args => WMethod (subst env r) m (map (subst env) args)
  | WLit ty a fs => WLit ty a (map (fun p => match p with (k, v) => (k, subst env v) end) fs)
  | WMake ty c => WMake ty (match c with Some x => Some (subst env x) | None => None end)
  | WResult a i => WResult (subst env a) i
  | _ => e
  end.

Fixpoint find_ctor (f : string) (cs : list wctor) : option wctor :=
  match cs with
  | [] => None
  | c :: r => if String.eqb f (c_name c) then Some c else find_ctor f r
  end.

(* constructor calls replaced by the literal they return (bottom-up; constructor bodies contain no calls) *)
Fixpoint inline (cs : list wctor) (e : wexp) : wexp :=
  match e with
  | WSel a f => WSel (inline cs a) f
  | WCall f args =>
      let args' := map (inline cs) args in
      match find_ctor f cs with
      | Some c => if Nat.eqb (length (c_params c)) (length args') then subst (combine (c_params c) args') (c_body c)
                  else WCall f args'
      | None => WCall f args'
      end
  | WMethod r m args => WMethod (inline cs r) m (map (inline cs) args)
  | WLit ty a fs => WLit ty a (map (fun p => match p with (k, v) => (k, inline cs v) end) fs)
  | WMake ty c => WMake ty (match c with Some x => Some (inline cs x) | None => None end)
  | WResult a i => WResult (inline cs a) i
  | _ => e
  end.

Definition norm (cs : list wctor) (env : list (string * wexp)) (e : wexp) : wexp := inline cs (subst env e).

(* x := e binds x to e;  x, y := e binds them to the results of the call *)
Definition bind (lhs : list string) (v : wexp) (env : list (string * wexp)) : list (string * wexp) :=
  match lhs with
  | [x] => (x, v) :: env
  | _ => combine lhs (map (WResult v) (seq 0 (length lhs))) ++ env
  end.

Record wresult := mkRes {
  r_guards : list (wexp * bool);    (* error values tested and returned when non-nil (wrapped with %w?), in order *)
  r_return : wexp                   (* the value of the final return *)
}.

Fixpoint eval_body (cs : list wctor) (env : list (string * wexp)) (guards : list (wexp * bool)) (b : list wstmt)
  : option wresult :=
  match b with
  | [] => None                                        (* no return statement *)
  | WSet lhs e :: r => eval_body cs (bind lhs (norm cs env e) env) guards r
  | WIfErrReturn x w :: r =>
      match lookup x env with
      | Some v => eval_body cs env (guards ++ [(v, w)]) r
      | None => None                                  (* the tested variable is not the closure's own *)
      end
  | WReturn e :: [] => Some (mkRes guards (norm cs env e))
  | WReturn _ :: _ => None                            (* statements after the return *)
  end.

Definition eval_worker (cs : list wctor) (w : wworker) : option wresult := eval_body cs [] [] (w_body w).

(* ---- comparison: literals are compared field by field whatever the order the fields are written in ---- *)
Fixpoint weq (a b : wexp) : bool :=
  match a, b with
  | WNil, WNil => true
  | WVar x, WVar y => String.eqb x y
  | WStr x, WStr y => String.eqb x y
  | WInt x, WInt y => Z.eqb x y
  | WOpaque _, _ => false                             (* an opaque value equals nothing *)
  | WSel x f, WSel y g => weq x y && String.eqb f g
  | WCall f xs, WCall g ys =>
      String.eqb f g && Nat.eqb (length xs) (length ys) &&
      (fix all2 (l : list wexp) (r : list wexp) : bool :=
         match l, r with
         | [], [] => true
         | x :: l', y :: r' => weq x y && all2 l' r'
         | _, _ => false
         end) xs ys
  | WMethod rx m xs, WMethod ry n ys =>
      weq rx ry && String.eqb m n && Nat.eqb (length xs) (length ys) &&
      (fix all2 (l : list wexp) (r : list wexp) : bool :=
         match l, r with
         | [], [] => true
         | x :: l', y :: r' => weq x y && all2 l' r'
         | _, _ => false
         end) xs ys
  | WLit t1 a1 f1, WLit t2 a2 f2 =>
      String.eqb t1 t2 && Bool.eqb a1 a2 && Nat.eqb (length f1) (length f2) &&
      (fix allf (l : list (string * wexp)) : bool :=
         match l with
         | [] => true
         | (k, v) :: l' => match lookup k f2 with Some v2 => weq v v2 | None => false end && allf l'
         end) f1
  | WMake t1 c1, WMake t2 c2 =>
      String.eqb t1 t2 &&
      match c1, c2 with
      | None, None => true
      | Some x, Some y => weq x y
      | _, _ => false
      end
  | WResult x i, WResult y j => weq x y && Nat.eqb i j
  | _, _ => false
  end.

Definition guard_eq (a b : wexp * bool) : bool := weq (fst a) (fst b) && Bool.eqb (snd a) (snd b).

Fixpoint guards_eq (a b : list (wexp * bool)) : bool :=
  match a, b with
  | [], [] => true
  | x :: a', y :: b' => guard_eq x y && guards_eq a' b'
  | _, _ => false
  end.

Definition res_eq (a : option wresult) (b : wresult) : bool :=
  match a with
  | Some r => guards_eq (r_guards r) (r_guards b) && weq (r_return r) (r_return b)
  | None => false
  end.

(* ---- the shared objects of RunNamedPipe ---- *)
Fixpoint shared_env (defs : list (list string * wexp)) (env : list (string * wexp)) : list (string * wexp) :=
  match defs with
  | [] => env
  | (lhs, e) :: r => shared_env r (bind lhs (subst env e) env)
  end.

Definition resolve_shared (defs : list (list string * wexp)) (x : string) : option wexp :=
  lookup x (shared_env defs []).

(* the literal a worker's returned call is made on, and a field of it *)
Definition recv_of (e : wexp) : option wexp := match e with WMethod r _ _ => Some r | _ => None end.
Definition field_of (f : string) (e : wexp) : option wexp :=
  match e with WLit _ _ fs => lookup f fs | _ => None end.
Definition fields_of (e : wexp) : list string := match e with WLit _ _ fs => map fst fs | _ => [] end.
