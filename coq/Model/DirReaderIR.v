(* A small deep-embedded IR for the core of processors/auditd/dirreader/dirreader.go and its interpreter.
   Definitions only.  The programs are GENERATED (Gen/DirReaderProg.v, by tools/go2v/dirreadergen.go);
   Proofs/DirReaderIRTie.v proves that interpreting the generated programs gives the hand-written model
   Model/DirReader.v ([read_lines], [on_event], [read_initial]/[startup]) for all inputs.

   What is translated: readLines, readFilePathLines, rotatingFile.read, setOffset / incOffsetBy /
   getOffset, loopWithError.  What stays outside, as stated contracts of library code:
   - bufio.Reader.ReadString(delim) over a byte string: the bytes up to and including the first delim and
     a nil error, or else the remaining bytes and io.EOF ([dcut], as [read_string] in Model/Framing.v);
     a failing underlying reader is the parameter [rd_fail];
   - os.File: Open / Stat / Seek may fail ([fenv]; explicit error branches in the programs); Stat reports
     [fe_size]; after Seek(off, io.SeekStart) reading starts at byte off, past the end there is nothing;
   - filepath.Join(dir, a) == filepath.Join(dir, b) iff a == b for directory entries a, b (plain file
     names); a joined path is never ""; the LENGTH of a path is an arbitrary function [plen];
   - sync/atomic Store/Add/Load on the offset field: plain assignment / addition / read (one goroutine
     touches the rotatingFile);
   - rotatingFile.readWithRetry / backoff.Retry: one call of read when it returns nil; a read that fails
     (retries, back-off) has no meaning here ([OStuck]);
   - the goroutine that reads an initial file runs to completion before the next select of the loop
     (the loop only drops fsnotify events until the initial files are done, whichever way they interleave);
   - fsnotify.Op is a bit set and  switch op  compares for equality: an event that carries two operations at
     once (Write|Chmod) would take the default branch; like Model/DirReader.v ([fsev]) the interpreter
     knows single operations only;
   - integers are [nat]: int64 overflow is not modelled, and a subtraction that would go below zero
     has no meaning ([OStuck]), as an out-of-range slice or index (a panic in Go).
   The select statements are driven from outside: [cancel k] says whether ctx is done at the k-th send
   of readLines; the list [d_in] says which arm of loopWithError's select fires, turn by turn.

   Loops: [exec fuel] lets every  for  go round at most [fuel] times ([dstep] is structural in the statement,
   [again_n] in the fuel).  Outcomes: [OFuel] (fuel exhausted) and [OStuck] (no meaning) are distinguishable
   from results; the tie theorems show that neither occurs. *)
From Coq Require Import Ascii String List Bool Arith.
Import ListNotations.
From AM Require Import Lib.Bytes Model.DirReader.
Open Scope string_scope.
Open Scope list_scope.
Open Scope nat_scope.

(* ---- syntax --------------------------------------------------------------------------------- *)

Inductive derr :=
| ErrNil
| ErrEOF                      (* io.EOF *)
| ErrCtx                      (* ctx.Err() *)
| ErrEnv (tag : string)       (* an error of the file system / the underlying reader *)
| ErrWrap (e : derr).         (* fmt.Errorf("... %w", e) *)

Inductive iexp :=
| IConst (n : nat)
| IVar (x : string)           (* an integer local *)
| ILen (x : string)           (* len(x), x a string local *)
| ILenNames                   (* len(o.initFileNames) *)
| IField (f : string)         (* o.f read directly *)
| ISize (x : string)          (* x.Size(), x a FileInfo *)
| IMsgBytes (x : string)      (* x.numBytesRead, x an initialFileRead *)
| IAdd (a b : iexp)
| ISub (a b : iexp).

Inductive sexp :=
| SVar (x : string)
| SSlice (x : string) (lo hi : iexp).   (* x[lo:hi] *)

Inductive pexp :=                        (* file paths *)
| PVar (x : string)
| PJoinDirLit (s : string)               (* filepath.Join(o.dirPath, "s") *)
| PJoinDirName (i : iexp)                (* filepath.Join(o.dirPath, o.initFileNames[i]) *)
| PMsgPath (x : string)                  (* x.filePath, x an initialFileRead *)
| PEventName (x : string).               (* x.Name, x an fsnotify.Event *)

Inductive errexp :=
| XNil
| XVar (x : string)
| XCtxErr                                (* ctx.Err() *)
| XWrap (x : string)                     (* fmt.Errorf("... %w", x) *)
| XMsgErr (x : string)                   (* x.err, x an initialFileRead *)
| XWrapMsgErr (x : string).              (* fmt.Errorf("... %w", x.err) *)

Inductive dcond :=
| CLt (a b : iexp) | CLe (a b : iexp) | CGt (a b : iexp) | CGe (a b : iexp)
| CEq (a b : iexp) | CNe (a b : iexp)
| CErrNotNil (e : errexp)                (* e != nil *)
| CErrIsEOF (x : string)                 (* errors.Is(x, io.EOF) *)
| CPathEq (a b : pexp)                   (* a == b *)
| CPathLenEq (a b : pexp)                (* len(a) == len(b) *)
| CNot (c : dcond)
| CAnd (a b : dcond).                    (* a && b: b is not evaluated when a is false *)

Inductive opensrc :=
| OpenFn                                 (* o.openFn() *)
| OpenPath (fsi p : string).             (* fsi.Open(p) *)

Inductive rguard :=
| GCtxDone                               (* case <-ctx.Done() *)
| GRecvMsg (x c : string)                (* case x := <-c *)
| GRecvEvent (x : string).               (* case x := <-o.watcher.Events() *)

Inductive dstmt :=
(* general *)
| DVarInt (x : string)                               (* var x int64 *)
| DVarStr (x : string)                               (* var x string *)
| DDefInt (x : string) (e : iexp)                    (* x := e *)
| DAddAssign (x : string) (e : iexp)                 (* x += e *)
| DIncr (x : string)                                 (* x++ *)
| DSetStr (x : string) (e : sexp)                    (* x = e *)
| DDefPath (x : string) (p : pexp)                   (* x := p *)
| DIf (c : dcond) (th el : list dstmt)
| DLoop (body : list dstmt)                          (* for { body } *)
| DReturn (n : option iexp) (e : errexp)             (* return [n,] e *)
| DContinue
(* readLines / readFilePathLines *)
| DNewBufio (r src : string)                         (* r := bufio.NewReader(src) *)
| DReadString (x err r : string) (delim : nat)       (* x, err := r.ReadString(delim) *)
| DSelectSend (done_arm : list dstmt) (v : sexp) (sent_arm : list dstmt)
      (* select { case <-ctx.Done(): done_arm  case lines <- v: sent_arm } *)
| DReturnReadLines (f : string)                      (* return readLines(ctx, f, <lines channel>) *)
(* rotatingFile.read *)
| DSwitchOp (x : string) (cases : list (list string * list dstmt)) (default : list dstmt)
      (* switch x { case fsnotify.A, fsnotify.B: ...  default: ... } *)
| DCallMethod (m : string) (args : list iexp)        (* <rotatingFile>.m(args), result dropped *)
| DDefCall (x m : string)                            (* x := <rotatingFile>.m() *)
| DSetField (f : string) (e : iexp)                  (* <rotatingFile>.f = e *)
| DOpen (f err : string) (src : opensrc)             (* f, err := ... *)
| DDeferClose (f : string)                           (* defer f.Close() *)
| DStat (x err f : string)                           (* x, err := f.Stat() *)
| DSeek (err f : string) (off : iexp)                (* _, err = f.Seek(off, io.SeekStart) *)
| DCallReadLines (n err f : string)                  (* n, err := readLines(ctx, f, o.lines) *)
(* loopWithError *)
| DMakeChan (x : string) (cap : nat)                 (* x := make(chan initialFileRead, cap) *)
| DSendZeroMsg (c : string)                          (* c <- initialFileRead{} *)
| DCloseInitDone                                     (* close(o.initFilesDone) *)
| DNewRotating (x : string) (p : pexp)
      (* x := &rotatingFile{openFn: func() {return o.fs.Open(p)}, lines: o.lines, ...}: offset, lastSz zero *)
| DClearNames                                        (* o.initFileNames = nil *)
| DGoReadFile (p : pexp) (c : string)
      (* go func() { n, err := readFilePathLines(ctx, o.fs, p, o.lines); c <- initialFileRead{p, n, err} }() *)
| DReadWithRetry (err obj x : string)                (* err := obj.readWithRetry(ctx, x.Op) *)
| DSelectRecv (arms : list (rguard * list dstmt)).   (* select { arms } *)

(* the three accessors of rotatingFile: which sync/atomic operation on which field *)
Inductive dmeth :=
| MStore (f : string)         (* atomic.StoreInt64(&o.f, i) *)
| MAdd (f : string)           (* return atomic.AddInt64(&o.f, i) *)
| MLoad (f : string).         (* return atomic.LoadInt64(&o.f) *)

(* ---- values and state ----------------------------------------------------------------------- *)

Inductive pval := PvZero (* "" *) | PvEntry (n : name) (* filepath.Join(o.dirPath, n) *).

Record dmsg := { m_path : pval; m_bytes : nat; m_err : derr }.       (* initialFileRead *)
Record devent := { e_name : name; e_op : fsev; e_file : str }.       (* fsnotify.Event for dirPath/e_name,
                                                                        e_file = that file's content then *)

Inductive dval :=
| VInt (n : nat) | VStr (s : str) | VErr (e : derr) | VPath (p : pval)
| VMsg (m : dmsg) | VEvent (e : devent) | VOp (e : fsev)
| VInfo (size : nat)          (* a FileInfo *)
| VObj (p : pval)             (* a *rotatingFile whose openFn opens p *)
| VHandle.                    (* a reader, an open file, a channel, a nil FileInfo *)

(* which arm of loopWithError's select fires *)
Inductive choice :=
| CInit                       (* a message is taken from initFileDone *)
| CEvent (e : devent)
| CCancel.

Definition denv := list (string * dval).

Record dst := {
  d_env : denv;
  d_obj : rstate;             (* the rotatingFile (receiver of read; mainLog of loopWithError) *)
  d_src : str;                (* readLines: what the reader has not delivered yet *)
  d_nread : nat;              (* ReadString calls so far *)
  d_sent : list str;          (* lines sent on the lines channel by this call *)
  d_pos : option nat;         (* read: position of the open file *)
  d_chan : list dmsg;         (* loopWithError: content of initFileDone *)
  d_cap : nat;                (* its capacity *)
  d_names : list name;        (* o.initFileNames *)
  d_closed : nat;             (* how often initFilesDone has been closed *)
  d_out : list (list str);    (* loopWithError: lines delivered, per file read / per read call *)
  d_in : list choice
}.

Definition st0 : dst :=
  {| d_env := []; d_obj := RS 0 0; d_src := []; d_nread := 0; d_sent := []; d_pos := None;
     d_chan := []; d_cap := 0; d_names := []; d_closed := 0; d_out := []; d_in := [] |}.

Definition set_env (st : dst) (v : denv) : dst :=
  {| d_env := v; d_obj := d_obj st; d_src := d_src st; d_nread := d_nread st; d_sent := d_sent st;
     d_pos := d_pos st; d_chan := d_chan st; d_cap := d_cap st; d_names := d_names st;
     d_closed := d_closed st; d_out := d_out st; d_in := d_in st |}.
Definition set_obj (st : dst) (v : rstate) : dst :=
  {| d_env := d_env st; d_obj := v; d_src := d_src st; d_nread := d_nread st; d_sent := d_sent st;
     d_pos := d_pos st; d_chan := d_chan st; d_cap := d_cap st; d_names := d_names st;
     d_closed := d_closed st; d_out := d_out st; d_in := d_in st |}.
Definition set_src (st : dst) (v : str) : dst :=
  {| d_env := d_env st; d_obj := d_obj st; d_src := v; d_nread := d_nread st; d_sent := d_sent st;
     d_pos := d_pos st; d_chan := d_chan st; d_cap := d_cap st; d_names := d_names st;
     d_closed := d_closed st; d_out := d_out st; d_in := d_in st |}.
(* one ReadString call has consumed bytes *)
Definition consume (st : dst) (v : str) : dst :=
  {| d_env := d_env st; d_obj := d_obj st; d_src := v; d_nread := S (d_nread st); d_sent := d_sent st;
     d_pos := d_pos st; d_chan := d_chan st; d_cap := d_cap st; d_names := d_names st;
     d_closed := d_closed st; d_out := d_out st; d_in := d_in st |}.
Definition set_sent (st : dst) (v : list str) : dst :=
  {| d_env := d_env st; d_obj := d_obj st; d_src := d_src st; d_nread := d_nread st; d_sent := v;
     d_pos := d_pos st; d_chan := d_chan st; d_cap := d_cap st; d_names := d_names st;
     d_closed := d_closed st; d_out := d_out st; d_in := d_in st |}.
Definition set_pos (st : dst) (v : option nat) : dst :=
  {| d_env := d_env st; d_obj := d_obj st; d_src := d_src st; d_nread := d_nread st; d_sent := d_sent st;
     d_pos := v; d_chan := d_chan st; d_cap := d_cap st; d_names := d_names st;
     d_closed := d_closed st; d_out := d_out st; d_in := d_in st |}.
Definition set_chan (st : dst) (v : list dmsg) (cap : nat) : dst :=
  {| d_env := d_env st; d_obj := d_obj st; d_src := d_src st; d_nread := d_nread st; d_sent := d_sent st;
     d_pos := d_pos st; d_chan := v; d_cap := cap; d_names := d_names st;
     d_closed := d_closed st; d_out := d_out st; d_in := d_in st |}.
Definition set_names (st : dst) (v : list name) : dst :=
  {| d_env := d_env st; d_obj := d_obj st; d_src := d_src st; d_nread := d_nread st; d_sent := d_sent st;
     d_pos := d_pos st; d_chan := d_chan st; d_cap := d_cap st; d_names := v;
     d_closed := d_closed st; d_out := d_out st; d_in := d_in st |}.
Definition set_closed (st : dst) (v : nat) : dst :=
  {| d_env := d_env st; d_obj := d_obj st; d_src := d_src st; d_nread := d_nread st; d_sent := d_sent st;
     d_pos := d_pos st; d_chan := d_chan st; d_cap := d_cap st; d_names := d_names st;
     d_closed := v; d_out := d_out st; d_in := d_in st |}.
Definition set_out (st : dst) (v : list (list str)) : dst :=
  {| d_env := d_env st; d_obj := d_obj st; d_src := d_src st; d_nread := d_nread st; d_sent := d_sent st;
     d_pos := d_pos st; d_chan := d_chan st; d_cap := d_cap st; d_names := d_names st;
     d_closed := d_closed st; d_out := v; d_in := d_in st |}.
Definition set_in (st : dst) (v : list choice) : dst :=
  {| d_env := d_env st; d_obj := d_obj st; d_src := d_src st; d_nread := d_nread st; d_sent := d_sent st;
     d_pos := d_pos st; d_chan := d_chan st; d_cap := d_cap st; d_names := d_names st;
     d_closed := d_closed st; d_out := d_out st; d_in := v |}.

Fixpoint lookup (x : string) (l : denv) : option dval :=
  match l with
  | [] => None
  | (y, v) :: r => if String.eqb y x then Some v else lookup x r
  end.

(* x := v / x = v: an existing variable keeps its place, a new one goes to the end *)
Fixpoint bind (x : string) (v : dval) (l : denv) : denv :=
  match l with
  | [] => [(x, v)]
  | (y, w) :: r => if String.eqb y x then (y, v) :: r else (y, w) :: bind x v r
  end.

Definition bindv (x : string) (v : dval) (st : dst) : dst := set_env st (bind x v (d_env st)).

(* leaving a block: the variables declared inside go out of scope *)
Definition leave (before after : dst) : dst :=
  set_env after (firstn (List.length (d_env before)) (d_env after)).

Definition field (f : string) (o : rstate) : option nat :=
  if String.eqb f "offset" then Some (offset o)
  else if String.eqb f "lastSz" then Some (lastSz o)
  else None.

Definition set_field (f : string) (v : nat) (o : rstate) : option rstate :=
  if String.eqb f "offset" then Some (RS v (lastSz o))
  else if String.eqb f "lastSz" then Some (RS (offset o) v)
  else None.

(* the directory entry a string literal of the source names *)
Definition lit_name (s : string) : name := if String.eqb s "audit.log" then Live else Other.

Definition fsev_name (e : fsev) : string :=
  match e with
  | EvCreate => "Create" | EvRemove => "Remove" | EvRename => "Rename"
  | EvWrite => "Write" | EvChmod => "Chmod"
  end.

Fixpoint mem_str (x : string) (l : list string) : bool :=
  match l with [] => false | y :: r => String.eqb y x || mem_str x r end.

Definition pval_eqb (a b : pval) : bool :=
  match a, b with
  | PvZero, PvZero => true
  | PvEntry x, PvEntry y => name_eqb x y
  | _, _ => false
  end.

Fixpoint is_eof (e : derr) : bool :=
  match e with ErrEOF => true | ErrWrap e' => is_eof e' | _ => false end.

Definition is_nil (e : derr) : bool := match e with ErrNil => true | _ => false end.

(* bufio.Reader.ReadString over the bytes not yet delivered: up to and including the first delimiter *)
Fixpoint dcut (d : ascii) (s : str) : option (str * str) :=
  match s with
  | [] => None
  | c :: r =>
      if Ascii.eqb c d then Some ([c], r)
      else match dcut d r with Some (l, q) => Some (c :: l, q) | None => None end
  end.

(* what the file system does for one call of read / readFilePathLines *)
Record fenv := {
  fe_open : derr;             (* result of opening *)
  fe_stat : derr;             (* result of Stat *)
  fe_size : nat;              (* the size Stat reports *)
  fe_seek : derr;             (* result of Seek *)
  fe_data : str               (* the file's bytes *)
}.

(* nothing fails and Stat reports the length of the content: the domain of Model/DirReader.v *)
Definition fenv_ok (file : str) : fenv :=
  {| fe_open := ErrNil; fe_stat := ErrNil; fe_size := List.length file; fe_seek := ErrNil; fe_data := file |}.

Inductive outcome :=
| ONext (st : dst)                                 (* the statement is done *)
| OReturn (st : dst) (n : option nat) (e : derr)   (* the function has returned *)
| OContinue (st : dst)                             (* continue of the enclosing for *)
| OBlocked (st : dst)                              (* waiting in a select, no further input given *)
| OFuel                                            (* loop fuel exhausted *)
| OStuck.                                          (* no meaning *)

(* ---- interpreter ----------------------------------------------------------------------------- *)

(* a statement list: until something else than "done" happens *)
Definition block_of (go : dstmt -> dst -> outcome) : list dstmt -> dst -> outcome :=
  fix block (l : list dstmt) (st : dst) {struct l} : outcome :=
    match l with
    | [] => ONext st
    | c1 :: r => match go c1 st with ONext st1 => block r st1 | o => o end
    end.

(* a nested block: its declarations go out of scope when it is left normally *)
Definition scoped_run (run : list dstmt -> dst -> outcome) (base : dst) (l : list dstmt) (st : dst) : outcome :=
  match run l st with
  | ONext st1 => ONext (leave base st1)
  | OContinue st1 => OContinue (leave base st1)
  | o => o
  end.

Section Interp.
  Variable methods : list (string * dmeth).
  Variable rd_fail : nat -> derr.            (* error of the underlying reader at the k-th ReadString *)
  Variable cancel : nat -> bool.             (* ctx done at the k-th send of readLines *)
  Variable fe : fenv.
  Variable plen : pval -> nat.               (* length of a path *)
  Variable call_rl : str -> option (list str * nat * derr).                    (* readLines on these bytes *)
  Variable call_rfl : name -> option (list str * nat * derr).                  (* readFilePathLines *)
  Variable call_read : rstate -> fsev -> str -> option (rstate * list str * derr).   (* rotatingFile.read *)

  Fixpoint ieval (st : dst) (e : iexp) : option nat :=
    match e with
    | IConst n => Some n
    | IVar x => match lookup x (d_env st) with Some (VInt n) => Some n | _ => None end
    | ILen x => match lookup x (d_env st) with Some (VStr s) => Some (List.length s) | _ => None end
    | ILenNames => Some (List.length (d_names st))
    | IField f => field f (d_obj st)
    | ISize x => match lookup x (d_env st) with Some (VInfo n) => Some n | _ => None end
    | IMsgBytes x => match lookup x (d_env st) with Some (VMsg m) => Some (m_bytes m) | _ => None end
    | IAdd a b => match ieval st a, ieval st b with Some x, Some y => Some (x + y) | _, _ => None end
    | ISub a b =>
        match ieval st a, ieval st b with
        | Some x, Some y => if y <=? x then Some (x - y) else None
        | _, _ => None
        end
    end.

  Fixpoint ievals (st : dst) (l : list iexp) : option (list nat) :=
    match l with
    | [] => Some []
    | e :: r => match ieval st e, ievals st r with Some x, Some xs => Some (x :: xs) | _, _ => None end
    end.

  Definition seval (st : dst) (e : sexp) : option str :=
    match e with
    | SVar x => match lookup x (d_env st) with Some (VStr s) => Some s | _ => None end
    | SSlice x lo hi =>
        match lookup x (d_env st), ieval st lo, ieval st hi with
        | Some (VStr s), Some a, Some b =>
            if (a <=? b) && (b <=? List.length s) then Some (sub s a b) else None
        | _, _, _ => None
        end
    end.

  Definition peval (st : dst) (e : pexp) : option pval :=
    match e with
    | PVar x => match lookup x (d_env st) with Some (VPath p) => Some p | _ => None end
    | PJoinDirLit s => Some (PvEntry (lit_name s))
    | PJoinDirName i =>
        match ieval st i with
        | Some k => match nth_error (d_names st) k with Some n => Some (PvEntry n) | None => None end
        | None => None
        end
    | PMsgPath x => match lookup x (d_env st) with Some (VMsg m) => Some (m_path m) | _ => None end
    | PEventName x => match lookup x (d_env st) with Some (VEvent e) => Some (PvEntry (e_name e)) | _ => None end
    end.

  Definition xeval (st : dst) (e : errexp) : option derr :=
    match e with
    | XNil => Some ErrNil
    | XVar x => match lookup x (d_env st) with Some (VErr e) => Some e | _ => None end
    | XCtxErr => Some ErrCtx
    | XWrap x => match lookup x (d_env st) with Some (VErr e) => Some (ErrWrap e) | _ => None end
    | XMsgErr x => match lookup x (d_env st) with Some (VMsg m) => Some (m_err m) | _ => None end
    | XWrapMsgErr x => match lookup x (d_env st) with Some (VMsg m) => Some (ErrWrap (m_err m)) | _ => None end
    end.

  Definition icmp (st : dst) (f : nat -> nat -> bool) (a b : iexp) : option bool :=
    match ieval st a, ieval st b with Some x, Some y => Some (f x y) | _, _ => None end.

  Fixpoint ceval (st : dst) (c : dcond) : option bool :=
    match c with
    | CLt a b => icmp st Nat.ltb a b
    | CLe a b => icmp st Nat.leb a b
    | CGt a b => icmp st (fun x y => Nat.ltb y x) a b
    | CGe a b => icmp st (fun x y => Nat.leb y x) a b
    | CEq a b => icmp st Nat.eqb a b
    | CNe a b => icmp st (fun x y => negb (Nat.eqb x y)) a b
    | CErrNotNil e => match xeval st e with Some v => Some (negb (is_nil v)) | None => None end
    | CErrIsEOF x => match lookup x (d_env st) with Some (VErr e) => Some (is_eof e) | _ => None end
    | CPathEq a b => match peval st a, peval st b with Some x, Some y => Some (pval_eqb x y) | _, _ => None end
    | CPathLenEq a b =>
        match peval st a, peval st b with Some x, Some y => Some (Nat.eqb (plen x) (plen y)) | _, _ => None end
    | CNot c' => match ceval st c' with Some b => Some (negb b) | None => None end
    | CAnd a b => match ceval st a with Some true => ceval st b | other => other end
    end.

  (* c <- m on the buffered channel *)
  Definition push_msg (m : dmsg) (st : dst) : outcome :=
    if List.length (d_chan st) <? d_cap st then ONext (set_chan st (d_chan st ++ [m]) (d_cap st))
    else OStuck.            (* the send would block *)

  Definition is_handle (x : string) (st : dst) : bool :=
    match lookup x (d_env st) with Some VHandle => true | _ => false end.

  Definition lookup_meth (m : string) : option dmeth :=
    (fix f (l : list (string * dmeth)) : option dmeth :=
       match l with
       | [] => None
       | (y, v) :: r => if String.eqb y m then Some v else f r
       end) methods.

  Section Step.
  (* how the enclosing for-loop goes round again; None: no fuel left *)
  Variable again : option (dstmt -> dst -> outcome).

  Fixpoint dstep (c : dstmt) (st : dst) {struct c} : outcome :=
      let block := block_of dstep in
      let scoped_from := scoped_run block in
      let scoped := fun (l : list dstmt) (st : dst) => scoped_run block st l st in
      match c with
      | DVarInt x => ONext (bindv x (VInt 0) st)
      | DVarStr x => ONext (bindv x (VStr []) st)
      | DDefInt x e => match ieval st e with Some n => ONext (bindv x (VInt n) st) | None => OStuck end
      | DAddAssign x e =>
          match lookup x (d_env st), ieval st e with
          | Some (VInt a), Some n => ONext (bindv x (VInt (a + n)) st)
          | _, _ => OStuck
          end
      | DIncr x =>
          match lookup x (d_env st) with
          | Some (VInt a) => ONext (bindv x (VInt (S a)) st)
          | _ => OStuck
          end
      | DSetStr x e =>
          match lookup x (d_env st), seval st e with
          | Some (VStr _), Some s => ONext (bindv x (VStr s) st)
          | _, _ => OStuck
          end
      | DDefPath x p => match peval st p with Some v => ONext (bindv x (VPath v) st) | None => OStuck end
      | DIf c' th el =>
          match ceval st c' with
          | Some b => scoped (if b then th else el) st
          | None => OStuck
          end
      | DLoop body =>
          match again with
          | None => OFuel
          | Some k =>
              match scoped body st with
              | ONext st1 | OContinue st1 => k (DLoop body) st1
              | o => o
              end
          end
      | DReturn n e =>
          match xeval st e with
          | Some v =>
              match n with
              | None => OReturn st None v
              | Some ne => match ieval st ne with Some k => OReturn st (Some k) v | None => OStuck end
              end
          | None => OStuck
          end
      | DContinue => OContinue st
      | DNewBufio r src => if is_handle src st then ONext (bindv r VHandle st) else OStuck
      | DReadString x err r delim =>
          if is_handle r st then
            match rd_fail (d_nread st) with
            | ErrNil =>
                match dcut (ascii_of_nat delim) (d_src st) with
                | Some (l, rest) => ONext (bindv err (VErr ErrNil) (bindv x (VStr l) (consume st rest)))
                | None => ONext (bindv err (VErr ErrEOF) (bindv x (VStr (d_src st)) (consume st [])))
                end
            | e => ONext (bindv err (VErr e) (bindv x (VStr []) (consume st (d_src st))))
            end
          else OStuck
      | DSelectSend done_arm v sent_arm =>
          if cancel (List.length (d_sent st)) then scoped done_arm st
          else match seval st v with
               | Some s => scoped sent_arm (set_sent st (d_sent st ++ [s]))
               | None => OStuck
               end
      | DReturnReadLines f =>
          match is_handle f st, d_pos st with
          | true, Some p =>
              match call_rl (skipn p (fe_data fe)) with
              | Some (ls, k, e) => OReturn (set_sent st (d_sent st ++ ls)) (Some k) e
              | None => OStuck
              end
          | _, _ => OStuck
          end
      | DSwitchOp x cases default =>
          match lookup x (d_env st) with
          | Some (VOp e) =>
              (fix run_cases (cs : list (list string * list dstmt)) {struct cs} : outcome :=
                 match cs with
                 | [] => scoped default st
                 | (ns, b) :: r => if mem_str (fsev_name e) ns then scoped b st else run_cases r
                 end) cases
          | _ => OStuck
          end
      | DCallMethod m args =>
          match lookup_meth m, ievals st args with
          | Some (MStore f), Some [v] =>
              match set_field f v (d_obj st) with Some o => ONext (set_obj st o) | None => OStuck end
          | Some (MAdd f), Some [v] =>
              match field f (d_obj st) with
              | Some a => match set_field f (a + v) (d_obj st) with Some o => ONext (set_obj st o) | None => OStuck end
              | None => OStuck
              end
          | Some (MLoad f), Some [] => match field f (d_obj st) with Some _ => ONext st | None => OStuck end
          | _, _ => OStuck
          end
      | DDefCall x m =>
          match lookup_meth m with
          | Some (MLoad f) => match field f (d_obj st) with Some a => ONext (bindv x (VInt a) st) | None => OStuck end
          | _ => OStuck
          end
      | DSetField f e =>
          match ieval st e with
          | Some v => match set_field f v (d_obj st) with Some o => ONext (set_obj st o) | None => OStuck end
          | None => OStuck
          end
      | DOpen f err src =>
          match fe_open fe with
          | ErrNil => ONext (bindv err (VErr ErrNil) (bindv f VHandle (set_pos st (Some 0))))
          | e => ONext (bindv err (VErr e) (bindv f (VInt 0) st))     (* f is nil: not a handle *)
          end
      | DDeferClose f => if is_handle f st then ONext st else OStuck
      | DStat x err f =>
          match is_handle f st, d_pos st with
          | true, Some _ =>
              match fe_stat fe with
              | ErrNil => ONext (bindv err (VErr ErrNil) (bindv x (VInfo (fe_size fe)) st))
              | e => ONext (bindv err (VErr e) (bindv x VHandle st))  (* a nil FileInfo *)
              end
          | _, _ => OStuck
          end
      | DSeek err f off =>
          match is_handle f st, d_pos st, ieval st off with
          | true, Some _, Some k =>
              match fe_seek fe with
              | ErrNil => ONext (bindv err (VErr ErrNil) (set_pos st (Some k)))
              | e => ONext (bindv err (VErr e) st)
              end
          | _, _, _ => OStuck
          end
      | DCallReadLines n err f =>
          match is_handle f st, d_pos st with
          | true, Some p =>
              match call_rl (skipn p (fe_data fe)) with
              | Some (ls, k, e) =>
                  ONext (bindv err (VErr e) (bindv n (VInt k) (set_sent st (d_sent st ++ ls))))
              | None => OStuck
              end
          | _, _ => OStuck
          end
      | DMakeChan x cap => ONext (bindv x VHandle (set_chan st [] cap))
      | DSendZeroMsg c' =>
          if is_handle c' st then push_msg {| m_path := PvZero; m_bytes := 0; m_err := ErrNil |} st else OStuck
      | DCloseInitDone =>
          match d_closed st with
          | 0 => ONext (set_closed st 1)
          | _ => OStuck                   (* close of a closed channel panics *)
          end
      | DNewRotating x p =>
          match peval st p with
          | Some v => ONext (bindv x (VObj v) (set_obj st (RS 0 0)))
          | None => OStuck
          end
      | DClearNames => ONext (set_names st [])
      | DGoReadFile p c' =>
          match is_handle c' st, peval st p with
          | true, Some (PvEntry a) =>
              match call_rfl a with
              | Some (ls, k, e) =>
                  push_msg {| m_path := PvEntry a; m_bytes := k; m_err := e |} (set_out st (d_out st ++ [ls]))
              | None => OStuck
              end
          | _, _ => OStuck
          end
      | DReadWithRetry err obj x =>
          match lookup obj (d_env st), lookup x (d_env st) with
          | Some (VObj p), Some (VEvent ev) =>
              if pval_eqb p (PvEntry (e_name ev)) then
                match call_read (d_obj st) (e_op ev) (e_file ev) with
                | Some (o, ls, ErrNil) =>
                    ONext (bindv err (VErr ErrNil) (set_out (set_obj st o) (d_out st ++ [ls])))
                | _ => OStuck             (* a failing read: retries and back-off are outside *)
                end
              else OStuck                 (* the object opens another file than the event is about *)
          | _, _ => OStuck
          end
      | DSelectRecv arms =>
          match d_in st with
          | [] => OBlocked st
          | ch :: rest =>
              let st' := set_in st rest in
              (fix pick (l : list (rguard * list dstmt)) {struct l} : outcome :=
                 match l with
                 | [] => OStuck
                 | (g, b) :: r =>
                     match g, ch with
                     | GCtxDone, CCancel => scoped b st'
                     | GRecvMsg x c', CInit =>
                         if is_handle c' st' then
                           match d_chan st' with
                           | m :: ms => scoped_from st' b (bindv x (VMsg m) (set_chan st' ms (d_cap st')))
                           | [] => OStuck           (* nothing to receive: this arm cannot fire *)
                           end
                         else OStuck
                     | GRecvEvent x, CEvent ev => scoped_from st' b (bindv x (VEvent ev) st')
                     | _, _ => pick r
                     end
                 end) arms
          end
      end.
  End Step.

  Fixpoint again_n (fuel : nat) : option (dstmt -> dst -> outcome) :=
    match fuel with
    | 0 => None
    | S f => Some (dstep (again_n f))
    end.

  (* [fuel] = how many times for-loops may go round *)
  Definition exec (fuel : nat) : dstmt -> dst -> outcome := dstep (again_n fuel).
  Definition exec_block (fuel : nat) : list dstmt -> dst -> outcome := block_of (exec fuel).
End Interp.

(* ---- functions ------------------------------------------------------------------------------- *)

(* what a parameter is bound to when the function is entered *)
Inductive pkind :=
| KHandle                     (* a context, a reader, a channel, a file system *)
| KOp                         (* the fsnotify.Op *)
| KPath.                      (* the file path *)

Record dfunc := { f_params : list (string * pkind); f_body : list dstmt }.



Fixpoint bind_params (ps : list (string * pkind)) (e : option fsev) (p : option pval) : denv :=
  match ps with
  | [] => []
  | (x, k) :: r =>
      bind x (match k, e, p with
              | KOp, Some v, _ => VOp v
              | KPath, _, Some v => VPath v
              | _, _, _ => VHandle
              end) (bind_params r e p)
  end.

Definition nothing3 {A B C D : Type} : A -> B -> C -> option D := fun _ _ _ => None.
Definition nothing1 {A D : Type} : A -> option D := fun _ => None.

(* -- readLines on a reader that delivers the bytes [s] -- *)
Inductive rl_result :=
| RLDone (sent : list str) (n : nat) (e : derr)    (* returned (n, e) having sent these lines *)
| RLFuel
| RLStuck.

Definition run_readlines_under (rd_fail : nat -> derr) (cancel : nat -> bool) (p : dfunc) (s : str) : rl_result :=
  match exec_block [] rd_fail cancel (fenv_ok []) (fun _ => 0) nothing1 nothing1 nothing3
          (S (List.length s)) (f_body p)
          (set_src (set_env st0 (bind_params (f_params p) None None)) s) with
  | OReturn st (Some n) e => RLDone (d_sent st) n e
  | OFuel => RLFuel
  | _ => RLStuck
  end.

(* the reader never fails and ctx is not cancelled *)
Definition run_readlines (p : dfunc) (s : str) : rl_result :=
  run_readlines_under (fun _ => ErrNil) (fun _ => false) p s.

Definition as_call (r : rl_result) : option (list str * nat * derr) :=
  match r with RLDone ls n e => Some (ls, n, e) | _ => None end.

(* -- rotatingFile.read(ctx, op) on the state [st] -- *)
Inductive rd_result :=
| RDDone (st : rstate) (sent : list str) (e : derr)
| RDFuel
| RDStuck.

Definition run_read_under (fe : fenv) (methods : list (string * dmeth)) (rl p : dfunc)
    (st : rstate) (e : fsev) : rd_result :=
  match exec_block methods (fun _ => ErrNil) (fun _ => false) fe (fun _ => 0)
          (fun s => as_call (run_readlines rl s)) nothing1 nothing3
          1 (f_body p)
          (set_obj (set_env st0 (bind_params (f_params p) (Some e) None)) st) with
  | OReturn st' None err => RDDone (d_obj st') (d_sent st') err
  | OFuel => RDFuel
  | _ => RDStuck
  end.

(* no file-system error, Stat reports the length of the content *)
Definition run_read (methods : list (string * dmeth)) (rl p : dfunc)
    (st : rstate) (file : str) (e : fsev) : rd_result :=
  run_read_under (fenv_ok file) methods rl p st e.

Definition read_as_call (r : rd_result) : option (rstate * list str * derr) :=
  match r with RDDone st ls e => Some (st, ls, e) | _ => None end.

(* -- readFilePathLines(ctx, fsi, path, l) -- *)
Definition run_readfile_under (fe : fenv) (rl p : dfunc) (a : name) : rl_result :=
  match exec_block [] (fun _ => ErrNil) (fun _ => false) fe (fun _ => 0)
          (fun s => as_call (run_readlines rl s)) nothing1 nothing3
          1 (f_body p)
          (set_env st0 (bind_params (f_params p) None (Some (PvEntry a)))) with
  | OReturn st (Some n) e => RLDone (d_sent st) n e
  | OFuel => RLFuel
  | _ => RLStuck
  end.

(* -- loopWithError with o.initFileNames = names, the files' contents [fs], select choices [ins] -- *)
Inductive loop_result :=
| LBlocked (obj : rstate) (out : list (list str)) (names : list name) (closed : nat) (chan : list dmsg)
      (* all choices consumed; the loop waits in its select in this state *)
| LReturned (out : list (list str)) (e : derr)
| LFuel
| LStuck.

Definition run_loop (methods : list (string * dmeth)) (rl rfl rd p : dfunc) (plen : pval -> nat)
    (fs : name -> str) (names : list name) (ins : list choice) : loop_result :=
  match exec_block methods (fun _ => ErrNil) (fun _ => false) (fenv_ok []) plen
          nothing1
          (fun a => as_call (run_readfile_under (fenv_ok (fs a)) rl rfl a))
          (fun st e file => read_as_call (run_read methods rl rd st file e))
          (S (List.length ins)) (f_body p)
          (set_in (set_names (set_env st0 (bind_params (f_params p) None None)) names) ins) with
  | OBlocked st => LBlocked (d_obj st) (d_out st) (d_names st) (d_closed st) (d_chan st)
  | OReturn st None e => LReturned (d_out st) e
  | OFuel => LFuel
  | _ => LStuck
  end.
