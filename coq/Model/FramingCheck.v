(* Correspondence check for pipe framing (C12): compact observation format written by
   harness/pipes and its comparison with the model, evaluated by vm_compute.

   Compactness (Coq elaborates literals at about 20 KB/s).  Byte strings are written
   run-length encoded: [L (hx "..")] is a literal piece, [R n c] is n copies of the byte with
   code c.  The encoder in the harness is a plain RLE of whatever bytes it is given (the
   generated stream, the bytes the callback observed), so the encoding is lossless for every
   input; it is small because the generator builds long records from long runs.  The writer's
   partition into write calls is given as (size, count) pairs over the stream instead of
   repeating the bytes; the observed records are given as the RLE of their concatenation plus
   the list of their lengths.  Everything is EXPANDED to plain byte lists before the model
   runs and before the comparison, so the comparison is on the bytes themselves: no hashes, no
   canonical forms.  If the lengths do not add up to the observed bytes, [chop] yields an extra
   (or shorter) record and the case mismatches. *)
From Coq Require Import Ascii String List Bool Arith NArith Lia.
Import ListNotations.
From AM Require Import Lib.Bytes Model.Framing Proofs.FramingLemmas.

Inductive seg := L (s : str) | R (n c : N).
Definition enc := list seg.

Fixpoint expand (e : enc) : str :=
  match e with
  | [] => []
  | L s :: r => s ++ expand r
  | R n c :: r => repeat (ascii_of_N c) (N.to_nat n) ++ expand r
  end.

Definition expand_sizes (sz : list (N * N)) : list nat :=
  concat (map (fun p => repeat (N.to_nat (fst p)) (N.to_nat (snd p))) sz).

(* cut s into pieces of the given sizes; what is left over is one more piece *)
Fixpoint chop (sizes : list nat) (s : str) : list str :=
  match sizes with
  | [] => match s with [] => [] | _ :: _ => [s] end
  | n :: r => firstn n s :: chop r (skipn n s)
  end.

Inductive oret :=
| OCb (k : nat)     (* Ingest returned the very error value the callback returned at its k-th call *)
| OEof              (* Ingest returned io.EOF *)
| OOther.           (* nil or any other error *)

Inductive fcase :=
| FCase (stream : enc) (writes : list (N * N)) (delim : N) (fail : option nat)
        (obs : enc) (lens : list N) (r : oret).

Definition cb_of (fail : option nat) : callback :=
  match fail with Some k => fail_at k | None => never_fail end.

Definition ret_matches (m : ret) (o : oret) : bool :=
  match m, o with
  | RetCallbackErr k, OCb k' => Nat.eqb k k'
  | RetEOF, OEof => true
  | _, _ => false
  end.

Fixpoint all2 {A B} (f : A -> B -> bool) (a : list A) (b : list B) : bool :=
  match a, b with
  | [], [] => true
  | x :: r, y :: r' => f x y && all2 f r r'
  | _, _ => false
  end.

(* records are compared modulo exactly one trailing delimiter: the property is about framing,
   not about whether the delimiter is handed to the callback *)
Definition rec_matches (d : ascii) (m o : str) : bool := seqb (strip1 d m) (strip1 d o).

(* The model outcome for a case.  [read_string] rescans its buffer after every chunk, as a
   specification should, which costs (number of chunks) x (record length) steps: for a 600 KB
   stream written 7 bytes at a time that is too slow to evaluate.  Such cases are evaluated by
   the linear form [deliver cb 0 (records d stream)], which is PROVED equal to the chunked run
   ([model_of_chunked] below, from Proofs/FramingLemmas.ingest_records), so that every case is
   compared with [ingest] on the writer's own partition. *)
Definition model_chunked (stream : str) (sizes : list nat) (d : ascii) (cb : callback) : list str * ret :=
  ingest (chop sizes stream) d cb.

Definition model_linear (stream : str) (d : ascii) (cb : callback) : list str * ret :=
  deliver cb 0 (records d stream).

Definition cheap (nchunks len : nat) : bool := (N.of_nat nchunks * N.of_nat len <=? 20000000)%N.

Definition model_of (c : fcase) : list str * ret :=
  let '(FCase stream writes delim fail _ _ _) := c in
  let s := expand stream in
  let sizes := expand_sizes writes in
  if cheap (length sizes) (length s)
  then model_chunked s sizes (ascii_of_N delim) (cb_of fail)
  else model_linear s (ascii_of_N delim) (cb_of fail).

Definition case_ok (c : fcase) : bool :=
  let '(FCase stream writes delim fail obs lens r) := c in
  let d := ascii_of_N delim in
  let (mrecs, mret) := model_of c in
  let orecs := chop (map N.to_nat lens) (expand obs) in
  all2 (rec_matches d) mrecs orecs && ret_matches mret r.

Fixpoint mism_from {A} (f : A -> bool) (i : nat) (cs : list A) : list nat :=
  match cs with
  | [] => []
  | c :: r => if f c then mism_from f (S i) r else i :: mism_from f (S i) r
  end.

Definition mismatches (cs : list fcase) : list nat := mism_from case_ok 0 cs.

(* The chunks handed to the model are a partition of the stream, whatever the sizes say. *)
Lemma chop_concat : forall sizes s, concat (chop sizes s) = s.
Proof.
  induction sizes as [|n r IH]; intros s.
  - destruct s; cbn; [reflexivity|rewrite app_nil_r; reflexivity].
  - cbn [chop concat]. rewrite IH. apply firstn_skipn.
Qed.

Lemma model_linear_chunked : forall stream sizes d cb,
  model_linear stream d cb = model_chunked stream sizes d cb.
Proof.
  intros stream sizes d cb. unfold model_linear, model_chunked.
  rewrite ingest_records, chop_concat. reflexivity.
Qed.

(* whichever way it is evaluated, the model outcome of a case is the Ingest loop run on the
   writer's partition of the stream *)
Lemma model_of_chunked : forall stream writes delim fail obs lens r,
  model_of (FCase stream writes delim fail obs lens r) =
  ingest (chop (expand_sizes writes) (expand stream)) (ascii_of_N delim) (cb_of fail).
Proof.
  intros. unfold model_of. destruct (cheap _ _); [reflexivity|apply model_linear_chunked].
Qed.
