(* Model of the rendering of a UserAction from (stored login, coalesced audit event):
   processors/auditd/sessiontracker/sessiontracker.go, [user.toAuditEvent], as called from
   [auditEventWithSession], [auditEventWithoutSession] and [writeAndClearCache].
   Definitions only; proofs are in Proofs/ToEventLemmas.v.

   Abstractions (each is checked by harness/render against the real code, see DESIGN.md):
   - [cevent] is the part of aucoalesce.Event that toAuditEvent reads: Timestamp, Session,
     Result, Summary.Action, Summary.How, Summary.Object (Type/Primary/Secondary) and
     Process.Args.  How go-libaudit computes these from the record group (ParseLogLine,
     Reassembler, CoalesceMessages, ResolveIDs) is NOT modelled: the library is the oracle
     for the summary, the model starts at its output;
   - a time is the integer number of nanoseconds since the Unix epoch (an instant; the zone
     a time.Time carries is not observable in the rendered instant);
   - the identity content of a login is what toAuditEvent copies from
     RemoteUserLogin.Source: Subjects, Source (Type, Value, Extra) and Target.  Go maps are
     association lists sorted by key (the order encoding/json writes them in); the values of
     Source.Extra are strings;
   - JSON "omitempty": an empty object field, empty Source.Extra and empty Target are the
     same as absent ones; Metadata.Extra["process_args"] is a real option: the key is
     absent or holds a non-empty list;
   - auditevent.NewAuditEvent also draws a random AuditID and reads the clock for LoggedAt;
     both are overwritten by toAuditEvent before the event is returned, so neither is
     observable and neither is modelled. *)
From Coq Require Import Ascii String List Bool ZArith.
Import ListNotations.
From AM Require Import Lib.Bytes.

(* what toAuditEvent copies from o.login.Source *)
Record login_ident := {
  li_subjects : list (str * str);     (* Source.Subjects *)
  li_src_type : str;                  (* Source.Source.Type *)
  li_src_value : str;                 (* Source.Source.Value *)
  li_src_extra : list (str * str);    (* Source.Source.Extra *)
  li_target : list (str * str)        (* Source.Target *)
}.

(* aucoalesce.Object *)
Record cobject := { ob_type : str; ob_primary : str; ob_secondary : str }.

(* the fields of aucoalesce.Event read by toAuditEvent *)
Record cevent := {
  ce_time : Z;            (* Timestamp *)
  ce_session : str;       (* Session *)
  ce_result : str;        (* Result *)
  ce_action : str;        (* Summary.Action *)
  ce_how : str;           (* Summary.How *)
  ce_object : cobject;    (* Summary.Object *)
  ce_args : list str      (* Process.Args *)
}.

(* the observable auditevent.AuditEvent *)
Record uaction := {
  ua_type : str;                      (* type *)
  ua_component : str;                 (* component *)
  ua_logged_at : Z;                   (* loggedAt *)
  ua_audit_id : str;                  (* metadata.auditId *)
  ua_outcome : str;                   (* outcome *)
  ua_action : str;                    (* metadata.extra.action *)
  ua_how : str;                       (* metadata.extra.how *)
  ua_object : cobject;                (* metadata.extra.object *)
  ua_args : option (list str);        (* metadata.extra.process_args *)
  ua_ident : login_ident              (* subjects, source, target *)
}.

Definition action_user_action : str := s2l "UserAction".   (* common.ActionUserAction *)
Definition component_auditd : str := s2l "auditd".
Definition outcome_succeeded : str := s2l "succeeded".     (* auditevent.OutcomeSucceeded *)
Definition outcome_failed : str := s2l "failed".           (* auditevent.OutcomeFailed *)
Definition result_success : str := s2l "success".

(* switch ae.Result { case "success": succeeded; case "fail": no-op }  with default failed *)
Definition outcome_of (result : str) : str :=
  if seqb result result_success then outcome_succeeded else outcome_failed.

(* if len(ae.Process.Args) > 0 { Extra["process_args"] = ae.Process.Args } *)
Definition args_of (args : list str) : option (list str) :=
  match args with [] => None | _ :: _ => Some args end.

Definition to_event (l : login_ident) (e : cevent) : uaction :=
  {| ua_type := action_user_action;
     ua_component := component_auditd;
     ua_logged_at := ce_time e;
     ua_audit_id := ce_session e;
     ua_outcome := outcome_of (ce_result e);
     ua_action := ce_action e;
     ua_how := ce_how e;
     ua_object := ce_object e;
     ua_args := args_of (ce_args e);
     ua_ident := l |}.
