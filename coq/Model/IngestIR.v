(* A small deep-embedded IR for the pipe-ingestion code and its interpreter.  Definitions only.
     ingesters/namedpipe/namedpipeingester.go   NamedPipeIngester.Ingest   (set-up part + the read loop)
     ingesters/auditlog/auditlogingester.go     Ingest (wrapper), Process
     ingesters/syslog/syslogingester.go         Ingest (wrapper), Process
   The programs are GENERATED (Gen/IngestProg.v, by tools/go2v/ingestgen.go); Proofs/IngestIRTie.v proves
   that interpreting the generated loop gives Model/Framing.v's [ingest].

   The reader  r := bufio.NewReader(file)  is the model's reader state (buf, cs) and  r.ReadString(d)  is
   the model's [read_string d buf cs] (the stated contract of the library function).  The callback is the
   model's  nat -> str -> bool  (call index, argument; true = returned nil).
   [None] = the program does something the interpreter gives no meaning to. *)
From Coq Require Import Ascii String List Bool Arith.
Import ListNotations.
From AM Require Import Lib.Bytes Model.Framing.
Open Scope string_scope.
Open Scope list_scope.

(* ---- syntax: the loop --------------------------------------------------------------------- *)

(* the delimiter handed to ReadString *)
Inductive idelim :=
| DParam                    (* Ingest's delim parameter *)
| DConst (b : nat).         (* a byte literal *)

(* string expressions (what is handed to the callback / sent on) *)
Inductive isexp :=
| SVar (x : string)                       (* the variable, unchanged *)
| STrimDelim (e : isexp)                  (* strings.TrimSuffix(e, string(delim)) *)
| STrimLit (suffix : list nat) (e : isexp).   (* strings.TrimSuffix(e, "<bytes>") *)

(* error expressions *)
Inductive ierr :=
| EVar (x : string)         (* the error variable itself, unchanged *)
| ENil
| ECtxErr                   (* ctx.Err() *)
| EWrap (e : ierr).         (* fmt.Errorf(".. %w ..", e) or any other new error made from e *)

Inductive icond :=
| CErrNotNil (x : string)   (* x != nil *)
| CErrIsEOF (x : string)    (* x == io.EOF, errors.Is(x, io.EOF) *)
| CStrNotEmpty (x : string) (* x != "" *)
| CAnd (a b : icond)
| CNot (a : icond).

Inductive itarget :=
| TDefine (x : string)      (* x := callback(..) *)
| TAssign (x : string)      (* x = callback(..) *)
| TDiscard.                 (* callback(..) / _ = callback(..) *)

Inductive istmt :=
| IReadString (line err : string) (d : idelim)   (* line, err := r.ReadString(d); r the bufio.Reader on the opened file *)
| ICallback (t : itarget) (arg : isexp)          (* t callback(ctx, arg) *)
| IIf (c : icond) (th el : list istmt)
| ILog (method : string)                         (* n.Logger.<method>(...): arguments without effect *)
| IReturn (e : ierr).

(* ---- syntax: the set-up part of Ingest, in source order -------------------------------------- *)

Inductive sarm :=
| SArmDone (ret : ierr)     (* case <-ctx.Done(): return ret *)
| SArmRecv (ch : string).   (* case <-ch:  (falls out of the select) *)

Inductive sstmt :=
| SDeclVar (x : string)                      (* var x T *)
| SMakeChan (x : string) (cap : nat)         (* x := make(chan struct{}, cap) *)
| SOnReady (component : string)              (* n.Health.OnReady(<constant, resolved>) *)
| SGoOpen (file err : string) (flags : list string) (perm : string) (signal : string)
     (* go func() { file, err = os.OpenFile(filePath, os.<flags>|.., os.<perm>); close(signal) }() *)
| SSelect (arms : list sarm)
| SIfErrReturn (x : string) (ret : ierr)     (* if x != nil { return ret } *)
| SGoCloseOnCancel (file : string)           (* go func() { <-ctx.Done(); file.Close() }() *)
| SLog (method : string)
| SDeferClose (file : string)                (* defer file.Close() *)
| SNewReader (r file : string).              (* r := bufio.NewReader(file) *)

Record iprog := {
  ip_setup : list sstmt;
  ip_loop : list istmt       (* for { ip_loop }  is the last statement of Ingest *)
}.

(* ---- syntax: the wrappers and the callbacks ---------------------------------------------------- *)

(* func (a *T) Ingest(ctx) error { return a.<np>.Ingest(ctx, a.<path>, <delim>, a.<callback>) } *)
Record iwrapper := {
  wr_ingester : string;      (* the field holding the namedpipe.NamedPipeIngester *)
  wr_path : string;          (* the receiver's field passed as filePath *)
  wr_delim : nat;            (* the byte passed as delim *)
  wr_callback : string       (* the receiver's own method passed as callback *)
}.

Inductive parm :=
| PArmDone (ret : ierr)                         (* case <-ctx.Done(): return ret *)
| PArmSend (ch : string) (what : isexp) (ret : ierr).   (* case a.<ch> <- what: return ret *)

Inductive pbody :=
| PSelect (arms : list parm)                    (* select { arms } *)
| PSend (ch : string) (what : isexp) (ret : ierr)   (* a.<ch> <- what; return ret   (blocks, not cancellable) *)
| PParseAndProcess (parse : string) (arg : isexp) (processor process : string).
     (* sm := s.<parse>(arg); return s.<processor>.<process>(ctx, sm)   (that call's error, unchanged) *)

Record iprocess := {
  pr_line : string;          (* name of the string parameter *)
  pr_body : pbody
}.

(* ---- interpreter: the loop -------------------------------------------------------------------- *)

Inductive errval :=
| VNil
| VEOF                       (* the error ReadString returned at end of stream *)
| VCb (k : nat)              (* the error the k-th callback call returned *)
| VCtx                       (* ctx.Err() *)
| VWrapped (e : errval).     (* a new error made from e *)

Record lst := {
  l_buf : str; l_cs : list str;          (* the reader *)
  l_k : nat;                             (* callback calls so far *)
  l_delivered : list str;                (* their arguments, in order *)
  l_strs : list (string * str);          (* string variables of the loop body *)
  l_errs : list (string * errval)        (* error variables of the loop body *)
}.

Fixpoint get {A} (x : string) (l : list (string * A)) : option A :=
  match l with
  | [] => None
  | (y, v) :: r => if String.eqb y x then Some v else get x r
  end.

Fixpoint set {A} (x : string) (v : A) (l : list (string * A)) : option (list (string * A)) :=
  match l with
  | [] => None
  | (y, w) :: r => if String.eqb y x then Some ((y, v) :: r)
                   else match set x v r with Some r' => Some ((y, w) :: r') | None => None end
  end.

Definition declare {A} (x : string) (v : A) (l : list (string * A)) : option (list (string * A)) :=
  match get x l with Some _ => None | None => Some (l ++ [(x, v)]) end.

(* strings.TrimSuffix *)
Definition trim_suffix (suf s : str) : str :=
  match strip_prefix (rev suf) (rev s) with
  | Some r => rev r
  | None => s
  end.

Section Loop.
  Variable d : ascii.                    (* Ingest's delim argument *)
  Variable cb : callback.                (* Ingest's callback argument *)

  Definition delim_of (x : idelim) : ascii :=
    match x with DParam => d | DConst n => ascii_of_nat n end.

  Fixpoint seval (st : lst) (e : isexp) : option str :=
    match e with
    | SVar x => get x (l_strs st)
    | STrimDelim e' => match seval st e' with Some s => Some (trim_suffix [d] s) | None => None end
    | STrimLit suf e' =>
        match seval st e' with Some s => Some (trim_suffix (map ascii_of_nat suf) s) | None => None end
    end.

  Fixpoint eeval (st : lst) (e : ierr) : option errval :=
    match e with
    | EVar x => get x (l_errs st)
    | ENil => Some VNil
    | ECtxErr => Some VCtx
    | EWrap e' => match eeval st e' with Some v => Some (VWrapped v) | None => None end
    end.

  Fixpoint ceval (st : lst) (c : icond) : option bool :=
    match c with
    | CErrNotNil x => match get x (l_errs st) with
                      | Some VNil => Some false | Some _ => Some true | None => None end
    | CErrIsEOF x => match get x (l_errs st) with
                     | Some VEOF => Some true | Some (VWrapped _) => None | Some _ => Some false | None => None end
    | CStrNotEmpty x => match get x (l_strs st) with
                        | Some [] => Some false | Some _ => Some true | None => None end
    | CAnd a b => match ceval st a, ceval st b with
                  | Some x, Some y => Some (x && y) | _, _ => None end
    | CNot a => match ceval st a with Some x => Some (negb x) | None => None end
    end.

  Definition lres := option (lst * option errval).   (* Some (st, Some e): returned e *)

  Fixpoint run_istmt (c : istmt) (st : lst) {struct c} : lres :=
    match c with
    | IReadString line err dl =>
        let '(l, e, buf', cs') :=
          match read_string (delim_of dl) (l_buf st) (l_cs st) with
          | RdLine l rest cs' => (l, VNil, rest, cs')
          | RdEOF rem => (rem, VEOF, [], [])
          end in
        match declare line l (l_strs st), declare err e (l_errs st) with
        | Some ss, Some es =>
            Some ({| l_buf := buf'; l_cs := cs'; l_k := l_k st; l_delivered := l_delivered st;
                     l_strs := ss; l_errs := es |}, None)
        | _, _ => None
        end
    | ICallback t arg =>
        match seval st arg with
        | Some s =>
            let v := if cb (l_k st) s then VNil else VCb (l_k st) in
            let es := match t with
                      | TDefine x => declare x v (l_errs st)
                      | TAssign x => set x v (l_errs st)
                      | TDiscard => Some (l_errs st)
                      end in
            match es with
            | Some es' =>
                Some ({| l_buf := l_buf st; l_cs := l_cs st; l_k := S (l_k st);
                         l_delivered := l_delivered st ++ [s]; l_strs := l_strs st; l_errs := es' |}, None)
            | None => None
            end
        | None => None
        end
    | IIf c' th el =>
        match ceval st c' with
        | Some b =>
            (fix run_block (l : list istmt) (st : lst) {struct l} : lres :=
               match l with
               | [] => Some (st, None)
               | c1 :: r =>
                   match run_istmt c1 st with
                   | Some (st1, None) => run_block r st1
                   | other => other
                   end
               end) (if b then th else el) st
        | None => None
        end
    | ILog _ => Some (st, None)
    | IReturn e =>
        match eeval st e with Some v => Some (st, Some v) | None => None end
    end.

  Fixpoint run_iblock (l : list istmt) (st : lst) : lres :=
    match l with
    | [] => Some (st, None)
    | c1 :: r =>
        match run_istmt c1 st with
        | Some (st1, None) => run_iblock r st1
        | other => other
        end
    end.

  (* for { body }: every iteration starts with the body's variables out of scope.
     Some (delivered, None): out of fuel *)
  Fixpoint run_loop (fuel : nat) (body : list istmt) (st : lst) : option (list str * option errval) :=
    match fuel with
    | 0 => Some (l_delivered st, None)
    | S f =>
        match run_iblock body {| l_buf := l_buf st; l_cs := l_cs st; l_k := l_k st;
                                 l_delivered := l_delivered st; l_strs := []; l_errs := [] |} with
        | Some (st', Some e) => Some (l_delivered st', Some e)
        | Some (st', None) => run_loop f body st'
        | None => None
        end
    end.
End Loop.

(* what Ingest returns, in the interpreter's terms *)
Definition run_ingest_raw (p : iprog) (cs : list str) (d : ascii) (cb : callback)
  : option (list str * option errval) :=
  run_loop d cb (S (length (concat cs))) (ip_loop p)
    {| l_buf := []; l_cs := cs; l_k := 0; l_delivered := []; l_strs := []; l_errs := [] |}.

(* ... and in the model's: only the reader's own error and a callback's own error have a counterpart *)
Definition ret_of (e : option errval) : option ret :=
  match e with
  | None => Some RetOutOfFuel
  | Some VEOF => Some RetEOF
  | Some (VCb k) => Some (RetCallbackErr k)
  | Some _ => None
  end.

Definition run_ingest (p : iprog) (cs : list str) (d : ascii) (cb : callback) : option (list str * ret) :=
  match run_ingest_raw p cs d cb with
  | Some (l, e) => match ret_of e with Some r => Some (l, r) | None => None end
  | None => None
  end.

(* ---- facts about the set-up part ------------------------------------------------------------------ *)

Definition is_done_arm (a : sarm) : bool :=
  match a with SArmDone ECtxErr => true | _ => false end.

(* the worker never blocks in the open: it is done in a goroutine that signals [ch], and the select
   that waits for [ch] has a ctx.Done arm returning ctx.Err() *)
Fixpoint open_is_cancellable (s : list sstmt) : bool :=
  match s with
  | [] => false
  | SGoOpen _ _ _ _ ch :: r =>
      (fix wait (r : list sstmt) : bool :=
         match r with
         | SSelect arms :: _ =>
             existsb is_done_arm arms &&
             existsb (fun a => match a with SArmRecv c => String.eqb c ch | _ => false end) arms
         | SLog _ :: r' => wait r'
         | _ => false
         end) r
  | _ :: r => open_is_cancellable r
  end.

(* position of the first statement satisfying f *)
Fixpoint index_of (f : sstmt -> bool) (s : list sstmt) : option nat :=
  match s with
  | [] => None
  | x :: r => if f x then Some 0 else match index_of f r with Some n => Some (S n) | None => None end
  end.

Definition is_closer (x : sstmt) := match x with SGoCloseOnCancel _ => true | _ => false end.
Definition is_reader (x : sstmt) := match x with SNewReader _ _ => true | _ => false end.
Definition is_errcheck (x : sstmt) := match x with SIfErrReturn _ (EVar _) => true | _ => false end.
Definition is_onready (x : sstmt) := match x with SOnReady _ => true | _ => false end.
Definition is_open (x : sstmt) := match x with SGoOpen _ _ _ _ _ => true | _ => false end.
Definition is_defer_close (x : sstmt) := match x with SDeferClose _ => true | _ => false end.

(* a blocked ReadString is woken on cancellation: after the open error check and before the reader is
   made, a goroutine is started that closes the file once ctx is done *)
Definition read_is_cancellable (s : list sstmt) : bool :=
  match index_of is_errcheck s, index_of is_closer s, index_of is_reader s with
  | Some a, Some b, Some c => Nat.ltb a b && Nat.ltb b c
  | _, _, _ => false
  end.
