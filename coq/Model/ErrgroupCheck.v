(* Correspondence check for the errgroup machine (C08, C13): observation format written by harness/errgroup
   and its comparison with Model/Errgroup.v, evaluated by vm_compute.

   A case is a script (per worker: does f wait for ctx.Done() first; what does it return), a list of harness
   operations, and what the harness observed on the REAL golang.org/x/sync/errgroup after each operation:
     ORel i   the gate of worker i is opened (f_i may return; a waiting f_i returns once the group context is done)
     OPar     the parent context is cancelled (with the cause numbered 1)
     OWait    Wait() is called (in a goroutine of its own)
   The harness starts all n goroutines first (Go f_0 .. Go f_(n-1)) and, after every operation, waits until the
   process is quiescent (every goroutine that can finish has finished: counted through runtime.NumGoroutine).
   Observation after each operation: number of finished group goroutines, Wait's result if it has returned,
   the cause of the group context if it is done.

   Error numbering (fixed by the harness): 0 = context.Canceled, 1 = the parent's cause, >= 2 = the workers'
   error values.  ctx.Err() of a cancelled group context is context.Canceled, so a waiting worker's result is
   Some 0.

   The model's schedule for such a forced-sequential case: the caller's 2n steps; after each operation the
   released goroutines in release order, each run as far as it can (TF i, then TG i x 5), then the caller as far
   as it can if Wait was called (TC x 3); that pass three times (a later goroutine may cancel the context an earlier
   released one waits for). *)
From Coq Require Import List Bool Arith.
Import ListNotations.
From AM Require Import Model.Errgroup.

Inductive op := ORel (i : nat) | OPar | OWait.

Inductive eobs := EObs (finished : nat) (wait : option (option nat)) (ctx : option nat).

Inductive ecase := ECase (sc : list (bool * option nat)) (ops : list op) (obs : list eobs).

Definition script_of (l : list (bool * option nat)) : script := map (fun p => mkW (fst p) (snd p)) l.

Definition cause_code (c : cause) : nat := match c with CErr e => e | CNil => 0 | CParent => 1 end.

Definition finished (n : nat) (s : st) : nat := length (filter (fun i => is_exit (s_g s i)) (seq 0 n)).

Definition observe (n : nat) (s : st) : eobs :=
  EObs (finished n s) (wait_result s) (option_map cause_code (s_ctx s)).

Definition pass (released : list nat) (waiting : bool) : list tid :=
  concat (map (fun i => TF i :: repeat (TG i) 5) released) ++ (if waiting then [TC; TC; TC] else []).

Definition settle (released : list nat) (waiting : bool) : list tid :=
  pass released waiting ++ pass released waiting ++ pass released waiting.

(* the model's observations; the schedule it ran is returned too (newest first) for the record *)
Fixpoint model_ops (sc : script) (c : cfg) (released : list nat) (waiting : bool) (ops : list op) : list eobs :=
  match ops with
  | [] => []
  | o :: r =>
      let '(c1, rel1, w1) :=
        match o with
        | ORel i => (c, released ++ [i], waiting)
        | OPar => (step sc c TX, released, waiting)
        | OWait => (c, released, true)
        end in
      let c2 := run sc c1 (settle rel1 w1) in
      observe (length sc) (fst c2) :: model_ops sc c2 rel1 w1 r
  end.

Definition model_obs (scl : list (bool * option nat)) (ops : list op) : list eobs :=
  let sc := script_of scl in
  model_ops sc (run sc (init sc, []) (repeat TC (2 * length sc))) [] false ops.

Definition opt_eqb {A} (f : A -> A -> bool) (a b : option A) : bool :=
  match a, b with
  | None, None => true
  | Some x, Some y => f x y
  | _, _ => false
  end.

Definition eobs_eqb (a b : eobs) : bool :=
  let '(EObs f1 w1 c1) := a in
  let '(EObs f2 w2 c2) := b in
  Nat.eqb f1 f2 && opt_eqb (opt_eqb Nat.eqb) w1 w2 && opt_eqb Nat.eqb c1 c2.

Fixpoint all2 {A B} (f : A -> B -> bool) (a : list A) (b : list B) : bool :=
  match a, b with
  | [], [] => true
  | x :: r, y :: r' => f x y && all2 f r r'
  | _, _ => false
  end.

Definition case_ok (c : ecase) : bool :=
  let '(ECase scl ops obs) := c in all2 eobs_eqb (model_obs scl ops) obs.

Fixpoint mism_from {A} (f : A -> bool) (i : nat) (cs : list A) : list nat :=
  match cs with
  | [] => []
  | c :: r => if f c then mism_from f (S i) r else i :: mism_from f (S i) r
  end.

Definition mismatches (cs : list ecase) : list nat := mism_from case_ok 0 cs.
