(* Model of processors/sshd: ProcessEntry's dispatch (GENERATED table, Gen/SshdDispatch.v),
   the regular expressions (GENERATED, Gen/SshdRegexes.v) and the hand-modelled handlers:
   which capture feeds which event field, placeholders, metric increments inside handlers,
   the write and the hand-off of accepted logins.  Definitions only. *)
From Coq Require Import Ascii String List Bool Arith ZArith NArith Lia.
Import ListNotations.
From AM Require Import Lib.Bytes Lib.Regex Gen.SshdRegexes Gen.SshdDispatch.
Open Scope string_scope.
Open Scope nat_scope.

(* ---------- strconv.Atoi ---------- *)
Definition is_digit (c : ascii) : bool := let n := N_of_ascii c in (48 <=? n)%N && (n <=? 57)%N.

Fixpoint digits_val (acc : Z) (s : str) : option Z :=
  match s with
  | [] => Some acc
  | c :: r => if is_digit c then digits_val (acc * 10 + (Z.of_N (N_of_ascii c) - 48)) r else None
  end.

Definition int64_max : Z := 9223372036854775807.

(* optional sign, at least one digit, digits only, int64 range *)
Definition atoi (s : str) : option Z :=
  let '(neg, body) :=
    match s with
    | c :: r => if Ascii.eqb c "-" then (true, r) else if Ascii.eqb c "+" then (false, r) else (false, s)
    | [] => (false, [])
    end in
  match body with
  | [] => None
  | _ => match digits_val 0 body with
         | Some v => if neg then (if (v <=? int64_max + 1)%Z then Some (- v)%Z else None)
                     else (if (v <=? int64_max)%Z then Some v else None)
         | None => None
         end
  end.

(* ---------- events ---------- *)
Record event := {
  ev_ok : bool;                    (* outcome succeeded *)
  ev_src : str;                    (* source.value (type is always "IP") *)
  ev_port : option str;            (* source.extra.port *)
  ev_dns : option str;             (* source.extra.dns *)
  ev_logged_as : str;              (* subjects.loggedAs *)
  ev_user_id : str;                (* subjects.userID *)
  ev_pid : str;                    (* subjects.pid *)
  ev_file_path : option str;
  ev_key_type : option str;
  ev_fingerprint : option str;
  ev_shell : option str;           (* metadata.extra.shell *)
  ev_data : list (string * str);   (* data (a JSON object of strings), in key order *)
  ev_host : str;                   (* target.host *)
  ev_mid : str                     (* target.machine-id *)
}.

Record cfg := { c_node : str; c_mid : str }.

Record fwd := { f_pid : Z; f_cred : str; f_src : event }.

Inductive ret := RetOk | RetWriteErr | RetPanic.

Record result := {
  r_writes : list event;       (* events handed to the writer (the last one failed iff r_ret = RetWriteErr) *)
  r_forwards : list fwd;       (* logins handed to the correlator, always after the write *)
  r_metrics : list mlabel;     (* counter increments, in order *)
  r_ret : ret
}.

Definition unknown : str := s2l "unknown".

Definition base_event (c : cfg) (tok : str) (ok : bool) (src : str) (logged_as : str) : event :=
  {| ev_ok := ok; ev_src := src; ev_port := None; ev_dns := None; ev_logged_as := logged_as;
     ev_user_id := unknown; ev_pid := tok; ev_file_path := None; ev_key_type := None;
     ev_fingerprint := None; ev_shell := None; ev_data := []; ev_host := c_node c; ev_mid := c_mid c |}.

Definition with_port (e : event) (p : str) : event :=
  {| ev_ok := ev_ok e; ev_src := ev_src e; ev_port := Some p; ev_dns := ev_dns e; ev_logged_as := ev_logged_as e;
     ev_user_id := ev_user_id e; ev_pid := ev_pid e; ev_file_path := ev_file_path e; ev_key_type := ev_key_type e;
     ev_fingerprint := ev_fingerprint e; ev_shell := ev_shell e; ev_data := ev_data e; ev_host := ev_host e; ev_mid := ev_mid e |}.

Definition with_dns (e : event) (d : str) : event :=
  {| ev_ok := ev_ok e; ev_src := ev_src e; ev_port := ev_port e; ev_dns := Some d; ev_logged_as := ev_logged_as e;
     ev_user_id := ev_user_id e; ev_pid := ev_pid e; ev_file_path := ev_file_path e; ev_key_type := ev_key_type e;
     ev_fingerprint := ev_fingerprint e; ev_shell := ev_shell e; ev_data := ev_data e; ev_host := ev_host e; ev_mid := ev_mid e |}.

Definition with_user_id (e : event) (u : str) : event :=
  {| ev_ok := ev_ok e; ev_src := ev_src e; ev_port := ev_port e; ev_dns := ev_dns e; ev_logged_as := ev_logged_as e;
     ev_user_id := u; ev_pid := ev_pid e; ev_file_path := ev_file_path e; ev_key_type := ev_key_type e;
     ev_fingerprint := ev_fingerprint e; ev_shell := ev_shell e; ev_data := ev_data e; ev_host := ev_host e; ev_mid := ev_mid e |}.

Definition with_data (e : event) (d : list (string * str)) : event :=
  {| ev_ok := ev_ok e; ev_src := ev_src e; ev_port := ev_port e; ev_dns := ev_dns e; ev_logged_as := ev_logged_as e;
     ev_user_id := ev_user_id e; ev_pid := ev_pid e; ev_file_path := ev_file_path e; ev_key_type := ev_key_type e;
     ev_fingerprint := ev_fingerprint e; ev_shell := ev_shell e; ev_data := d; ev_host := ev_host e; ev_mid := ev_mid e |}.

Definition with_shell (e : event) (s : str) : event :=
  {| ev_ok := ev_ok e; ev_src := ev_src e; ev_port := ev_port e; ev_dns := ev_dns e; ev_logged_as := ev_logged_as e;
     ev_user_id := ev_user_id e; ev_pid := ev_pid e; ev_file_path := ev_file_path e; ev_key_type := ev_key_type e;
     ev_fingerprint := ev_fingerprint e; ev_shell := Some s; ev_data := ev_data e; ev_host := ev_host e; ev_mid := ev_mid e |}.

Definition with_file (e : event) (f : str) : event :=
  {| ev_ok := ev_ok e; ev_src := ev_src e; ev_port := ev_port e; ev_dns := ev_dns e; ev_logged_as := ev_logged_as e;
     ev_user_id := ev_user_id e; ev_pid := ev_pid e; ev_file_path := Some f; ev_key_type := ev_key_type e;
     ev_fingerprint := ev_fingerprint e; ev_shell := ev_shell e; ev_data := ev_data e; ev_host := ev_host e; ev_mid := ev_mid e |}.

Definition with_key (e : event) (kt fp : str) : event :=
  {| ev_ok := ev_ok e; ev_src := ev_src e; ev_port := ev_port e; ev_dns := ev_dns e; ev_logged_as := ev_logged_as e;
     ev_user_id := ev_user_id e; ev_pid := ev_pid e; ev_file_path := ev_file_path e; ev_key_type := Some kt;
     ev_fingerprint := Some fp; ev_shell := ev_shell e; ev_data := ev_data e; ev_host := ev_host e; ev_mid := ev_mid e |}.

(* ---------- effects ---------- *)
Definition nothing : result := {| r_writes := []; r_forwards := []; r_metrics := []; r_ret := RetOk |}.

(* eventW.Write(evt); on success nothing else *)
Definition write_only (wok : bool) (ms : list mlabel) (e : event) : result :=
  {| r_writes := [e]; r_forwards := []; r_metrics := ms; r_ret := if wok then RetOk else RetWriteErr |}.

(* eventW.Write(evt); then select { <-ctx.Done(): return nil | logins <- login: return nil }
   [ready] = the correlator takes the login (otherwise the context is cancelled first). *)
Definition write_forward (wok ready : bool) (ms : list mlabel) (e : event) (pid : Z) (cred : str) : result :=
  if wok then
    {| r_writes := [e]; r_forwards := if ready then [{| f_pid := pid; f_cred := cred; f_src := e |}] else [];
       r_metrics := ms; r_ret := RetOk |}
  else {| r_writes := [e]; r_forwards := []; r_metrics := ms; r_ret := RetWriteErr |}.

(* ---------- handlers ---------- *)
Definition L_key_success : mlabel := ("SSHKeyLogin", "Success").
Definition L_cert_success : mlabel := ("SSHCertLogin", "Success").
Definition L_cert_failure : mlabel := ("SSHCertLogin", "Failure").
Definition L_unknown_failure : mlabel := ("UnknownLogin", "Failure").

Definition cert_prefix_len : nat := 21.   (* len("Certificate invalid: ") *)

Definition h_accept_publickey (c : cfg) (tok line : str) (wok ready : bool) : result :=
  match find loginRE line with
  | None => nothing
  | Some mt =>
      match atoi tok with
      | None => nothing
      | Some pid =>
          let e0 := with_port (base_event c tok true (cap loginRE_Source mt) (cap loginRE_Username mt))
                              (cap loginRE_Port mt) in
          let alg := cap loginRE_Alg mt in
          let ks := cap loginRE_SSHKeySum mt in
          let mlen := m_end mt - m_start mt in
          if Nat.eqb (length line) mlen then
            write_forward wok ready [L_key_success] (with_data e0 [("Alg", alg); ("SSHKeySum", ks)]) pid unknown
          else
            (* config.logEntry[len(matches[0])+1:] — a slice expression: out of range would panic *)
            if length line <? mlen + 1 then
              {| r_writes := []; r_forwards := []; r_metrics := []; r_ret := RetPanic |}
            else
              let rest := skipn (mlen + 1) line in
              match find certIDRE rest with
              | None =>
                  write_forward wok ready [L_cert_success] (with_data e0 [("Alg", alg); ("SSHKeySum", ks)]) pid unknown
              | Some im =>
                  let uid := cap certIDRE_UserID im in
                  let e := with_data (with_user_id e0 uid)
                             [("Alg", alg); ("CA", cap certIDRE_CA im); ("SSHKeySum", ks); ("Serial", cap certIDRE_Serial im)] in
                  write_forward wok ready [L_cert_success] e pid uid
              end
      end
  end.

Definition h_accept_password (c : cfg) (tok line : str) (wok ready : bool) : result :=
  match atoi tok with
  | None => nothing
  | Some pid =>
      match find passwordLoginRE line with
      | None => nothing
      | Some mt =>
          let e := with_port (base_event c tok true (cap passwordLoginRE_Source mt) (cap passwordLoginRE_Username mt))
                             (cap passwordLoginRE_Port mt) in
          write_forward wok ready [] e pid unknown
      end
  end.

Definition h_cert_invalid (c : cfg) (tok line : str) (wok : bool) : result :=
  let reason := if length line <=? cert_prefix_len then s2l "unknown reason" else skipn cert_prefix_len line in
  let e := with_data (with_port (base_event c tok false unknown unknown) unknown)
                     [("error", s2l "certificate invalid"); ("reason", reason)] in
  write_only wok [L_cert_failure] e.

Definition h_invalid_user (c : cfg) (tok line : str) (wok : bool) : result :=
  match find invalidUserRE line with
  | None => nothing
  | Some mt =>
      write_only wok [L_unknown_failure]
        (with_port (base_event c tok false (cap invalidUserRE_Source mt) (cap invalidUserRE_Username mt))
                   (cap invalidUserRE_Port mt))
  end.

(* the common shape: re-match, build the event from captures, write *)
Definition h_simple (re : list item) (mk : rmatch -> event) (line : str) (wok : bool) : result :=
  match find re line with
  | None => nothing
  | Some mt => write_only wok [] (mk mt)
  end.

Definition run_handler (h : handler) (c : cfg) (tok line : str) (wok ready : bool) : result :=
  match h with
  | h_processAcceptPublicKeyEntry => h_accept_publickey c tok line wok ready
  | h_processAcceptedPasswordEntry => h_accept_password c tok line wok ready
  | h_processCertificateInvalidEntry => h_cert_invalid c tok line wok
  | h_processInvalidUserEntry => h_invalid_user c tok line wok
  | h_rootLoginRefused =>
      h_simple rootLoginRefusedRE (fun mt =>
        with_port (base_event c tok false (cap rootLoginRefusedRE_Source mt) (s2l "root")) (cap rootLoginRefusedRE_Port mt)) line wok
  | h_badOwnerOrModesForHostFile =>
      h_simple badOwnerOrModesForHostFileRE (fun mt =>
        with_file (base_event c tok false unknown (cap badOwnerOrModesForHostFileRE_Username mt))
                  (cap badOwnerOrModesForHostFileRE_FilePath mt)) line wok
  | h_nastyPTRRecord =>
      h_simple nastyPTRRecordRE (fun mt =>
        with_dns (base_event c tok false (cap nastyPTRRecordRE_Source mt) unknown) (cap nastyPTRRecordRE_DNSName mt)) line wok
  | h_reverseMappingCheckFailed =>
      h_simple reverseMappingCheckFailedRE (fun mt =>
        with_dns (base_event c tok false (cap reverseMappingCheckFailedRE_Source mt) unknown)
                 (cap reverseMappingCheckFailedRE_DNSName mt)) line wok
  | h_doesNotMapBackToAddr =>
      h_simple doesNotMapBackToAddrRE (fun mt =>
        with_dns (base_event c tok false (cap doesNotMapBackToAddrRE_Source mt) unknown)
                 (cap doesNotMapBackToAddrRE_DNSName mt)) line wok
  | h_maxAuthAttemptsExceeded =>
      h_simple maxAuthAttemptsExceededRE (fun mt =>
        with_port (base_event c tok false (cap maxAuthAttemptsExceededRE_Source mt) (cap maxAuthAttemptsExceededRE_Username mt))
                  (cap maxAuthAttemptsExceededRE_Port mt)) line wok
  | h_revokedPublicKeyByFile =>
      h_simple revokedPublicKeyByFileRE (fun mt =>
        with_key (with_file (base_event c tok false unknown unknown) (cap revokedPublicKeyByFileRE_FilePath mt))
                 (cap revokedPublicKeyByFileRE_SSHKeyType mt) (cap revokedPublicKeyByFileRE_SSHKeyFingerprint mt)) line wok
  | h_revokedPublicKeyByFileErr =>
      h_simple revokedPublicKeyByFileErrRE (fun mt =>
        with_key (with_file (base_event c tok false unknown unknown) (cap revokedPublicKeyByFileErrRE_FilePath mt))
                 (cap revokedPublicKeyByFileErrRE_SSHKeyType mt) (cap revokedPublicKeyByFileErrRE_SSHKeyFingerprint mt)) line wok
  | h_failedPasswordAuth =>
      h_simple failedPasswordAuthRE (fun mt =>
        with_port (base_event c tok false (cap failedPasswordAuthRE_Source mt) (cap failedPasswordAuthRE_Username mt))
                  (cap failedPasswordAuthRE_Port mt)) line wok
  | h_processNotInAllowUsersEntry =>
      h_simple notInAllowUsersRE (fun mt =>
        base_event c tok false (cap notInAllowUsersRE_Source mt) (cap notInAllowUsersRE_Username mt)) line wok
  | h_userNonExistentShell =>
      h_simple userNonExistentShellRE (fun mt =>
        with_shell (base_event c tok false unknown (cap userNonExistentShellRE_Username mt))
                   (cap userNonExistentShellRE_Shell mt)) line wok
  | h_userNonExecutableShell =>
      h_simple userNonExecutableShellRE (fun mt =>
        with_shell (base_event c tok false unknown (cap userNonExecutableShellRE_Username mt))
                   (cap userNonExecutableShellRE_Shell mt)) line wok
  | h_userInDenyUsers =>
      h_simple userInDenyUsersRE (fun mt =>
        base_event c tok false (cap userInDenyUsersRE_Source mt) (cap userInDenyUsersRE_Username mt)) line wok
  | h_userNotInAnyGroup =>
      h_simple userNotInAnyGroupRE (fun mt =>
        base_event c tok false (cap userNotInAnyGroupRE_Source mt) (cap userNotInAnyGroupRE_Username mt)) line wok
  | h_userGroupInDenyGroups =>
      h_simple userGroupInDenyGroupsRE (fun mt =>
        base_event c tok false (cap userGroupInDenyGroupsRE_Source mt) (cap userGroupInDenyGroupsRE_Username mt)) line wok
  | h_userGroupNotListedInAllowGroups =>
      h_simple userGroupNotListedInAllowGroupsRE (fun mt =>
        base_event c tok false (cap userGroupNotListedInAllowGroupsRE_Source mt)
                   (cap userGroupNotListedInAllowGroupsRE_Username mt)) line wok
  end.

(* ---------- dispatch ---------- *)
Definition guard_holds (g : guard) (line : str) : bool :=
  match g with
  | GPrefix p => has_prefix (s2l p) line
  | GMatch re => matches re line
  end.

Fixpoint first_user (l : list (list item * handler)) (line : str) : option handler :=
  match l with
  | [] => None
  | (re, h) :: r => if matches re line then Some h else first_user r line
  end.

Definition add_metrics (ms : option mlabel) (r : result) : result :=
  {| r_writes := r_writes r; r_forwards := r_forwards r;
     r_metrics := match ms with Some l => l :: r_metrics r | None => r_metrics r end; r_ret := r_ret r |}.

Fixpoint dispatch_on (d : list (guard * target * option mlabel)) (c : cfg) (tok line : str) (wok ready : bool) : result :=
  match d with
  | [] => nothing
  | (g, t, ms) :: r =>
      if guard_holds g line then
        add_metrics ms
          match t with
          | THandler h => run_handler h c tok line wok ready
          | TUserType => match first_user user_dispatch line with
                         | Some h => run_handler h c tok line wok ready
                         | None => nothing
                         end
          end
      else dispatch_on r c tok line wok ready
  end.

(* ProcessEntry for (pid token, message) *)
Definition process (c : cfg) (tok line : str) (wok ready : bool) : result :=
  dispatch_on dispatch c tok line wok ready.
