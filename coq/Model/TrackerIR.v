(* A small imperative intermediate language for processors/auditd/sessiontracker/sessiontracker.go and its
   interpreter.  tools/go2v/trackergen.go translates the Go source of the four API methods of the
   correlator (RemoteLogin, AuditdEvent, DeleteUsersWithoutLoginsBefore, DeleteRemoteUserLoginsBefore)
   statement by statement into a [stmt] (Gen/TrackerProg.v); Proofs/TrackerIRTie.v proves that interpreting
   these programs is the hand-written model [Model.Tracker.tstep], for all states and operations.

   Definitions only.  The language is a deep embedding: [stmt], [bexp], ... contain no Coq functions.

   What a program can talk about (exactly what the source file uses):
   - the arguments of the call: the login [LArg] (rul), the audit event [EvArg] (event), the time [TArg] (t),
     the value of time.Now() [TNow];
   - local variables (booleans, errors, the integer of strconv.Atoi), by their Go names; a callback (func
     literal) shares the variables of the function it is written in, a called method/helper has its own;
   - ONE current user object (u): bound by the callback of Iterate / WithLockedValueDo on the session map
     (then it is the map's entry: a pointer, changes to it are changes of the entry) or created by
     [SNewUser] (then it is not in the map until [SStoreUser]);
   - one current login value [LCur]: the value a callback on the login map is called with;
   - the key the Iterate callback is called with [KIterKey];
   - the element of a loop over u.cached [EvElem].

   Maps are the association lists of Lib/Assoc.v (aget/aset/adel/ahas with N.eqb / Z.eqb), as in the model.
   The abstractions of the model (Model/Tracker.v, header) are those of the interpreter: logins and events are
   ids, hasRUL/login are one option ([SUserSetLogin] sets both, the generator insists they are set together),
   the session text is SNone/SUnset/SId, the writer succeeds [wb] more times, toAuditEvent of (login, event)
   is the pair, Go's random iteration order in the scan is the [choice] of the call.

   Nothing here uses fuel: every construct is executed by structural recursion.  A program that does something
   the interpreter cannot give a meaning to (unbound variable, no current user, a key of the wrong type,
   event.Session used as a key when it is ""/"unset", toAuditEvent on a user without login, a change of a
   user after it was handed to Store, a return inside the body of a scan) is [Stuck]; [run_prog] then
   returns [None], never a normal-looking result. *)
From Coq Require Import List Bool Arith ZArith NArith String.
Import ListNotations.
From AM Require Import Lib.Assoc Model.Tracker.

Definition var := string.

Inductive mapid := MSessions | MLogins.          (* o.sessIDsToUsers | o.pidsToRULs *)
Inductive auconst := AUDIT_LOGIN | AUDIT_CRED_DISP.   (* the auparse constants the file mentions *)
Inductive sesconst := SesEmpty | SesUnset.       (* "" | "unset" *)
Inductive evref := EvArg | EvElem.               (* event | u.cached[i] resp. the range variable *)
Inductive lexp := LArg | LCur.                   (* rul (argument) | the login the callback was called with *)
Inductive texp := TArg | TNow | TUserAdded | TLoginLoggedAt (l : lexp).
Inductive iexp := IVar (x : var) | IUserSrcPID | ILoginPID (l : lexp).
Inductive kexp := KEvSession | KIterKey | KInt (i : iexp).
Inductive eflag := remoteLoginFail | auditWriteFail | parsePIDFail.   (* fields of SessionTrackerError *)

Inductive bexp :=
| BConst (b : bool)
| BVar (x : var)
| BNot (a : bexp)
| BAnd (a b : bexp)
| BOr (a b : bexp)
| BErrIsNil (x : var)                 (* x == nil, x an error variable *)
| BIntEq (a b : iexp)
| BBefore (a b : texp)                (* a.Before(b) *)
| BUserHasRUL                         (* u.hasRUL *)
| BCachedIsEmpty                      (* len(u.cached) == 0 *)
| BAnyCached (c : bexp)               (* for _, e := range u.cached { if c { return true } }; return false *)
| BEvTypeIs (e : evref) (k : auconst) (* e.Type == auparse.k *)
| BEvSessionIs (e : evref) (c : sesconst)
| BHas (m : mapid) (k : kexp).        (* m.Has(k), or the second result of m.Load(k) *)

Inductive rexp :=
| RNil
| RErrVar (x : var)
| RTrackerError (f : eflag) (inner : var).   (* &SessionTrackerError{f: true, ..., inner: inner} *)

Inductive stmt :=
| SSkip
| SSeq (a b : stmt)
| SIf (c : bexp) (a b : stmt)
| SReturn (r : rexp)
| SSetBool (x : var) (b : bexp)
| SSetErrNil (x : var)                      (* var x error *)
| SValidate (x : var) (l : lexp)            (* x := l.Validate() *)
| SAtoiEvPID (x e : var)                    (* x, e := strconv.Atoi(event.Process.PID) *)
| SWrite (e : var) (ev : evref)             (* e = writer.Write(u.toAuditEvent(ev)) *)
| SNewUser (added : texp) (pid : iexp)      (* u := &user{added: .., srcPID: ..} *)
| SUserSetLogin (l : lexp)                  (* u.hasRUL = true; u.login = l *)
| SUserCacheAppend (ev : evref)             (* u.cached = append(u.cached, ev) *)
| SUserCacheClear                           (* u.cached = nil *)
| SForCached (body : stmt)                  (* for i := range u.cached { body }, EvElem = u.cached[i] *)
| SCallUser (x : var) (name : string) (body : stmt)   (* x = u.name(..): body runs as a function of its own *)
| SReturnCall (name : string) (body : stmt)           (* return o.name(..) *)
| SStoreUser (k : kexp)                     (* o.sessIDsToUsers.Store(k, u) *)
| SStoreLogin (k : kexp) (l : lexp)         (* o.pidsToRULs.Store(k, l) *)
| SDelete (m : mapid) (locking : bool) (k : kexp)     (* m.Delete(k) | m.DeleteUnsafe(k) *)
| SDeferDelete (m : mapid) (k : kexp)       (* defer m.DeleteUnsafe(k): runs when the enclosing FUNCTION returns *)
| SReturnWithLocked (m : mapid) (k : kexp) (body : stmt)   (* return m.WithLockedValueDo(k, func(v) error { body }) *)
| SScanFirst (m : mapid) (c : bexp) (body : stmt)
      (* m.Iterate(func(k, v) bool { if c { body; return false }; return true }) *)
| SDeleteWhere (m : mapid) (c : bexp).
      (* m.Iterate(func(k, v) bool { if c { m.DeleteUnsafe(k) }; return true }) *)

Declare Scope tir_scope.
Delimit Scope tir_scope with tir.
Notation "a ;; b" := (SSeq a b) (at level 61, right associativity) : tir_scope.

(* ---------- values and the interpreter's state ---------- *)

Inductive errsrc := FromValidate | FromWrite | FromAtoi.
Inductive rv := RvNil | RvRaw (src : errsrc) | RvTracker (f : eflag).     (* an error value *)
Inductive val := VBool (b : bool) | VErr (e : rv) | VInt (z : Z).
Inductive keyv := KeyN (n : N) | KeyZ (z : Z).
(* where the current user object lives *)
Inductive link :=
| Fresh            (* created here, not in the map *)
| Linked (k : N)   (* it IS the entry of session k (pointer): written back when its binder ends *)
| Detached         (* was the entry of a session that has been deleted meanwhile *)
| Published.       (* was handed to Store: the interpreter allows no further change *)
Inductive dop := DDel (m : mapid) (k : keyv).   (* a deferred DeleteUnsafe, key already evaluated *)

Record istate := {
  i_st : tstate;
  i_out : list emitted;
  i_env : list (var * val);
  i_user : option (user * link);
  i_login : option login;
  i_key : option keyv;
  i_elem : option aev;
  i_defers : list dop
}.

(* the arguments of the call *)
Record cargs := { c_login : option login; c_ev : option aev; c_now : option Z; c_t : option Z; c_choice : option nat }.

Inductive sres := Stuck | Norm (s : istate) | Ret (s : istate) (v : rv).

Definition set_st (s : istate) (st : tstate) : istate :=
  {| i_st := st; i_out := i_out s; i_env := i_env s; i_user := i_user s; i_login := i_login s;
     i_key := i_key s; i_elem := i_elem s; i_defers := i_defers s |}.
Definition set_out (s : istate) (o : list emitted) : istate :=
  {| i_st := i_st s; i_out := o; i_env := i_env s; i_user := i_user s; i_login := i_login s;
     i_key := i_key s; i_elem := i_elem s; i_defers := i_defers s |}.
Definition set_env (s : istate) (e : list (var * val)) : istate :=
  {| i_st := i_st s; i_out := i_out s; i_env := e; i_user := i_user s; i_login := i_login s;
     i_key := i_key s; i_elem := i_elem s; i_defers := i_defers s |}.
Definition set_user (s : istate) (u : option (user * link)) : istate :=
  {| i_st := i_st s; i_out := i_out s; i_env := i_env s; i_user := u; i_login := i_login s;
     i_key := i_key s; i_elem := i_elem s; i_defers := i_defers s |}.
Definition set_login (s : istate) (l : option login) : istate :=
  {| i_st := i_st s; i_out := i_out s; i_env := i_env s; i_user := i_user s; i_login := l;
     i_key := i_key s; i_elem := i_elem s; i_defers := i_defers s |}.
Definition set_key (s : istate) (k : option keyv) : istate :=
  {| i_st := i_st s; i_out := i_out s; i_env := i_env s; i_user := i_user s; i_login := i_login s;
     i_key := k; i_elem := i_elem s; i_defers := i_defers s |}.
Definition set_elem (s : istate) (e : option aev) : istate :=
  {| i_st := i_st s; i_out := i_out s; i_env := i_env s; i_user := i_user s; i_login := i_login s;
     i_key := i_key s; i_elem := e; i_defers := i_defers s |}.
Definition set_defers (s : istate) (d : list dop) : istate :=
  {| i_st := i_st s; i_out := i_out s; i_env := i_env s; i_user := i_user s; i_login := i_login s;
     i_key := i_key s; i_elem := i_elem s; i_defers := d |}.

Definition set_sess (st : tstate) (m : list (N * user)) : tstate := {| sess := m; parked := parked st; wb := wb st |}.
Definition set_parked (st : tstate) (m : list (Z * login)) : tstate := {| sess := sess st; parked := m; wb := wb st |}.
Definition set_wb (st : tstate) (b : option nat) : tstate := {| sess := sess st; parked := parked st; wb := b |}.

Fixpoint env_get (x : var) (e : list (var * val)) : option val :=
  match e with
  | [] => None
  | (y, v) :: r => if String.eqb y x then Some v else env_get x r
  end.
(* the latest binding shadows *)
Definition bind_var (s : istate) (x : var) (v : val) : istate := set_env s ((x, v) :: i_env s).

Definition get_bool (s : istate) (x : var) : option bool :=
  match env_get x (i_env s) with Some (VBool b) => Some b | _ => None end.
Definition get_err (s : istate) (x : var) : option rv :=
  match env_get x (i_env s) with Some (VErr e) => Some e | _ => None end.
Definition get_int (s : istate) (x : var) : option Z :=
  match env_get x (i_env s) with Some (VInt z) => Some z | _ => None end.

Definition has_rul (u : user) : bool := match u_login u with Some _ => true | None => false end.
Definition is_nil (e : rv) : bool := match e with RvNil => true | _ => false end.
Definition is_empty {A} (l : list A) : bool := match l with [] => true | _ => false end.

Definition user_with_login (u : user) (l : login) : user :=
  {| u_added := u_added u; u_pid := u_pid u; u_login := Some l; u_cached := u_cached u |}.
Definition user_with_cached (u : user) (c : list aev) : user :=
  {| u_added := u_added u; u_pid := u_pid u; u_login := u_login u; u_cached := c |}.

(* ---------- expressions ---------- *)

Definition eval_l (a : cargs) (s : istate) (l : lexp) : option login :=
  match l with LArg => c_login a | LCur => i_login s end.

Definition eval_ev (a : cargs) (s : istate) (e : evref) : option aev :=
  match e with EvArg => c_ev a | EvElem => i_elem s end.

Definition eval_t (a : cargs) (s : istate) (t : texp) : option Z :=
  match t with
  | TArg => c_t a
  | TNow => c_now a
  | TUserAdded => match i_user s with Some (u, _) => Some (u_added u) | None => None end
  | TLoginLoggedAt l => match eval_l a s l with Some x => Some (l_at x) | None => None end
  end.

Definition eval_i (a : cargs) (s : istate) (i : iexp) : option Z :=
  match i with
  | IVar x => get_int s x
  | IUserSrcPID => match i_user s with Some (u, _) => Some (u_pid u) | None => None end
  | ILoginPID l => match eval_l a s l with Some x => Some (l_pid x) | None => None end
  end.

Definition eval_k (a : cargs) (s : istate) (k : kexp) : option keyv :=
  match k with
  | KEvSession =>
      match c_ev a with
      | Some ev => match a_ses ev with SId n => Some (KeyN n) | _ => None end
      | None => None
      end
  | KIterKey => i_key s
  | KInt i => match eval_i a s i with Some z => Some (KeyZ z) | None => None end
  end.

Definition type_is (t : atype) (k : auconst) : bool :=
  match k with AUDIT_LOGIN => is_login t | AUDIT_CRED_DISP => is_disp t end.

Definition session_is (x : ses) (c : sesconst) : bool :=
  match c, x with
  | SesEmpty, SNone => true
  | SesUnset, SUnset => true
  | _, _ => false
  end.

Definition map_has (st : tstate) (m : mapid) (k : keyv) : option bool :=
  match m, k with
  | MSessions, KeyN n => Some (ahas N.eqb n (sess st))
  | MLogins, KeyZ z => Some (ahas Z.eqb z (parked st))
  | _, _ => None
  end.

(* [existsb] for a predicate that may be undefined: undefined anywhere = undefined *)
Fixpoint existsb_opt {A} (f : A -> option bool) (l : list A) : option bool :=
  match l with
  | [] => Some false
  | x :: r =>
      match f x, existsb_opt f r with
      | Some b, Some c => Some (b || c)
      | _, _ => None
      end
  end.

Fixpoint filter_opt {A} (f : A -> option bool) (l : list A) : option (list A) :=
  match l with
  | [] => Some []
  | x :: r =>
      match f x, filter_opt f r with
      | Some b, Some r' => Some (if b then x :: r' else r')
      | _, _ => None
      end
  end.

Fixpoint eval_b (a : cargs) (s : istate) (b : bexp) : option bool :=
  match b with
  | BConst c => Some c
  | BVar x => get_bool s x
  | BNot x => match eval_b a s x with Some v => Some (negb v) | None => None end
  | BAnd x y =>
      match eval_b a s x, eval_b a s y with
      | Some v, Some w => Some (v && w)
      | _, _ => None
      end
  | BOr x y =>
      match eval_b a s x, eval_b a s y with
      | Some v, Some w => Some (v || w)
      | _, _ => None
      end
  | BErrIsNil x => match get_err s x with Some e => Some (is_nil e) | None => None end
  | BIntEq x y =>
      match eval_i a s x, eval_i a s y with
      | Some v, Some w => Some (v =? w)%Z
      | _, _ => None
      end
  | BBefore x y =>
      match eval_t a s x, eval_t a s y with
      | Some v, Some w => Some (v <? w)%Z
      | _, _ => None
      end
  | BUserHasRUL => match i_user s with Some (u, _) => Some (has_rul u) | None => None end
  | BCachedIsEmpty => match i_user s with Some (u, _) => Some (is_empty (u_cached u)) | None => None end
  | BAnyCached c =>
      match i_user s with
      | Some (u, _) => existsb_opt (fun e => eval_b a (set_elem s (Some e)) c) (u_cached u)
      | None => None
      end
  | BEvTypeIs e k => match eval_ev a s e with Some ev => Some (type_is (a_type ev) k) | None => None end
  | BEvSessionIs e c => match eval_ev a s e with Some ev => Some (session_is (a_ses ev) c) | None => None end
  | BHas m k => match eval_k a s k with Some kv => map_has (i_st s) m kv | None => None end
  end.

(* ---------- effects ---------- *)

Definition tres_of (v : rv) : tres :=
  match v with
  | RvNil => ROk
  | RvRaw FromValidate => RErrValidate
  | RvRaw FromWrite => RErrWrite
  | RvRaw FromAtoi => RErrPid
  | RvTracker remoteLoginFail => RErrValidate
  | RvTracker auditWriteFail => RErrWrite
  | RvTracker parsePIDFail => RErrPid
  end.

Definition eval_r (s : istate) (r : rexp) : option rv :=
  match r with
  | RNil => Some RvNil
  | RErrVar x => get_err s x
  | RTrackerError f x => match get_err s x with Some _ => Some (RvTracker f) | None => None end
  end.

(* a change of the current user object *)
Definition upd_user (s : istate) (f : user -> user) : sres :=
  match i_user s with
  | Some (u, Published) => Stuck
  | Some (u, lk) => Norm (set_user s (Some (f u, lk)))
  | None => Stuck
  end.

Definition unlink (k : N) (s : istate) : istate :=
  match i_user s with
  | Some (u, Linked k') => if N.eqb k' k then set_user s (Some (u, Detached)) else s
  | _ => s
  end.

Definition del_key (m : mapid) (k : keyv) (s : istate) : option istate :=
  match m, k with
  | MSessions, KeyN n => Some (unlink n (set_st s (set_sess (i_st s) (adel N.eqb n (sess (i_st s))))))
  | MLogins, KeyZ z => Some (set_st s (set_parked (i_st s) (adel Z.eqb z (parked (i_st s)))))
  | _, _ => None
  end.

(* the deferred calls of a function, last registered first *)
Fixpoint run_defers (ds : list dop) (s : istate) : option istate :=
  match ds with
  | [] => Some s
  | DDel m k :: r => match del_key m k s with Some s' => run_defers r s' | None => None end
  end.

(* the current user is the entry of a session: the entry has the object's value *)
Definition writeback (s : istate) : istate :=
  match i_user s with
  | Some (u, Linked k) => set_st s (set_sess (i_st s) (aset N.eqb k u (sess (i_st s))))
  | _ => s
  end.

(* the end of a function: its deferred calls run; [outer] are the deferred calls of the caller *)
Definition fn_exit (outer : list dop) (s : istate) : option istate :=
  match run_defers (i_defers s) s with
  | Some s' => Some (set_defers s' outer)
  | None => None
  end.

(* ... of a function whose result is an error: leaving by the end cannot happen (Go: "missing return") and is
   read as nil *)
Definition fn_result (outer : list dop) (r : sres) : option (istate * rv) :=
  match r with
  | Stuck => None
  | Norm s => match fn_exit outer s with Some s' => Some (s', RvNil) | None => None end
  | Ret s v => match fn_exit outer s with Some s' => Some (s', v) | None => None end
  end.

Fixpoint for_each (f : aev -> istate -> sres) (l : list aev) (s : istate) : sres :=
  match l with
  | [] => Norm s
  | e :: r =>
      match f e s with
      | Norm s' => for_each f r s'
      | other => other
      end
  end.

Definition write_event (a : cargs) (s : istate) (x : var) (e : evref) : sres :=
  match i_user s, eval_ev a s e with
  | Some (u, _), Some ev =>
      match u_login u with
      | Some l =>
          match write1 (wb (i_st s)) with
          | (b', true) => Norm (bind_var (set_out (set_st s (set_wb (i_st s) b')) (i_out s ++ [(l, ev)])) x (VErr RvNil))
          | (b', false) => Norm (bind_var (set_st s (set_wb (i_st s) b')) x (VErr (RvRaw FromWrite)))
          end
      | None => Stuck        (* toAuditEvent dereferences u.login.Source *)
      end
  | _, _ => Stuck
  end.

(* the entry (k, v) of a map as the callback of Iterate sees it *)
Definition bind_session (s : istate) (kv : N * user) : istate :=
  set_key (set_user s (Some (snd kv, Linked (fst kv)))) (Some (KeyN (fst kv))).
Definition bind_login (s : istate) (kv : Z * login) : istate :=
  set_key (set_login s (Some (snd kv))) (Some (KeyZ (fst kv))).

Definition negb_opt (o : option bool) : option bool := match o with Some b => Some (negb b) | None => None end.

Fixpoint run_stmt (a : cargs) (p : stmt) (s : istate) : sres :=
  match p with
  | SSkip => Norm s
  | SSeq x y =>
      match run_stmt a x s with
      | Norm s' => run_stmt a y s'
      | other => other
      end
  | SIf c x y =>
      match eval_b a s c with
      | Some true => run_stmt a x s
      | Some false => run_stmt a y s
      | None => Stuck
      end
  | SReturn r => match eval_r s r with Some v => Ret s v | None => Stuck end
  | SSetBool x b => match eval_b a s b with Some v => Norm (bind_var s x (VBool v)) | None => Stuck end
  | SSetErrNil x => Norm (bind_var s x (VErr RvNil))
  | SValidate x l =>
      match eval_l a s l with
      | Some lg => Norm (bind_var s x (VErr (if validate lg then RvNil else RvRaw FromValidate)))
      | None => Stuck
      end
  | SAtoiEvPID x e =>
      match c_ev a with
      | Some ev =>
          match a_pid ev with
          | Some z => Norm (bind_var (bind_var s x (VInt z)) e (VErr RvNil))
          | None => Norm (bind_var (bind_var s x (VInt 0%Z)) e (VErr (RvRaw FromAtoi)))
          end
      | None => Stuck
      end
  | SWrite x e => write_event a s x e
  | SNewUser t i =>
      match eval_t a s t, eval_i a s i with
      | Some added, Some pid =>
          Norm (set_user s (Some ({| u_added := added; u_pid := pid; u_login := None; u_cached := [] |}, Fresh)))
      | _, _ => Stuck
      end
  | SUserSetLogin l =>
      match eval_l a s l with
      | Some lg => upd_user s (fun u => user_with_login u lg)
      | None => Stuck
      end
  | SUserCacheAppend e =>
      match eval_ev a s e with
      | Some ev => upd_user s (fun u => user_with_cached u (u_cached u ++ [ev]))
      | None => Stuck
      end
  | SUserCacheClear => upd_user s (fun u => user_with_cached u [])
  | SForCached body =>
      match i_user s with
      | Some (u, _) =>
          match for_each (fun e s' => run_stmt a body (set_elem s' (Some e))) (u_cached u) s with
          | Stuck => Stuck
          | Norm s' => Norm (set_elem s' (i_elem s))
          | Ret s' v => Ret (set_elem s' (i_elem s)) v
          end
      | None => Stuck
      end
  | SCallUser x _ body =>
      (* the helper has its own variables and deferred calls; the receiver is the current user *)
      match fn_result (i_defers s) (run_stmt a body (set_defers (set_env s []) [])) with
      | Some (s', v) => Norm (bind_var (set_elem (set_env s' (i_env s)) (i_elem s)) x (VErr v))
      | None => Stuck
      end
  | SReturnCall _ body =>
      match fn_result (i_defers s) (run_stmt a body (set_defers (set_env s []) [])) with
      | Some (s', v) => Ret (set_env s' (i_env s)) v
      | None => Stuck
      end
  | SStoreUser k =>
      match eval_k a s k, i_user s with
      | Some (KeyN n), Some (u, Fresh) =>
          Norm (set_user (set_st s (set_sess (i_st s) (aset N.eqb n u (sess (i_st s))))) (Some (u, Published)))
      | _, _ => Stuck
      end
  | SStoreLogin k l =>
      match eval_k a s k, eval_l a s l with
      | Some (KeyZ z), Some lg => Norm (set_st s (set_parked (i_st s) (aset Z.eqb z lg (parked (i_st s)))))
      | _, _ => Stuck
      end
  | SDelete m _ k =>
      match eval_k a s k with
      | Some kv => match del_key m kv s with Some s' => Norm s' | None => Stuck end
      | None => Stuck
      end
  | SDeferDelete m k =>
      (* Go evaluates the arguments of a deferred call at the defer statement *)
      match eval_k a s k with
      | Some kv => Norm (set_defers s (DDel m kv :: i_defers s))
      | None => Stuck
      end
  | SReturnWithLocked m k body =>
      match m, eval_k a s k with
      | MSessions, Some (KeyN n) =>
          match aget N.eqb n (sess (i_st s)) with
          | None => Ret s RvNil
          | Some u =>
              match fn_result (i_defers s) (run_stmt a body (set_defers (set_user s (Some (u, Linked n))) [])) with
              | Some (s', v) => Ret (set_user (writeback s') (i_user s)) v
              | None => Stuck
              end
          end
      | MLogins, Some (KeyZ z) =>
          match aget Z.eqb z (parked (i_st s)) with
          | None => Ret s RvNil
          | Some lg =>
              match fn_result (i_defers s) (run_stmt a body (set_defers (set_login s (Some lg)) [])) with
              | Some (s', v) => Ret (set_login s' (i_login s)) v
              | None => Stuck
              end
          end
      | _, _ => Stuck
      end
  | SScanFirst m c body =>
      match m, c_choice a with
      | MSessions, Some choice =>
          match filter_opt (fun kv => eval_b a (bind_session s kv) c) (sess (i_st s)) with
          | Some cands =>
              match pick choice cands with
              | None => Norm s
              | Some kv =>
                  match run_stmt a body (set_defers (bind_session s kv) []) with
                  | Norm s1 =>
                      match fn_exit (i_defers s) s1 with
                      | Some s2 => Norm (set_key (set_user (writeback s2) (i_user s)) (i_key s))
                      | None => Stuck
                      end
                  | _ => Stuck
                  end
              end
          | None => Stuck
          end
      | _, _ => Stuck
      end
  | SDeleteWhere m c =>
      match m with
      | MSessions =>
          match filter_opt (fun kv => negb_opt (eval_b a (bind_session s kv) c)) (sess (i_st s)) with
          | Some m' => Norm (set_st s (set_sess (i_st s) m'))
          | None => Stuck
          end
      | MLogins =>
          match filter_opt (fun kv => negb_opt (eval_b a (bind_login s kv) c)) (parked (i_st s)) with
          | Some m' => Norm (set_st s (set_parked (i_st s) m'))
          | None => Stuck
          end
      end
  end.

Definition init_istate (st : tstate) : istate :=
  {| i_st := st; i_out := []; i_env := []; i_user := None; i_login := None; i_key := None; i_elem := None;
     i_defers := [] |}.

(* one call of an API method whose body is [p] *)
Definition run_prog (p : stmt) (st : tstate) (a : cargs) : option (tstate * list emitted * tres) :=
  match fn_result [] (run_stmt a p (init_istate st)) with
  | Some (s, v) => Some (i_st s, i_out s, tres_of v)
  | None => None
  end.

Definition args_login (l : login) (choice : nat) : cargs :=
  {| c_login := Some l; c_ev := None; c_now := None; c_t := None; c_choice := Some choice |}.
Definition args_event (ev : aev) (now : Z) : cargs :=
  {| c_login := None; c_ev := Some ev; c_now := Some now; c_t := None; c_choice := None |}.
Definition args_time (t : Z) : cargs :=
  {| c_login := None; c_ev := None; c_now := None; c_t := Some t; c_choice := None |}.
