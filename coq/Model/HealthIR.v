(* A small deep-embedded IR for internal/health/health.go, and its interpreter.
   Definitions only.  The programs themselves are GENERATED (Gen/HealthProg.v, by tools/go2v/healthgen.go);
   Proofs/HealthIRTie.v proves that interpreting the generated programs gives the hand-written model
   Model/Health.v.

   Conventions
   - the readiness map is [hstate]; one call of a GenericSyncMap method = one critical section [hsec];
   - other goroutines may change the map before each critical section of the method under
     interpretation: [interf i] is applied to the map just before the method's i-th critical section
     (sequential execution: [interf := fun _ s => s]);
   - the result map  smap : map[string]string  is kept as the sequence of assignments  smap[k] = v  in
     execution order (a lookup takes the last one);  a key is either the iteration's key (a component
     name, abstracted to [nat] as in the model) or a string constant of the source.  NOTE: this keeps a
     component that would be called "overall" apart from the overall key, as Model/Health.v does;
   - [None] = the program does something the interpreter gives no meaning to (unknown local, callback
     without return, map method called inside a locked callback, ...). *)
From Coq Require Import List Arith Bool String.
Import ListNotations.
From AM Require Import Model.Health.
Open Scope string_scope.
Open Scope list_scope.

(* ---- syntax ------------------------------------------------------------------------------- *)

(* boolean expressions *)
Inductive hbexp :=
| BConst (b : bool)
| BEntryVal                 (* the Iterate callback's value parameter *)
| BLocal (x : string)       (* a local bool of the method (callbacks capture them) *)
| BNot (e : hbexp)
| BIsReady.                 (* o.IsReady(): a method call, i.e. further critical sections *)

(* string expressions; constants are resolved from the source *)
Inductive hsexp :=
| SConst (s : string)
| SLocal (x : string).      (* a string local of the callback *)

(* body of the function literal handed to readyMap.Iterate(func(key string, value bool) bool {...}) *)
Inductive cstmt :=
| CDeclStr (x : string)                    (* var x string *)
| CSetBool (x : string) (e : hbexp)        (* x = e, x a captured local of the method *)
| CSetStr (x : string) (e : hsexp)         (* x = e *)
| CPutEntry (e : hsexp)                    (* smap[key] = e, key the callback's key parameter *)
| CIf (c : hbexp) (th el : list cstmt)
| CReturn (e : hbexp).                     (* true: go on, false: stop the iteration *)

(* capacity argument of make(map[string]string, cap) *)
Inductive hcap :=
| CapConst (n : nat)
| CapLenPlus (n : nat).     (* o.readyMap.Len() + n: one critical section *)

Inductive hkeyexp := KParam.  (* the method's string parameter *)

Inductive mstmt :=
| MStore (k : hkeyexp) (v : bool)          (* o.readyMap.Store(k, v) *)
| MLocalBool (x : string) (v : bool)       (* x := v *)
| MMakeResult (cap : hcap)                 (* smap := make(map[string]string, cap) *)
| MIterate (body : list cstmt)             (* o.readyMap.Iterate(func(key, value) bool { body }) *)
| MPutConst (k : string) (e : hsexp)       (* smap[k] = e, k a string constant *)
| MIf (c : hbexp) (th el : list mstmt)
| MReturnBool (e : hbexp)
| MReturnResult.                           (* return smap *)

(* readyzHandler *)
Inductive hstmt :=
| HGetStatus (x : string)                                  (* x := o.GetReadyzStatusMap() *)
| HIfIndexEq (x key c : string) (th el : list hstmt)       (* if x[key] == c {th} else {el} *)
| HWriteHeader (code : nat)                                (* w.WriteHeader(code) *)
| HEncode (x : string).                                    (* json.NewEncoder(w).Encode(x) *)

(* WaitForReady: out := make(chan error, cap); go func() { ticker := time.NewTicker(..);
   for { select { arms } } }(); return out *)
Inductive wguard :=
| GCtxDone                  (* case <-ctx.Done() *)
| GTick.                    (* case <-ticker.C *)

Inductive wstmt :=
| WSendErr                  (* out <- ctx.Err() *)
| WClose                    (* close(out) *)
| WReturn
| WIf (c : hbexp) (th el : list wstmt).

Record wprog := {
  w_out_cap : nat;                           (* capacity of out; 0 = unbuffered *)
  w_spawned : bool;                          (* the loop runs in its own goroutine and out is returned at once *)
  w_arms : list (wguard * list wstmt)        (* for { select { ... } }, in source order *)
}.

(* NewHealth: &Health{readyMap: common.NewGenericSyncMap[string, bool]()} *)
Inductive hinit := InitEmptyMap.

(* What the GenericSyncMap functions used here do (inside their critical section) *)
Inductive smsem :=
| SemEmpty                  (* NewGenericSyncMap: &GenericSyncMap[K, V]{m: make(map[K]V)} *)
| SemAssign                 (* m.m[key] = value *)
| SemLen                    (* return len(m.m) *)
| SemRangeUntilFalse.       (* for k, v := range m.m { if !cb(k, v) { break } } *)

(* ---- interpreter: methods over the readiness map -------------------------------------------- *)

Inductive hsec := SecStore | SecLen | SecIter.   (* kinds of critical section *)

Inductive rkey :=
| RComp (n : name)          (* a component name *)
| RConst (s : string).      (* a constant key *)

Definition rmap := list (rkey * string).       (* assignments in execution order *)

Record mst := {
  m_map : hstate;                              (* the readiness map *)
  m_bools : list (string * bool);              (* local bools of the method *)
  m_res : option rmap;                         (* smap, once made *)
  m_secs : list hsec                           (* critical sections entered so far *)
}.

Inductive mret := RBool (b : bool) | RResult (r : rmap).

Fixpoint get {A} (x : string) (l : list (string * A)) : option A :=
  match l with
  | [] => None
  | (y, v) :: r => if String.eqb y x then Some v else get x r
  end.

(* assignment to an existing variable *)
Fixpoint set {A} (x : string) (v : A) (l : list (string * A)) : option (list (string * A)) :=
  match l with
  | [] => None
  | (y, w) :: r => if String.eqb y x then Some ((y, v) :: r)
                   else match set x v r with Some r' => Some ((y, w) :: r') | None => None end
  end.

(* declaration (redeclaration is not given a meaning) *)
Definition declare {A} (x : string) (v : A) (l : list (string * A)) : option (list (string * A)) :=
  match get x l with Some _ => None | None => Some (l ++ [(x, v)]) end.

Definition seval (ls : list (string * string)) (e : hsexp) : option string :=
  match e with
  | SConst s => Some s
  | SLocal x => get x ls
  end.

Section Interp.
  (* what other goroutines do to the map before the i-th critical section of this execution *)
  Variable interf : nat -> hstate -> hstate.
  (* how o.IsReady() is executed *)
  Variable call_isready : mst -> option (bool * mst).
  (* the method's string argument *)
  Variable arg : option name.

  Definition enter (k : hsec) (st : mst) : mst :=
    {| m_map := interf (List.length (m_secs st)) (m_map st); m_bools := m_bools st;
       m_res := m_res st; m_secs := m_secs st ++ [k] |}.

  (* entry = Some v: inside the Iterate callback (the map's lock is held: calling a method that
     takes it again deadlocks, so BIsReady has no meaning there) *)
  Fixpoint beval (entry : option bool) (e : hbexp) (st : mst) : option (bool * mst) :=
    match e with
    | BConst b => Some (b, st)
    | BEntryVal => match entry with Some v => Some (v, st) | None => None end
    | BLocal x => match get x (m_bools st) with Some b => Some (b, st) | None => None end
    | BNot e' => match beval entry e' st with Some (b, st') => Some (negb b, st') | None => None end
    | BIsReady => match entry with Some _ => None | None => call_isready st end
    end.

  Definition cres := option (mst * list (string * string) * option bool).

  (* one callback statement; the third component is Some b once  return b  has been executed *)
  Fixpoint run_cstmt (k : name) (v : bool) (c : cstmt) (st : mst) (ls : list (string * string))
      {struct c} : cres :=
    match c with
    | CDeclStr x =>
        match declare x "" ls with Some ls' => Some (st, ls', None) | None => None end
    | CSetBool x e =>
        match beval (Some v) e st with
        | Some (b, st') =>
            match set x b (m_bools st') with
            | Some bs => Some ({| m_map := m_map st'; m_bools := bs; m_res := m_res st';
                                  m_secs := m_secs st' |}, ls, None)
            | None => None
            end
        | None => None
        end
    | CSetStr x e =>
        match seval ls e with
        | Some s => match set x s ls with Some ls' => Some (st, ls', None) | None => None end
        | None => None
        end
    | CPutEntry e =>
        match seval ls e, m_res st with
        | Some s, Some r => Some ({| m_map := m_map st; m_bools := m_bools st;
                                     m_res := Some (r ++ [(RComp k, s)]); m_secs := m_secs st |}, ls, None)
        | _, _ => None
        end
    | CIf c' th el =>
        match beval (Some v) c' st with
        | Some (b, st') =>
            (fix run_block (l : list cstmt) (st : mst) (ls : list (string * string)) {struct l} : cres :=
               match l with
               | [] => Some (st, ls, None)
               | c1 :: r =>
                   match run_cstmt k v c1 st ls with
                   | Some (st1, ls1, None) => run_block r st1 ls1
                   | other => other
                   end
               end) (if b then th else el) st' ls
        | None => None
        end
    | CReturn e =>
        match beval (Some v) e st with
        | Some (b, st') => Some (st', ls, Some b)
        | None => None
        end
    end.

  Fixpoint run_cblock (k : name) (v : bool) (l : list cstmt) (st : mst) (ls : list (string * string)) : cres :=
    match l with
    | [] => Some (st, ls, None)
    | c1 :: r =>
        match run_cstmt k v c1 st ls with
        | Some (st1, ls1, None) => run_cblock k v r st1 ls1
        | other => other
        end
    end.

  (* GenericSyncMap.Iterate over the entries [s] (the map as it is inside the critical section);
     every call of the callback starts with fresh callback locals *)
  Fixpoint iterate (body : list cstmt) (s : hstate) (st : mst) : option mst :=
    match s with
    | [] => Some st
    | (k, v) :: r =>
        match run_cblock k v body st [] with
        | Some (st', _, Some true) => iterate body r st'
        | Some (st', _, Some false) => Some st'
        | _ => None
        end
    end.

  Definition mres := option (mst * option mret).

  Fixpoint run_mstmt (c : mstmt) (st : mst) {struct c} : mres :=
    match c with
    | MStore KParam v =>
        match arg with
        | Some n =>
            let st1 := enter SecStore st in
            Some ({| m_map := store n v (m_map st1); m_bools := m_bools st1; m_res := m_res st1;
                     m_secs := m_secs st1 |}, None)
        | None => None
        end
    | MLocalBool x v =>
        match declare x v (m_bools st) with
        | Some bs => Some ({| m_map := m_map st; m_bools := bs; m_res := m_res st; m_secs := m_secs st |}, None)
        | None => None
        end
    | MMakeResult cap =>
        match m_res st with
        | Some _ => None
        | None =>
            let st1 := match cap with CapLenPlus _ => enter SecLen st | CapConst _ => st end in
            Some ({| m_map := m_map st1; m_bools := m_bools st1; m_res := Some []; m_secs := m_secs st1 |}, None)
        end
    | MIterate body =>
        let st1 := enter SecIter st in
        match iterate body (m_map st1) st1 with Some st2 => Some (st2, None) | None => None end
    | MPutConst k e =>
        match seval [] e, m_res st with
        | Some s, Some r => Some ({| m_map := m_map st; m_bools := m_bools st;
                                     m_res := Some (r ++ [(RConst k, s)]); m_secs := m_secs st |}, None)
        | _, _ => None
        end
    | MIf c' th el =>
        match beval None c' st with
        | Some (b, st') =>
            (fix run_block (l : list mstmt) (st : mst) {struct l} : mres :=
               match l with
               | [] => Some (st, None)
               | c1 :: r =>
                   match run_mstmt c1 st with
                   | Some (st1, None) => run_block r st1
                   | other => other
                   end
               end) (if b then th else el) st'
        | None => None
        end
    | MReturnBool e =>
        match beval None e st with
        | Some (b, st') => Some (st', Some (RBool b))
        | None => None
        end
    | MReturnResult =>
        match m_res st with Some r => Some (st, Some (RResult r)) | None => None end
    end.

  Fixpoint run_mblock (l : list mstmt) (st : mst) : mres :=
    match l with
    | [] => Some (st, None)
    | c1 :: r =>
        match run_mstmt c1 st with
        | Some (st1, None) => run_mblock r st1
        | other => other
        end
    end.
End Interp.

(* a method called on map [s], [secs] critical sections having been entered before by the caller *)
Definition frame (s : hstate) (secs : list hsec) : mst :=
  {| m_map := s; m_bools := []; m_res := None; m_secs := secs |}.

(* methods that call no other method *)
Definition run_leaf (interf : nat -> hstate -> hstate) (arg : option name) (p : list mstmt) (st : mst) : mres :=
  run_mblock interf (fun _ => None) arg p st.

(* o.IsReady() executed by running the program [isr] of IsReady in a fresh frame on the same map *)
Definition call_prog (interf : nat -> hstate -> hstate) (isr : list mstmt) (st : mst) : option (bool * mst) :=
  match run_leaf interf None isr (frame (m_map st) (m_secs st)) with
  | Some (st', Some (RBool b)) =>
      Some (b, {| m_map := m_map st'; m_bools := m_bools st; m_res := m_res st; m_secs := m_secs st' |})
  | _ => None
  end.

Definition run_top (interf : nat -> hstate -> hstate) (isr : list mstmt) (arg : option name)
    (p : list mstmt) (st : mst) : mres :=
  run_mblock interf (call_prog interf isr) arg p st.

Definition sequential : nat -> hstate -> hstate := fun _ s => s.

(* AddReadiness / OnReady: the map after the call (sequentially), for the program [p] *)
Definition run_method (isr p : list mstmt) (n : name) (s : hstate) : option hstate :=
  match run_top sequential isr (Some n) p (frame s []) with
  | Some (st, None) => Some (m_map st)        (* no result value *)
  | _ => None
  end.

(* the critical sections a method's execution consists of *)
Definition method_sections (isr p : list mstmt) (arg : option name) (s : hstate) : option (list hsec) :=
  match run_top sequential isr arg p (frame s []) with
  | Some (st, _) => Some (m_secs st)
  | None => None
  end.

(* IsReady *)
Definition eval_is_ready_under (interf : nat -> hstate -> hstate) (isr : list mstmt) (s : hstate) : option bool :=
  match run_leaf interf None isr (frame s []) with
  | Some (_, Some (RBool b)) => Some b
  | _ => None
  end.

Definition eval_is_ready (isr : list mstmt) (s : hstate) : option bool :=
  eval_is_ready_under sequential isr s.

(* ---- interpreter: the handler ---------------------------------------------------------------- *)

Fixpoint rlookup_str (k : string) (r : rmap) : option string :=
  match r with
  | [] => None
  | (RConst k', v) :: r' =>
      match rlookup_str k r' with            (* the last assignment wins *)
      | Some v' => Some v'
      | None => if String.eqb k' k then Some v else None
      end
  | (RComp _, _) :: r' => rlookup_str k r'
  end.

(* Go: indexing a map[string]string with a missing key gives "" *)
Definition rindex (k : string) (r : rmap) : string :=
  match rlookup_str k r with Some v => v | None => "" end.

Record hresp := {
  h_code : option nat;       (* status line sent *)
  h_body : option rmap       (* the map that was encoded *)
}.

Record hhst := { hh_m : mst; hh_vars : list (string * rmap); hh_resp : hresp }.

Section Handler.
  Variable interf : nat -> hstate -> hstate.
  Variable isr getstatus : list mstmt.

  Fixpoint run_hstmt (c : hstmt) (h : hhst) {struct c} : option hhst :=
    match c with
    | HGetStatus x =>
        match run_top interf isr None getstatus (frame (m_map (hh_m h)) (m_secs (hh_m h))) with
        | Some (st', Some (RResult r)) =>
            match declare x r (hh_vars h) with
            | Some vs => Some {| hh_m := st'; hh_vars := vs; hh_resp := hh_resp h |}
            | None => None
            end
        | _ => None
        end
    | HIfIndexEq x key c' th el =>
        match get x (hh_vars h) with
        | Some r =>
            (fix run_block (l : list hstmt) (h : hhst) {struct l} : option hhst :=
               match l with
               | [] => Some h
               | c1 :: r => match run_hstmt c1 h with Some h1 => run_block r h1 | None => None end
               end) (if String.eqb (rindex key r) c' then th else el) h
        | None => None
        end
    | HWriteHeader code =>
        (* net/http: only the first WriteHeader counts, and none after the body has been started *)
        match h_code (hh_resp h) with
        | Some _ => None
        | None => Some {| hh_m := hh_m h; hh_vars := hh_vars h;
                          hh_resp := {| h_code := Some code; h_body := h_body (hh_resp h) |} |}
        end
    | HEncode x =>
        match get x (hh_vars h), h_body (hh_resp h) with
        | Some r, None =>
            Some {| hh_m := hh_m h; hh_vars := hh_vars h;
                    hh_resp := {| h_code := match h_code (hh_resp h) with Some c' => Some c' | None => Some 200 end;
                                  h_body := Some r |} |}
        | _, _ => None
        end
    end.

  Fixpoint run_hblock (l : list hstmt) (h : hhst) : option hhst :=
    match l with
    | [] => Some h
    | c1 :: r => match run_hstmt c1 h with Some h1 => run_hblock r h1 | None => None end
    end.
End Handler.

(* the wire format of /readyz: {"overall": "ok" | "not-ready", "<component>": "ok" | "not-ready", ...} *)
Definition wire_overall := "overall".
Definition wire_ok := "ok".
Definition wire_not_ready := "not-ready".

Definition decode_flag (v : string) : option bool :=
  if String.eqb v wire_ok then Some true
  else if String.eqb v wire_not_ready then Some false
  else None.

(* the component entries of the body, in assignment order *)
Fixpoint decode_comps (r : rmap) : option (list (name * bool)) :=
  match r with
  | [] => Some []
  | (RComp n, v) :: r' =>
      match decode_flag v, decode_comps r' with
      | Some b, Some l => Some ((n, b) :: l)
      | _, _ => None
      end
  | (RConst _, _) :: r' => decode_comps r'
  end.

(* the only constant key allowed in a body is the overall key *)
Fixpoint only_overall_key (r : rmap) : bool :=
  match r with
  | [] => true
  | (RConst k, _) :: r' => String.eqb k wire_overall && only_overall_key r'
  | (RComp _, _) :: r' => only_overall_key r'
  end.

Definition decode_resp (p : hresp) : option status :=
  match h_code p, h_body p with
  | Some code, Some r =>
      match rlookup_str wire_overall r with
      | Some ov =>
          match decode_flag ov, decode_comps r, only_overall_key r with
          | Some b, Some l, true => Some {| st_code := code; st_overall := b; st_comps := l |}
          | _, _, _ => None
          end
      | None => None
      end
  | _, _ => None
  end.

(* one request: the decoded answer and the critical sections it consisted of *)
Definition eval_request (interf : nat -> hstate -> hstate) (isr getstatus : list mstmt) (handler : list hstmt)
    (s : hstate) : option (status * list hsec) :=
  match run_hblock interf isr getstatus handler
          {| hh_m := frame s []; hh_vars := []; hh_resp := {| h_code := None; h_body := None |} |} with
  | Some h =>
      match decode_resp (hh_resp h) with
      | Some a => Some (a, m_secs (hh_m h))
      | None => None
      end
  | None => None
  end.

Definition eval_status (isr getstatus : list mstmt) (handler : list hstmt) (s : hstate) : option status :=
  match eval_request sequential isr getstatus handler s with
  | Some (a, _) => Some a
  | None => None
  end.

(* the request's critical sections as events of Model.Health.exec_req (a Store is not one of them) *)
Fixpoint secs_as_events (l : list hsec) : option (list sev) :=
  match l with
  | [] => Some []
  | SecLen :: r => match secs_as_events r with Some e => Some (EvLen :: e) | None => None end
  | SecIter :: r => match secs_as_events r with Some e => Some (EvIter :: e) | None => None end
  | SecStore :: _ => None
  end.

(* ---- interpreter: WaitForReady ---------------------------------------------------------------- *)

(* state of the channel [out] as the receiver sees it *)
Record wst := { ws_out : wout; ws_returned : bool }.

Section Wait.
  Variable isr : list mstmt.
  Variable s : hstate.        (* the readiness map at the moment the arm runs *)

  Fixpoint wcond (c : hbexp) : option bool :=
    match c with
    | BConst b => Some b
    | BIsReady => eval_is_ready isr s
    | BNot c' => match wcond c' with Some b => Some (negb b) | None => None end
    | BEntryVal | BLocal _ => None
    end.

  Fixpoint run_wstmt (c : wstmt) (w : wst) {struct c} : option wst :=
    if ws_returned w then Some w else
    match c with
    | WSendErr =>
        match ws_out w with
        | WPending => Some {| ws_out := WErr; ws_returned := false |}
        | _ => None             (* send on a closed channel panics; a second send is not modelled *)
        end
    | WClose =>
        match ws_out w with
        | WPending => Some {| ws_out := WClosed; ws_returned := false |}
        | _ => None             (* close of a closed channel panics *)
        end
    | WReturn => Some {| ws_out := ws_out w; ws_returned := true |}
    | WIf c' th el =>
        match wcond c' with
        | Some b =>
            (fix run_block (l : list wstmt) (w : wst) {struct l} : option wst :=
               match l with
               | [] => Some w
               | c1 :: r => match run_wstmt c1 w with Some w1 => run_block r w1 | None => None end
               end) (if b then th else el) w
        | None => None
        end
    end.

  Fixpoint run_wblock (l : list wstmt) (w : wst) : option wst :=
    match l with
    | [] => Some w
    | c1 :: r => match run_wstmt c1 w with Some w1 => run_wblock r w1 | None => None end
    end.
End Wait.

Fixpoint find_arm (g : wguard) (arms : list (wguard * list wstmt)) : option (list wstmt) :=
  match arms with
  | [] => None
  | (g', b) :: r =>
      match g, g' with
      | GCtxDone, GCtxDone => Some b
      | GTick, GTick => Some b
      | _, _ => find_arm g r
      end
  end.

(* one turn of the loop: the select takes the arm of event [e].
   Some (Some o): the goroutine has returned, the receiver's view of out is o from now on;
   Some None: the loop goes round again with out untouched;  None: not given a meaning *)
Definition eval_wait_arm (isr : list mstmt) (p : wprog) (e : wev) : option (option wout) :=
  let '(g, s) := match e with WTick s => (GTick, s) | WCancel => (GCtxDone, []) end in
  match find_arm g (w_arms p) with
  | Some body =>
      match run_wblock isr s body {| ws_out := WPending; ws_returned := false |} with
      | Some w =>
          if ws_returned w then Some (Some (ws_out w))
          else match ws_out w with WPending => Some None | _ => None end
      | None => None
      end
  | None => None
  end.

Fixpoint eval_wait (isr : list mstmt) (p : wprog) (evs : list wev) : option wout :=
  match evs with
  | [] => Some WPending
  | e :: r =>
      match eval_wait_arm isr p e with
      | Some (Some o) => Some o
      | Some None => eval_wait isr p r
      | None => None
      end
  end.
