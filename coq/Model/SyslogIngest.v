(* SyslogIngester.Process: strip one record terminator, parse "<pid> <message>", hand
   (pid, message) to the sshd processor. *)
From Coq Require Import Ascii String List Bool.
Import ListNotations.
From AM Require Import Lib.Bytes Model.Syslog Model.SshdProc.

Definition via_ingester (c : cfg) (line : str) (wok ready : bool) : result :=
  let '(tok, msg) := process_line line in process c tok msg wok ready.
