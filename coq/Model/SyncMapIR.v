(* A small language for the bodies of the GenericSyncMap methods (internal/common/genericsyncmap.go) and its
   interpreter over association lists.  Definitions only.  The programs are GENERATED (Gen/SyncMapProg.v, by
   tools/go2v/syncmapsem.go); Proofs/SyncMapIRTie.v proves that interpreting them gives the operations of
   Lib/Assoc.v the correlator model (Model/Tracker.v, Model/TrackerIR.v) and the readiness model are written with.

   The Go map  m.m  is an association list without duplicate keys.  Go's unspecified iteration order of
   for k, v := range m.m  is an explicit argument [ord] (a list of keys); an entry deleted before it is reached is
   not produced (Go specification), an entry reached is produced with the value it has then.
   Callbacks are functions that may change the map (Iterate's callback calls DeleteUnsafe; WithLockedValueDo's
   callback mutates the stored value through its pointer, which the functional model renders as an update). *)
From Coq Require Import String List Bool Arith.
Import ListNotations.
From AM Require Import Lib.Assoc.
Open Scope string_scope.

Inductive mexp :=
| MEVar (x : string)                          (* a parameter or local variable *)
| MELen                                       (* len(m.m) *)
| MENil
| MECallCb (cb : string) (args : list string).   (* cb(args), cb a function parameter *)

Inductive mstmt :=
| MLookup (v ok key : string)                 (* v, ok := m.m[key]      ("_" discards) *)
| MStore (key value : string)                 (* m.m[key] = value *)
| MDeleteBuiltin (key : string)               (* delete(m.m, key) *)
| MCallSelf (meth : string) (args : list string)   (* m.<meth>(args): another method of the same map *)
| MReturn (es : list mexp)
| MRangeBreakUnless (k v cb : string)         (* for k, v := range m.m { if !cb(k, v) { break } } *)
| MIfLookupReturn (v ok key : string) (e : mexp).   (* if v, ok := m.m[key]; ok { return e } *)

Record mmethod := mkMethod {
  mm_name : string;
  mm_params : list string;
  mm_locked : bool;          (* body is  m.mtx.Lock(); defer m.mtx.Unlock(); <mm_body> *)
  mm_body : list mstmt
}.

Inductive mctor := CtorEmptyMap.    (* &GenericSyncMap[K, V]{m: make(map[K]V)} *)

Section Interp.
  Variables K V E : Type.
  Variable eqb : K -> K -> bool.
  Notation amap := (list (K * V)).

  Inductive mval :=
  | VKey (k : K)
  | VVal (v : option V)        (* None: the zero value of V (what m.m[key] yields for an absent key) *)
  | VBool (b : bool)
  | VLen (n : nat)
  | VErr (e : option E)        (* None: nil *)
  | VCb (name : string).       (* a function parameter, by name *)

  (* a callback: arguments, the map as it is when called -> the map afterwards and the result *)
  Definition cbfun := list mval -> amap -> option (amap * mval).
  Definition cbenv := list (string * cbfun).

  Fixpoint find_cb (x : string) (cbs : cbenv) : option cbfun :=
    match cbs with
    | [] => None
    | (y, f) :: r => if String.eqb x y then Some f else find_cb x r
    end.

  Definition venv := list (string * mval).
  Fixpoint vget (x : string) (env : venv) : option mval :=
    match env with
    | [] => None
    | (y, v) :: r => if String.eqb x y then Some v else vget x r
    end.
  Definition vset (x : string) (v : mval) (env : venv) : venv :=
    if String.eqb x "_" then env else (x, v) :: env.

  Fixpoint vgets (xs : list string) (env : venv) : option (list mval) :=
    match xs with
    | [] => Some []
    | x :: r => match vget x env, vgets r env with
                | Some v, Some vs => Some (v :: vs)
                | _, _ => None
                end
    end.

  (* outcome of a statement list *)
  Inductive mres :=
  | MNorm (m : amap) (env : venv)             (* fell through *)
  | MRet (m : amap) (vs : list mval)          (* returned *)
  | MStuck.

  Definition eval_exp (cbs : cbenv) (m : amap) (env : venv) (e : mexp) : option (amap * mval) :=
    match e with
    | MEVar x => match vget x env with Some v => Some (m, v) | None => None end
    | MELen => Some (m, VLen (length m))
    | MENil => Some (m, VErr None)
    | MECallCb cb args =>
        match find_cb cb cbs, vgets args env with
        | Some f, Some vs => f vs m
        | _, _ => None
        end
    end.

  Fixpoint eval_exps (cbs : cbenv) (m : amap) (env : venv) (es : list mexp) : option (amap * list mval) :=
    match es with
    | [] => Some (m, [])
    | e :: r =>
        match eval_exp cbs m env e with
        | Some (m1, v) =>
            match eval_exps cbs m1 env r with
            | Some (m2, vs) => Some (m2, v :: vs)
            | None => None
            end
        | None => None
        end
    end.

  (* for k, v := range m.m { if !cb(k, v) { break } }  with the keys enumerated in the order [ord] *)
  Fixpoint range_until (f : cbfun) (ord : list K) (m : amap) : option amap :=
    match ord with
    | [] => Some m
    | k :: r =>
        match aget eqb k m with
        | None => range_until f r m               (* removed before it was reached: not produced *)
        | Some v =>
            match f [VKey k; VVal (Some v)] m with
            | Some (m', VBool true) => range_until f r m'
            | Some (m', VBool false) => Some m'   (* break *)
            | _ => None
            end
        end
    end.

  Definition lookup_stmt (v ok key : string) (m : amap) (env : venv) : option venv :=
    match vget key env with
    | Some (VKey k) => Some (vset ok (VBool (ahas eqb k m)) (vset v (VVal (aget eqb k m)) env))
    | _ => None
    end.

  (* [callee]: how a call of another method of the map is run (one level: the callee calls no further method) *)
  Section Stmts.
    Variable callee : string -> list mval -> amap -> option amap.
    Variable cbs : cbenv.
    Variable ord : list K.

    Fixpoint run_stmts (b : list mstmt) (m : amap) (env : venv) : mres :=
      match b with
      | [] => MNorm m env
      | s :: r =>
          match s with
          | MLookup v ok key =>
              match lookup_stmt v ok key m env with
              | Some env' => run_stmts r m env'
              | None => MStuck
              end
          | MStore key value =>
              match vget key env, vget value env with
              | Some (VKey k), Some (VVal (Some x)) => run_stmts r (aset eqb k x m) env
              | _, _ => MStuck
              end
          | MDeleteBuiltin key =>
              match vget key env with
              | Some (VKey k) => run_stmts r (adel eqb k m) env
              | _ => MStuck
              end
          | MCallSelf meth args =>
              match vgets args env with
              | Some vs => match callee meth vs m with
                           | Some m' => run_stmts r m' env
                           | None => MStuck
                           end
              | None => MStuck
              end
          | MReturn es =>
              match eval_exps cbs m env es with
              | Some (m', vs) => MRet m' vs
              | None => MStuck
              end
          | MRangeBreakUnless _ _ cb =>
              match find_cb cb cbs with
              | Some f => match range_until f ord m with
                          | Some m' => run_stmts r m' env
                          | None => MStuck
                          end
              | None => MStuck
              end
          | MIfLookupReturn v ok key e =>
              match lookup_stmt v ok key m env with
              | Some env' =>
                  match vget ok env' with
                  | Some (VBool true) =>
                      match eval_exp cbs m env' e with
                      | Some (m', x) => MRet m' [x]
                      | None => MStuck
                      end
                  | Some (VBool false) => run_stmts r m env      (* v, ok are scoped to the if *)
                  | _ => MStuck
                  end
              | None => MStuck
              end
          end
      end.
  End Stmts.

  Fixpoint find_method (name : string) (ms : list mmethod) : option mmethod :=
    match ms with
    | [] => None
    | x :: r => if String.eqb name (mm_name x) then Some x else find_method name r
    end.

  (* binding the parameters: function parameters are bound by name in [cbs], the others to the argument values *)
  Fixpoint bind_params (ps : list string) (vs : list mval) : option venv :=
    match ps, vs with
    | [], [] => Some []
    | p :: ps', v :: vs' => match bind_params ps' vs' with Some e => Some ((p, v) :: e) | None => None end
    | _, _ => None
    end.

  (* a method that calls no other method *)
  Definition run_leaf (ms : list mmethod) (name : string) (vs : list mval) (m : amap) : option amap :=
    match find_method name ms with
    | Some mt =>
        match bind_params (mm_params mt) vs with
        | Some env =>
            match run_stmts (fun _ _ _ => None) [] [] (mm_body mt) m env with
            | MNorm m' _ => Some m'
            | MRet m' [] => Some m'
            | _ => None
            end
        | None => None
        end
    | None => None
    end.

  (* one call of an API method: the map afterwards and the results *)
  Definition run_method (ms : list mmethod) (cbs : cbenv) (ord : list K) (name : string) (vs : list mval) (m : amap)
    : option (amap * list mval) :=
    match find_method name ms with
    | Some mt =>
        match bind_params (mm_params mt) vs with
        | Some env =>
            match run_stmts (run_leaf ms) cbs ord (mm_body mt) m env with
            | MNorm m' _ => Some (m', [])
            | MRet m' rs => Some (m', rs)
            | MStuck => None
            end
        | None => None
        end
    | None => None
    end.

  Definition ctor_map (c : mctor) : amap := match c with CtorEmptyMap => [] end.

  (* ---- the callbacks the correlator and the readiness code hand to Iterate / WithLockedValueDo, as functions ---- *)

  (* Iterate(func(k, v) bool { ... }) with a callback that computes [f k v m] *)
  Definition iter_cb (f : K -> V -> amap -> amap * bool) : cbfun :=
    fun vs m => match vs with
                | [VKey k; VVal (Some v)] => let '(m', b) := f k v m in Some (m', VBool b)
                | _ => None
                end.

  (* WithLockedValueDo(key, func(v) error { ... }) *)
  Definition value_cb (f : V -> amap -> amap * option E) : cbfun :=
    fun vs m => match vs with
                | [VVal (Some v)] => let '(m', e) := f v m in Some (m', VErr e)
                | _ => None
                end.

  (* the iteration as a plain function *)
  Fixpoint iter (f : K -> V -> amap -> amap * bool) (ord : list K) (m : amap) : amap :=
    match ord with
    | [] => m
    | k :: r =>
        match aget eqb k m with
        | None => iter f r m
        | Some v => let '(m', b) := f k v m in if b then iter f r m' else m'
        end
    end.
End Interp.

Arguments VKey {K V E}. Arguments VVal {K V E}. Arguments VBool {K V E}. Arguments VLen {K V E}.
Arguments VErr {K V E}. Arguments VCb {K V E}.
