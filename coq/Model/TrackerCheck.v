(* Correspondence check for the correlator: compact observation format written by
   harness/tracker, and the boolean comparison of model steps against observed steps.
   (Coq elaborates literals slowly, about 20 KB/s, so observations are kept compact:
   logins and audit events are tables, everything else refers to them by index.) *)
From Coq Require Import List Bool Arith ZArith NArith.
Import ListNotations.
From AM Require Import Lib.Assoc Model.Tracker.

(* operation: login by table index / audit event by table index and time / cleanups *)
Inductive cop := CL (lid : nat) | CA (eid : nat) (now : Z) | CS (t : Z) | CG (t : Z).

(* session as observed: id, added, pid, login id + 1 (0 = no login), ids of held events *)
Definition csess := (N * Z * Z * nat * list nat)%type.

Record cstep := CStep {
  c_op : cop;
  c_sess : list csess;
  c_parked : list (Z * nat);      (* pid, login id *)
  c_wb : nat;                     (* 0 = writer never fails, S k = k writes left *)
  c_out : list (nat * nat);       (* login id, event id *)
  c_res : nat                     (* 0 ok, 1 validate, 2 write, 3 pid *)
}.

(* login table row: pid, logged-at, valid;  event table row: session code, type code, pid *)
Definition lrow := (Z * Z * bool)%type.
Definition erow := (Z * nat * option Z)%type.
(* session code: -1 = "", -2 = "unset", n >= 0 = SId n.  type code: 0 LOGIN, 1 CRED_DISP, S (S n) = other n *)

Record ccase := CCase { cc_wb : nat; cc_logins : list lrow; cc_events : list erow; cc_steps : list cstep }.

Definition dec_wb (n : nat) : option nat := match n with 0 => None | S k => Some k end.

Definition dec_login (t : list lrow) (i : nat) : option login :=
  match nth_error t i with
  | Some (p, a, v) => Some {| l_id := i; l_pid := p; l_at := a; l_valid := v |}
  | None => None
  end.

Definition dec_ses (z : Z) : ses :=
  if (z =? -1)%Z then SNone else if (z =? -2)%Z then SUnset else SId (Z.to_N z).

Definition dec_type (n : nat) : atype :=
  match n with 0 => TLogin | 1 => TCredDisp | S (S k) => TOther k end.

Definition dec_event (t : list erow) (i : nat) : option aev :=
  match nth_error t i with
  | Some (s, ty, p) => Some {| a_id := i; a_ses := dec_ses s; a_type := dec_type ty; a_pid := p |}
  | None => None
  end.

Definition dec_op (c : ccase) (o : cop) : option top :=
  match o with
  | CL i => option_map (fun l => RemoteLogin l 0) (dec_login (cc_logins c) i)
  | CA i now => option_map (fun e => Audit e now) (dec_event (cc_events c) i)
  | CS t => Some (CleanSess t)
  | CG t => Some (CleanLogins t)
  end.

Definition with_choice (o : top) (c : nat) : top :=
  match o with RemoteLogin l _ => RemoteLogin l c | _ => o end.

Definition n_choices (st : tstate) (o : top) : nat :=
  match o with
  | RemoteLogin l _ => Nat.max 1 (length (candidates (l_pid l) (sess st)))
  | _ => 1
  end.

(* projection of the model state to the observable form *)
Definition proj_user (su : N * user) : csess :=
  (fst su, u_added (snd su), u_pid (snd su),
   match u_login (snd su) with Some l => S (l_id l) | None => 0 end,
   map a_id (u_cached (snd su))).

Fixpoint list_eqb {A} (f : A -> A -> bool) (a b : list A) : bool :=
  match a, b with
  | [], [] => true
  | x :: r, y :: r' => f x y && list_eqb f r r'
  | _, _ => false
  end.

Definition csess_eqb (a b : csess) : bool :=
  let '(s1, ad1, p1, l1, c1) := a in let '(s2, ad2, p2, l2, c2) := b in
  N.eqb s1 s2 && Z.eqb ad1 ad2 && Z.eqb p1 p2 && Nat.eqb l1 l2 && list_eqb Nat.eqb c1 c2.

Definition csid (a : csess) : N := let '(s, _, _, _, _) := a in s.

(* maps are compared as sets of bindings (iteration order is not observable) *)
Definition sess_sub (a b : list csess) : bool :=
  forallb (fun x => existsb (fun y => csess_eqb x y) b) a.
Definition sess_eqb (a b : list csess) : bool :=
  Nat.eqb (length a) (length b) && sess_sub a b && sess_sub b a.

Definition parked_sub (a b : list (Z * nat)) : bool :=
  forallb (fun x => existsb (fun y => Z.eqb (fst x) (fst y) && Nat.eqb (snd x) (snd y)) b) a.
Definition parked_eqb (a b : list (Z * nat)) : bool :=
  Nat.eqb (length a) (length b) && parked_sub a b && parked_sub b a.

Definition enc_wb (b : option nat) : nat := match b with None => 0 | Some k => S k end.
Definition enc_res (r : tres) : nat :=
  match r with ROk => 0 | RErrValidate => 1 | RErrWrite => 2 | RErrPid => 3 end.

Definition obs_eq (x : tstate * list emitted * tres) (s : cstep) : bool :=
  let '(st, out, r) := x in
  sess_eqb (map proj_user (sess st)) (c_sess s)
  && parked_eqb (map (fun pl => (fst pl, l_id (snd pl))) (parked st)) (c_parked s)
  && Nat.eqb (enc_wb (wb st)) (c_wb s)
  && list_eqb (fun a b => Nat.eqb (fst a) (fst b) && Nat.eqb (snd a) (snd b))
       (map (fun e => (l_id (fst e), a_id (snd e))) out) (c_out s)
  && Nat.eqb (enc_res r) (c_res s).

(* The observed step corresponds to the model if SOME scan order of RemoteLogin does;
   the run continues from the model state of that choice.  Result: None = all steps
   correspond, Some i = step i is the first that does not. *)
Fixpoint check_steps (c : ccase) (st : tstate) (i : nat) (steps : list cstep) : option nat :=
  match steps with
  | [] => None
  | s :: r =>
      match dec_op c (c_op s) with
      | None => Some i
      | Some o =>
          match find (fun ch => obs_eq (tstep st (with_choice o ch)) s) (seq 0 (n_choices st o)) with
          | Some ch => let '(st', _, _) := tstep st (with_choice o ch) in check_steps c st' (S i) r
          | None => Some i
          end
      end
  end.

Definition case_ok (c : ccase) : bool :=
  match check_steps c (tinit (dec_wb (cc_wb c))) 0 (cc_steps c) with None => true | Some _ => false end.

Fixpoint mism_from {A} (f : A -> bool) (i : nat) (cs : list A) : list nat :=
  match cs with
  | [] => []
  | c :: r => if f c then mism_from f (S i) r else i :: mism_from f (S i) r
  end.

Definition mismatches (cs : list ccase) : list nat := mism_from case_ok 0 cs.

(* for diagnostics: index of the first non-corresponding step of each mismatching case *)
Definition first_bad (cs : list ccase) : list (nat * nat) :=
  flat_map (fun ic => match check_steps (snd ic) (tinit (dec_wb (cc_wb (snd ic)))) 0 (cc_steps (snd ic)) with
                      | None => [] | Some k => [(fst ic, k)] end)
           (combine (seq 0 (length cs)) cs).
