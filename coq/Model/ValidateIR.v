(* RemoteUserLogin.Validate (internal/common/login.go) as a list of checks and its interpreter.  Definitions only.
   The program is GENERATED (Gen/LoginValidate.v, by tools/go2v/validategen.go); Proofs/ValidateTie.v proves
   that it accepts exactly the logins Model/Tracker.v's [validate] accepts. *)
From Coq Require Import List Bool ZArith.
Import ListNotations.
Open Scope Z_scope.

Inductive vcheck :=
| VSourceNil            (* if o.Source == nil     { return &RemoteUserLoginValidateError{...} } *)
| VCredEmpty            (* if o.CredUserID == ""  { return ... } *)
| VPidLe (n : Z)        (* if o.PID <= n          { return ... } *)
| VPidLt (n : Z)        (* if o.PID <  n          { return ... } *)
| VPidEq (n : Z).       (* if o.PID == n          { return ... } *)

Definition vprog := list vcheck.

(* what Validate looks at: is Source nil, the PID, is CredUserID empty *)
Record vlogin := { v_source_nil : bool; v_pid : Z; v_cred_empty : bool }.

Definition check_fails (c : vcheck) (l : vlogin) : bool :=
  match c with
  | VSourceNil => v_source_nil l
  | VCredEmpty => v_cred_empty l
  | VPidLe n => v_pid l <=? n
  | VPidLt n => v_pid l <? n
  | VPidEq n => v_pid l =? n
  end.

(* true = Validate returns nil *)
Fixpoint run_validate (p : vprog) (l : vlogin) : bool :=
  match p with
  | [] => true
  | c :: r => if check_fails c l then false else run_validate r l
  end.
