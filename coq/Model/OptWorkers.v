(* The optional workers of cmd/cmd.go — handleMetricsAndHealth (HTTP server with /metrics and /readyz) and
   handleAuditLogMetrics (audit.log age ticker) — as a small statement language, and what they do under a given
   valuation of the command-line flags.  Definitions only.  The programs are GENERATED (Gen/OptWorkers.v, by
   tools/go2v/optworkersgen.go); Proofs/OptWorkersTie.v states, for EVERY valuation of the flags, which endpoints are
   registered with which handler, which goroutines are handed to the errgroup and how each ends.
   Expressions are those of Model/WorkerWiring.v. *)
From Coq Require Import String List Bool ZArith.
Import ListNotations.
From AM Require Import Model.WorkerWiring.
Open Scope string_scope.

Inductive ocond :=
| CFlag (f : string)                 (* mc.<f> *)
| CNot (c : ocond)
| COr (a b : ocond)
| CAnd (a b : ocond).

Inductive ostmt :=
| OSet (lhs : list string) (e : wexp)
| OCall (e : wexp)                                   (* a call statement *)
| OIf (c : ocond) (body : list ostmt)                (* if <flags> { body } *)
| OGo (body : list ostmt)                            (* eg.Go(func() error { body }) *)
| OWaitDone                                          (* <-ctx.Done() *)
| OIfErrReturnIt (e : wexp)                          (* if err := e; err != nil { return err } *)
| OIfErr (x : string) (body : list ostmt)            (* if x != nil { body } *)
| OIfData (cond : string) (th el : list ostmt)       (* a condition on data (not on flags), both branches *)
| OReturn (e : wexp)
| OReturnVoid
| ODefer (e : wexp)
| OContinue
| OLoopSelect (arms : list (option string * list ostmt)).   (* for { select { arms } }; None: case <-ctx.Done() *)

Definition ArmRecv (ch : string) (body : list ostmt) : option string * list ostmt := (Some ch, body).
Definition ArmDone (body : list ostmt) : option string * list ostmt := (None, body).

Record ofunc := mkOFunc { of_params : list (string * string); of_body : list ostmt }.

Definition flags := string -> bool.

Fixpoint eval_cond (fl : flags) (c : ocond) : bool :=
  match c with
  | CFlag f => fl f
  | CNot a => negb (eval_cond fl a)
  | COr a b => eval_cond fl a || eval_cond fl b
  | CAnd a b => eval_cond fl a && eval_cond fl b
  end.

(* what the function does before it returns: calls made (with the function's locals substituted) and goroutines
   handed to the errgroup, in order *)
Inductive oeff :=
| ECall (e : wexp)
| EGo (body : list ostmt).

(* substitution of the function's own locals inside a goroutine body (one level of nesting is all cmd.go has) *)
Definition subst_stmt_flat (env : list (string * wexp)) (s : ostmt) : ostmt :=
  match s with
  | OSet l e => OSet l (subst env e)
  | OCall e => OCall (subst env e)
  | OIfErrReturnIt e => OIfErrReturnIt (subst env e)
  | OReturn e => OReturn (subst env e)
  | ODefer e => ODefer (subst env e)
  | other => other
  end.

(* fuel: nesting depth of flag conditions (statement lists are finite; OIf bodies are strictly smaller) *)
Fixpoint run_top (fuel : nat) (fl : flags) (env : list (string * wexp)) (b : list ostmt)
  : option (list oeff * list (string * wexp) * bool) :=       (* effects, env, returned? *)
  match fuel with
  | O => None
  | S fuel' =>
      match b with
      | [] => Some ([], env, false)
      | s :: r =>
          match s with
          | OSet lhs e =>
              match run_top fuel' fl (bind lhs (subst env e) env) r with
              | Some (effs, env', ret) => Some (effs, env', ret)
              | None => None
              end
          | OCall e =>
              match run_top fuel' fl env r with
              | Some (effs, env', ret) => Some (ECall (subst env e) :: effs, env', ret)
              | None => None
              end
          | OGo body =>
              match run_top fuel' fl env r with
              | Some (effs, env', ret) => Some (EGo (map (subst_stmt_flat env) body) :: effs, env', ret)
              | None => None
              end
          | OIf c body =>
              if eval_cond fl c then
                match run_top fuel' fl env body with
                | Some (e1, env1, retd) =>
                    if retd then Some (e1, env1, true) else
                    match run_top fuel' fl env1 r with
                    | Some (e2, env2, ret) => Some ((e1 ++ e2)%list, env2, ret)
                    | None => None
                    end
                | None => None
                end
              else run_top fuel' fl env r
          | OReturnVoid => Some ([], env, true)
          | _ => None                                       (* anything else at the top level has no meaning here *)
          end
      end
  end.

Definition effects (fl : flags) (f : ofunc) : option (list oeff) :=
  match run_top 64 fl [] (of_body f) with
  | Some (effs, _, _) => Some effs
  | None => None
  end.

Definition handles (effs : list oeff) : list (wexp * wexp) :=
  flat_map (fun e => match e with
                     | ECall (WCall "http.Handle" [p; h]) => [(p, h)]
                     | _ => []
                     end) effs.

Definition goroutines (effs : list oeff) : list (list ostmt) :=
  flat_map (fun e => match e with EGo b => [b] | _ => [] end) effs.

Definition other_calls (effs : list oeff) : list wexp :=
  flat_map (fun e => match e with
                     | ECall (WCall "http.Handle" [_; _]) => []
                     | ECall x => [x]
                     | _ => []
                     end) effs.

(* ---- how a goroutine ends ---- *)

(* statements that cannot block and cannot leave the goroutine *)
Fixpoint passive (s : ostmt) : bool :=
  match s with
  | OSet _ _ | OCall _ | ODefer _ | OContinue => true
  | OIfErr _ body => forallb passive body
  | OIfData _ th el => forallb passive th && forallb passive el
  | _ => false
  end.

Definition ends_with_return (b : list ostmt) : bool :=
  match rev b with OReturn _ :: _ => true | _ => false end.

(* for { select { ...; case <-ctx.Done(): ...; return e } }: every other arm runs passive statements only, so the
   loop is back in its select after finitely many steps, and the Done arm leaves the goroutine *)
Definition loop_stops_on_done (arms : list (option string * list ostmt)) : bool :=
  existsb (fun a => match a with (None, body) => ends_with_return body && forallb passive (removelast body) | _ => false end) arms &&
  forallb (fun a => match a with (Some _, body) => forallb passive body | (None, _) => true end) arms.

(* a goroutine of the form  <passive>*; for { select {..} }  that stops on cancellation *)
Fixpoint is_ticker_loop (b : list ostmt) : bool :=
  match b with
  | [OLoopSelect arms] => loop_stops_on_done arms
  | s :: r => passive s && is_ticker_loop r
  | [] => false
  end.
