(* Lock-granularity model of concurrent use of the correlator (C03).

   Every API call is a program of ATOMIC BLOCKS: one block per critical section of a
   GenericSyncMap method (Iterate, Load, Store, Has, WithLockedValueDo), exactly as
   sessiontracker.go is written.  Between two blocks of one call, blocks of other threads
   may run.  If the correlator additionally holds one mutex across each call
   ([locked] = true: GENERATED from the source, Gen/TrackerLocks.v), a thread that has begun a
   call owns the correlator until the call returns.

   Definitions only; proofs in Proofs/TrackerConcLemmas.v. *)
From Coq Require Import List Bool Arith ZArith NArith.
Import ListNotations.
From AM Require Import Lib.Assoc Model.Tracker.

(* the rest of a call: finished with a result, or one more atomic block *)
Inductive cont :=
| Done (r : tres)
| More (f : tstate -> tstate * list emitted * cont).

Definition park (st : tstate) (l : login) : tstate :=
  {| sess := sess st; parked := aset Z.eqb (l_pid l) l (parked st); wb := wb st |}.

(* RemoteLogin = [Iterate sessions] ; [Load parked] ; [Store parked] *)
Definition login_prog (l : login) (choice : nat) : cont :=
  if negb (validate l) then Done RErrValidate else
  More (fun st =>
    match pick choice (candidates (l_pid l) (sess st)) with
    | Some _ => let '(st', out, r) := remote_login st l choice in (st', out, Done r)
    | None =>
        (st, [], More (fun st1 => (st1, [],              (* Load: only a warning *)
                 More (fun st2 => (park st2 l, [], Done ROk)))))
    end).

(* AuditdEvent = [Has sessions] ; ( [WithLockedValueDo sessions]
                                 | [Has parked] ; ( [WithLockedValueDo parked {Store sessions; write}]
                                                  | [Store sessions] ) ) *)
Definition audit_prog (ev : aev) (now : Z) : cont :=
  match a_ses ev with
  | SNone | SUnset => Done ROk
  | SId s =>
      More (fun st =>
        if ahas N.eqb s (sess st) then
          (st, [], More (fun st1 =>
             match aget N.eqb s (sess st1) with
             | Some u => let '(st', out, r) := audit_with_session st1 s u ev in (st', out, Done r)
             | None => (st1, [], Done ROk)                 (* the key vanished meanwhile *)
             end))
        else
          (st, [],
           if negb (is_login (a_type ev)) then Done ROk else
           match a_pid ev with
           | None => Done RErrPid
           | Some p =>
               More (fun st1 =>
                 if ahas Z.eqb p (parked st1) then
                   (st1, [], More (fun st2 =>
                      match aget Z.eqb p (parked st2) with
                      | Some _ => let '(st', out, r) := audit_without_session st2 s ev now in (st', out, Done r)
                      | None => (st2, [], Done ROk)          (* the login vanished meanwhile: nothing stored *)
                      end))
                 else
                   (st1, [], More (fun st2 =>
                      let u := {| u_added := now; u_pid := p; u_login := None; u_cached := [ev] |} in
                      ({| sess := aset N.eqb s u (sess st2); parked := parked st2; wb := wb st2 |}, [], Done ROk))))
           end))
  end.

Definition prog_of (o : top) : cont :=
  match o with
  | RemoteLogin l c => login_prog l c
  | Audit ev now => audit_prog ev now
  | CleanSess t => More (fun st => (clean_sess st t, [], Done ROk))
  | CleanLogins t => More (fun st => (clean_logins st t, [], Done ROk))
  end.

(* run the remaining blocks of a call without interruption *)
Fixpoint finish (k : cont) (st : tstate) : tstate * list emitted * tres :=
  match k with
  | Done r => (st, [], r)
  | More f => let '(st1, o1, k1) := f st in
              let '(st2, o2, r) := finish k1 st1 in (st2, o1 ++ o2, r)
  end.

(* ---------- threads and schedules ---------- *)

Record thread := { t_cur : option cont; t_todo : list top; t_res : list tres }.

Record sys := {
  s_state : tstate;
  s_out : list emitted;
  s_threads : list thread;
  s_owner : option nat;          (* thread holding the correlator-wide mutex, if any *)
  s_order : list (nat * top)     (* calls in the order they began (linearization witness) *)
}.

Definition mk_thread (ops : list top) : thread := {| t_cur := None; t_todo := ops; t_res := [] |}.

Definition init_sys (progs : list (list top)) : sys :=
  {| s_state := tinit None; s_out := []; s_threads := map mk_thread progs; s_owner := None; s_order := [] |}.

Fixpoint set_nth {A} (n : nat) (x : A) (l : list A) : list A :=
  match l, n with
  | [], _ => []
  | _ :: r, 0 => x :: r
  | y :: r, S n' => y :: set_nth n' x r
  end.

(* one scheduling step of thread i; [locked] = calls are critical sections of one mutex *)
Definition sched_step (locked : bool) (s : sys) (i : nat) : sys :=
  match nth_error (s_threads s) i with
  | None => s
  | Some th =>
      let blocked := locked && match s_owner s with Some j => negb (Nat.eqb i j) | None => false end in
      if blocked then s else
      match t_cur th with
      | None =>
          match t_todo th with
          | [] => s
          | o :: rest =>
              (* begin the next call: (with the mutex: acquire it) *)
              {| s_state := s_state s; s_out := s_out s;
                 s_threads := set_nth i {| t_cur := Some (prog_of o); t_todo := rest; t_res := t_res th |} (s_threads s);
                 s_owner := if locked then Some i else s_owner s;
                 s_order := s_order s ++ [(i, o)] |}
          end
      | Some (Done r) =>
          (* return from the call (release the mutex) *)
          {| s_state := s_state s; s_out := s_out s;
             s_threads := set_nth i {| t_cur := None; t_todo := t_todo th; t_res := t_res th ++ [r] |} (s_threads s);
             s_owner := if locked then None else s_owner s;
             s_order := s_order s |}
      | Some (More f) =>
          let '(st', out, k) := f (s_state s) in
          {| s_state := st'; s_out := s_out s ++ out;
             s_threads := set_nth i {| t_cur := Some k; t_todo := t_todo th; t_res := t_res th |} (s_threads s);
             s_owner := s_owner s; s_order := s_order s |}
      end
  end.

Definition exec (locked : bool) (progs : list (list top)) (sched : list nat) : sys :=
  fold_left (sched_step locked) sched (init_sys progs).

Definition thread_done (th : thread) : bool :=
  match t_cur th, t_todo th with None, [] => true | _, _ => false end.

Definition all_done (s : sys) : bool := forallb thread_done (s_threads s).

(* sequential reference: the calls of [order] one after the other *)
Definition seq_run (order : list (nat * top)) : tstate * list emitted := trun (tinit None) (map snd order).

(* the calls thread i makes in [order] *)
Definition calls_of (i : nat) (order : list (nat * top)) : list top :=
  map snd (filter (fun x => Nat.eqb (fst x) i) order).
