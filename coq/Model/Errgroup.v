(* golang.org/x/sync/errgroup v0.4.0 (the version /repo/go.mod pins) with the derived context of
   errgroup.WithContext, as a concurrent small-step machine.  Definitions only; proofs are in
   Proofs/ErrgroupLemmas.v (the machine) and Proofs/ErrgroupWorkers.v (refinement to Model/Workers.v).

   The source (errgroup.go; go120.go: withCancelCause = context.WithCancelCause):

       type Group struct { cancel func(error); wg sync.WaitGroup; sem chan token; errOnce sync.Once; err error }
       func WithContext(ctx) (g *Group, derived Context) { ctx, cancel := withCancelCause(ctx); return &Group{cancel: cancel}, ctx }
       func (g *Group) Go(f func() error) {
           g.wg.Add(1)
           go func() {
               defer g.done()                              // g.wg.Done()
               if err := f(); err != nil {
                   g.errOnce.Do(func() { g.err = err; if g.cancel != nil { g.cancel(g.err) } })
               }
           }()
       }
       func (g *Group) Wait() error { g.wg.Wait(); if g.cancel != nil { g.cancel(g.err) }; return g.err }

   NOT modelled: SetLimit / TryGo and the semaphore g.sem (not used by /repo: g.sem = nil, both
   `if g.sem != nil` branches are dead); a zero Group (g.cancel = nil: /repo always uses WithContext).

   Threads.  The CALLER runs  Go f_0; ...; Go f_(n-1); Wait  (each Go = wg.Add(1), then the go statement).
   Goroutine i runs the closure above.  Every shared-memory access / synchronisation operation is ONE atomic step:
   wg.Add, the go statement, f's return, the entry of errOnce.Do, `g.err = err`, `g.cancel(g.err)`, the return of
   errOnce.Do (Once marked done and released), wg.Done, wg.Wait's test, Wait's cancel, Wait's read of g.err.
   The worker function f_i is the environment: the step "f_i returns its scripted result" is a schedule item of
   its own (TF i), not subject to fairness; a script entry with [w_wait] says that f_i returns only after the
   group context is done (it then returns ctx.Err()).  The parent context may be cancelled from outside at any
   step (TX: a signal).  context.WithCancelCause: the FIRST cancellation wins and its cause is recorded.
   sync.Once.Do blocks every other caller until the first call has completed.

   A schedule is a list of [tid]; a disabled item (blocked thread, finished thread, thread that does not exist
   yet) is skipped: [act] = None.  Executions are the prefixes of schedules: [exec sc sched]. *)
From Coq Require Import List Bool Arith.
Import ListNotations.

(* error values are identified by numbers; nil is None *)
Record wspec := mkW { w_wait : bool; w_res : option nat }.
Definition script := list wspec.

(* cause recorded in the derived context: cancel(err) with err non-nil | cancel(nil), i.e. context.Canceled |
   the parent was cancelled (cause: the parent's) *)
Inductive cause := CErr (e : nat) | CNil | CParent.

Inductive once := ONew | ORun (i : nat) | ODone.

(* program counter of goroutine i *)
Inductive gpc :=
| GNot                      (* not started yet *)
| GF                        (* inside f() *)
| GOnce (e : nat)           (* f returned the non-nil error e; about to call g.errOnce.Do *)
| GB1 (e : nat)             (* inside the Once body, about to execute g.err = err *)
| GB2 (e : nat)             (* about to execute g.cancel(g.err) *)
| GBX (e : nat)             (* body returned; about to mark the Once done and release it *)
| GDefer (r : option nat)   (* about to run the deferred g.done(): wg.Done(); r = what f returned *)
| GExit (r : option nat)    (* goroutine finished *)
| GPanic.                   (* wg.Done() on a zero counter: "sync: negative WaitGroup counter" *)

(* program counter of the caller *)
Inductive cpc :=
| CAdd (i : nat)            (* in Go f_i: about to wg.Add(1) *)
| CSpawn (i : nat)          (* in Go f_i: about to execute the go statement *)
| CWait                     (* in Wait: inside wg.Wait() *)
| CCancel                   (* in Wait: about to execute g.cancel(g.err) *)
| CRet                      (* in Wait: about to execute return g.err *)
| CDone (r : option nat).   (* Wait has returned r *)

Inductive tid := TC | TG (i : nat) | TF (i : nat) | TX.

Inductive event :=
| EvAdd (i : nat) | EvSpawn (i : nat)
| EvRet (i : nat) (r : option nat)        (* f_i returned r *)
| EvEnter (i : nat)                       (* goroutine i entered the Once body (it "won" the Once) *)
| EvSkip (i : nat)                        (* errOnce.Do returned at once: the Once was done *)
| EvWrite (i : nat) (e : nat)             (* g.err = e *)
| EvCancel (i : nat) (v : option nat)     (* g.cancel(g.err), g.err read as v *)
| EvLeave (i : nat)                       (* Once marked done *)
| EvDone (i : nat)                        (* wg.Done() *)
| EvPanic (i : nat)
| EvWaitPass                              (* wg.Wait() observed the counter at 0 *)
| EvWaitCancel (v : option nat)           (* Wait's g.cancel(g.err), g.err read as v *)
| EvWaitRet (v : option nat)              (* Wait's return g.err, g.err read as v *)
| EvExt.                                  (* the parent context was cancelled *)

Record st := mkSt {
  s_err : option nat;         (* g.err *)
  s_once : once;              (* g.errOnce *)
  s_cnt : nat;                (* counter of g.wg *)
  s_ctx : option cause;       (* the derived context: None = live *)
  s_c : cpc;
  s_g : nat -> gpc
}.

Definition gupd (g : nat -> gpc) (i : nat) (p : gpc) : nat -> gpc := fun j => if Nat.eqb j i then p else g j.

Definition cause_of (v : option nat) : cause := match v with Some e => CErr e | None => CNil end.

(* cancel of a cancelCtx: only the first call has an effect *)
Definition do_cancel (c : option cause) (k : cause) : option cause :=
  match c with None => Some k | Some _ => c end.

Definition is_some {A} (o : option A) : bool := match o with Some _ => true | None => false end.

Definition next_c (sc : script) (i : nat) : cpc := if Nat.ltb i (length sc) then CAdd i else CWait.

Definition after_f (r : option nat) : gpc := match r with Some e => GOnce e | None => GDefer None end.

Definition init (sc : script) : st := mkSt None ONew 0 None (next_c sc 0) (fun _ => GNot).

(* one step of thread t: the event and the new state, or None when t is disabled *)
Definition act (sc : script) (s : st) (t : tid) : option (event * st) :=
  match t with
  | TX =>
      match s_ctx s with
      | None => Some (EvExt, mkSt (s_err s) (s_once s) (s_cnt s) (Some CParent) (s_c s) (s_g s))
      | Some _ => None
      end
  | TC =>
      match s_c s with
      | CAdd i => Some (EvAdd i, mkSt (s_err s) (s_once s) (S (s_cnt s)) (s_ctx s) (CSpawn i) (s_g s))
      | CSpawn i => Some (EvSpawn i, mkSt (s_err s) (s_once s) (s_cnt s) (s_ctx s) (next_c sc (S i)) (gupd (s_g s) i GF))
      | CWait => if Nat.eqb (s_cnt s) 0
                 then Some (EvWaitPass, mkSt (s_err s) (s_once s) (s_cnt s) (s_ctx s) CCancel (s_g s))
                 else None
      | CCancel => Some (EvWaitCancel (s_err s),
                         mkSt (s_err s) (s_once s) (s_cnt s) (do_cancel (s_ctx s) (cause_of (s_err s))) CRet (s_g s))
      | CRet => Some (EvWaitRet (s_err s), mkSt (s_err s) (s_once s) (s_cnt s) (s_ctx s) (CDone (s_err s)) (s_g s))
      | CDone _ => None
      end
  | TF i =>
      match s_g s i, nth_error sc i with
      | GF, Some w =>
          if w_wait w && negb (is_some (s_ctx s)) then None
          else Some (EvRet i (w_res w),
                     mkSt (s_err s) (s_once s) (s_cnt s) (s_ctx s) (s_c s) (gupd (s_g s) i (after_f (w_res w))))
      | _, _ => None
      end
  | TG i =>
      match s_g s i with
      | GNot | GF | GExit _ | GPanic => None
      | GOnce e =>
          match s_once s with
          | ONew => Some (EvEnter i, mkSt (s_err s) (ORun i) (s_cnt s) (s_ctx s) (s_c s) (gupd (s_g s) i (GB1 e)))
          | ORun _ => None
          | ODone => Some (EvSkip i, mkSt (s_err s) (s_once s) (s_cnt s) (s_ctx s) (s_c s) (gupd (s_g s) i (GDefer (Some e))))
          end
      | GB1 e => Some (EvWrite i e, mkSt (Some e) (s_once s) (s_cnt s) (s_ctx s) (s_c s) (gupd (s_g s) i (GB2 e)))
      | GB2 e => Some (EvCancel i (s_err s),
                       mkSt (s_err s) (s_once s) (s_cnt s) (do_cancel (s_ctx s) (cause_of (s_err s))) (s_c s)
                            (gupd (s_g s) i (GBX e)))
      | GBX e => Some (EvLeave i, mkSt (s_err s) ODone (s_cnt s) (s_ctx s) (s_c s) (gupd (s_g s) i (GDefer (Some e))))
      | GDefer r =>
          match s_cnt s with
          | 0 => Some (EvPanic i, mkSt (s_err s) (s_once s) 0 (s_ctx s) (s_c s) (gupd (s_g s) i GPanic))
          | S c => Some (EvDone i, mkSt (s_err s) (s_once s) c (s_ctx s) (s_c s) (gupd (s_g s) i (GExit r)))
          end
      end
  end.

(* configurations carry the trace (newest event first) as a ghost component *)
Definition cfg := (st * list event)%type.

Definition step (sc : script) (c : cfg) (t : tid) : cfg :=
  match act sc (fst c) t with
  | Some (e, s') => (s', e :: snd c)
  | None => c
  end.

Definition run (sc : script) (c : cfg) (sched : list tid) : cfg := fold_left (step sc) sched c.

Definition exec (sc : script) (sched : list tid) : cfg := run sc (init sc, []) sched.

(* ---- observations ---- *)

(* what f_i returned, as far as the program counter remembers it *)
Definition g_ret (p : gpc) : option (option nat) :=
  match p with
  | GNot | GF | GPanic => None
  | GOnce e | GB1 e | GB2 e | GBX e => Some (Some e)
  | GDefer r | GExit r => Some r
  end.

Definition is_exit (p : gpc) : bool := match p with GExit _ => true | _ => false end.

Definition wait_result (s : st) : option (option nat) := match s_c s with CDone r => Some r | _ => None end.

Definition passed_wait (c : cpc) : bool := match c with CCancel | CRet | CDone _ => true | _ => false end.

(* FAIRNESS: a round is a schedule segment in which the caller and every goroutine of the group occur at least
   once (any order, any repetitions, any environment events TF / TX in between) *)
Definition efair (sc : script) (seg : list tid) : Prop :=
  In TC seg /\ forall i, i < length sc -> In (TG i) seg.

Inductive erounds (sc : script) : nat -> cfg -> cfg -> Prop :=
| R0 : forall c, erounds sc 0 c c
| RS : forall n c seg c', efair sc seg -> erounds sc n (run sc c seg) c' -> erounds sc (S n) c c'.

(* ---- orderings on a trace (newest event first: the tail of the list is the past) ---- *)

(* every occurrence of b in the trace has a past that satisfies P *)
Definition each_occ (b : event) (P : list event -> Prop) (tr : list event) : Prop :=
  forall l1 l2, tr = l1 ++ b :: l2 -> P l2.

(* every occurrence of b has an a before it *)
Definition precedes (a b : event) (tr : list event) : Prop :=
  forall l1 l2, tr = l1 ++ b :: l2 -> In a l2.

(* no b occurs before an occurrence of a *)
Definition never_before (b a : event) (tr : list event) : Prop :=
  forall l1 l2, tr = l1 ++ a :: l2 -> ~ In b l2.

Definition is_enter (e : event) : bool := match e with EvEnter _ => true | _ => false end.
Definition is_write (e : event) : bool := match e with EvWrite _ _ => true | _ => false end.
Definition is_read (e : event) : bool := match e with EvWaitCancel _ | EvWaitRet _ => true | _ => false end.
