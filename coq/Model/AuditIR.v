(* A small deep-embedded IR for the audit processor and its interpreter.  Definitions only.
     processors/auditd/auditd.go                 Auditd.Read, maintainReassemblerLoop, parseAuditLogs
     processors/auditd/reassembler_callback.go   reassemblerCB.ReassemblyComplete, reassemblerCB.EventsLost
   The programs are GENERATED (Gen/AuditProg.v, by tools/go2v/auditgen.go); Proofs/AuditIRTie.v proves
   that interpreting them gives Model/AuditProc.v's [deliver], [on_line] / [parse_loop], [step] / [poll],
   [shutdown] and [read].

   One statement language for the five functions (a function is a receiver name, parameter names and a
   statement list, in source order).  Names are resolved at run time through an environment: a local
   variable denotes a piece of data (a line, a message, a group, an event, an error value, a login, a time)
   or an object (the context, the lines channel, the reassembler, the tracker, a channel made with make, a
   ticker, the receiver).  Nothing in the interpreter looks at what a variable is CALLED; what matters is
   what it was bound to.

   ORACLES: the same as Model/AuditProc.v's Section Processor ([is_empty], [parse], [coalesce], [old],
   [audit], [rlogin], the reassembler as [rstep]) plus three that the hand-written model has no use for:
   [csess], [clogins] (the correlator's two cleanups, as functions on its state and a time value [tmv]) and
   [dur] (a Go duration in nanoseconds expressed in the unit the reassembler's clock readings come in).

   STATED CONTRACTS of library calls:
   - aucoalesce.ResolveIDs mutates the event in place; the oracle [audit] stands for AuditdEvent applied to
     a RESOLVED event, so AuditdEvent on an event that was not resolved has no meaning here;
   - libaudit.NewReassembler succeeds for the limits given; Reassembler.Maintain fails iff the reassembler
     was closed; PushMessage/Maintain/Close are [rstep] followed by the Stream callbacks, EventsLost being
     called iff the gap is non-zero;
   - ctx.Err() is non-nil iff the context is done; a derived context is done when its parent is or when
     its cancel function was called;
   - a select without default blocks until one arm is ready and the environment chooses which ready arm
     runs (the [aevent] argument of the interpreter); a select with a default arm never blocks;
   - a channel of capacity 1 that nobody else sends on holds at most one value: the model's slot.
   [None] = the program does something the interpreter gives no meaning to. *)
From Coq Require Import String List Bool Arith ZArith NArith.
Import ListNotations.
From AM Require Import Model.AuditProc.
Open Scope string_scope.
Open Scope list_scope.

(* ---- syntax -------------------------------------------------------------------------------- *)

Inductive achan :=
| ChDone (ctx : string)              (* ctx.Done() *)
| ChVar (x : string)                 (* a channel held by a local variable or parameter *)
| ChField (recv f : string)          (* recv.f *)
| ChTick (t : string).               (* t.C *)

Inductive aerr :=
| EVar (x : string)
| ENil
| ECtxErr (ctx : string)                            (* ctx.Err() *)
| EWrap (text : string) (e : aerr)                  (* fmt.Errorf("text with exactly one verb, %w", e) *)
| EParseError (shown : list string) (inner : aerr)  (* &parseAuditLogsError{message: fmt.Sprintf(.., shown..), inner: inner} *)
| ECBError (shown : list string) (inner : aerr).    (* &reassemblerCBError{message: fmt.Sprintf(.., shown..), inner: inner} *)

Inductive adur :=
| DConst (ns : Z)                    (* a constant duration, evaluated by the translator *)
| DVar (x : string).                 (* a time.Duration parameter *)

Inductive atime :=
| TVar (x : string)
| TNowAdd (d : Z)                    (* time.Now().Add(d) *)
| TTimestamp (ev : string)           (* ev.Timestamp *)
| TField (recv f : string).          (* recv.f *)

Inductive acond :=
| CErrNotNil (x : string)            (* x != nil *)
| CStrEmpty (x : string)             (* x == "" *)
| CBefore (a b : atime)              (* a.Before(b) *)
| CAfter (a b : atime)               (* a.After(b) *)
| CNot (c : acond).

Inductive acall :=
| KCtxErr (ctx : string)             (* ctx.Err() *)
| KParseLogLine (line : string)      (* auparse.ParseLogLine(line) *)
| KCoalesce (msgs : string)          (* aucoalesce.CoalesceMessages(msgs) *)
| KAuditdEvent (recv f ev : string)  (* recv.f.AuditdEvent(ev) *)
| KRemoteLogin (tr lg : string)      (* tr.RemoteLogin(lg) *)
| KMaintain (r : string).            (* r.Maintain() *)

Inductive astmt :=
| SDefine (xs : list string) (c : acall)          (* xs := c *)
| SDefineTime (x : string) (t : atime)            (* x := t *)
| SScope (body : list astmt)                      (* the scope opened by an if with an init statement *)
| SIf (c : acond) (th el : list astmt)
| SFor (body : list astmt)                        (* for { body } *)
| SSelect (arms : list astmt)                     (* select { arms }: every element is one of the three SArm forms *)
| SArmRecv (x : option string) (ch : achan) (body : list astmt)    (* case x := <-ch: body *)
| SArmSend (ch : achan) (e : aerr) (body : list astmt)             (* case ch <- e: body *)
| SArmDefault (body : list astmt)                                  (* default: body *)
| SPush (r m : string)                            (* r.PushMessage(m) *)
| SResolveIDs (ev : string)                       (* aucoalesce.ResolveIDs(ev) *)
| SCleanSessions (tr : string) (t : atime)        (* tr.DeleteUsersWithoutLoginsBefore(t) *)
| SCleanLogins (tr : string) (t : atime)          (* tr.DeleteRemoteUserLoginsBefore(t) *)
| SLog (method : string)                          (* logger.<method>(..): arguments without effect *)
| SContinue
| SReturn (e : aerr)
| SReturnVoid
(* the set-up part of Read *)
| SMakeErrChan (x : string) (cap : nat)           (* x := make(chan error, cap) *)
| SMakeSigChan (x : string)                       (* x := make(chan struct{}) *)
| SNewTracker (x recv f : string)                 (* x := sessiontracker.NewSessionTracker(recv.f, logger) *)
| SNewReassembler (x err : string) (maxsz timeout : Z) (au errors after_recv after_f : string)
     (* x, err := libaudit.NewReassembler(maxsz, timeout, &reassemblerCB{au: au, errors: errors, after: after_recv.after_f}) *)
| SDeferClose (r : string)                        (* defer r.Close() *)
| SWithCancel (ctx' cancel parent : string)       (* ctx', cancel := context.WithCancel(parent) *)
| SDeferJoin (cancel ch : string)                 (* defer func() { cancel(); <-ch }() *)
| SGoMaintain (ctx r : string) (d : adur)         (* go maintainReassemblerLoop(ctx, r, d) *)
| SGoParser (exited done ctx recv f r : string)
     (* go func() { defer close(exited); done <- parseAuditLogs(ctx, recv.f, r) }() *)
| SNewTicker (x : string) (d : adur)              (* x := time.NewTicker(d) *)
| SDeferStop (t : string)                         (* defer t.Stop() *)
| SOnReady (component : string).                  (* <receiver>.Health.OnReady(<constant, resolved>) *)

Record afunc := {
  af_recv : option string;         (* name of the receiver *)
  af_params : list string;         (* names of the parameters *)
  af_body : list astmt
}.

(* the five generated functions *)
Record aprogs := {
  pg_read : afunc; pg_parse : afunc; pg_maintain : afunc; pg_complete : afunc; pg_lost : afunc
}.

(* what a function registered with defer / started with go *)
Inductive dact := DClose | DJoin (ch : string) | DStop.
Inductive gact := GMaintain (period : Z) | GParser (exited : string).

(* a time value: what time.Now() returned (a clock reading) shifted by a duration in nanoseconds *)
Inductive tmv := TmNowAdd (now : nat) (d : Z).

(* ---- generic helpers ------------------------------------------------------------------------ *)

Fixpoint get {A} (x : string) (l : list (string * A)) : option A :=
  match l with
  | [] => None
  | (y, v) :: r => if String.eqb y x then Some v else get x r
  end.

(* replace the binding [get] finds *)
Fixpoint upd {A} (x : string) (v : A) (l : list (string * A)) : list (string * A) :=
  match l with
  | [] => []
  | (y, w) :: r => if String.eqb y x then (y, v) :: r else (y, w) :: upd x v r
  end.

Fixpoint fold_opt {A B} (f : A -> B -> option A) (l : list B) (a : A) : option A :=
  match l with
  | [] => Some a
  | b :: r => match f a b with Some a' => fold_opt f r a' | None => None end
  end.

(* the statements before the final  for { body }  of a function, and that body *)
Fixpoint split_for (l : list astmt) : option (list astmt * list astmt) :=
  match l with
  | [] => None
  | [SFor body] => Some ([], body)
  | c :: r => match split_for r with Some (pre, body) => Some (c :: pre, body) | None => None end
  end.

Definition has_default (arms : list astmt) : bool :=
  existsb (fun a => match a with SArmDefault _ => true | _ => false end) arms.

Inductive ckind := KDone | KLines | KTick | KLogins | KParserDone | KErrors.

Definition ckind_eqb (a b : ckind) : bool :=
  match a, b with
  | KDone, KDone | KLines, KLines | KTick, KTick | KLogins, KLogins
  | KParserDone, KParserDone | KErrors, KErrors => true
  | _, _ => false
  end.

Fixpoint kinds_distinct (l : list ckind) : bool :=
  match l with
  | [] => true
  | k :: r => negb (existsb (ckind_eqb k) r) && kinds_distinct r
  end.

Section Interp.
  Variables line msg event cerr login AS : Type.
  Variable is_empty : line -> bool.
  Variable parse : line -> option msg.
  Variable mseq : msg -> N.
  Variable mtype : msg -> nat.
  Variable coalesce : list msg -> option event.
  Variable old : event -> bool.
  Variable audit : AS -> event -> AS * option cerr.
  Variable rlogin : AS -> login -> AS * option cerr.
  Variable csess clogins : AS -> tmv -> AS.
  Variable dur : Z -> nat.

  Notation cbT := (cb msg event cerr AS).
  Notation pstT := (pst line msg event cerr AS).
  Notation rerrT := (rerr msg cerr).
  Notation resultT := (result line msg cerr).
  Notation inpT := (inp line login).

  (* error values *)
  Inductive errv :=
  | XNil
  | XCtx                                  (* ctx.Err() of a context that is done *)
  | XParse                                (* the error ParseLogLine returned *)
  | XCoalesce                             (* the error CoalesceMessages returned *)
  | XCorr (c : cerr)                      (* an error the correlator returned *)
  | XClosed                               (* Maintain on a closed reassembler *)
  | XParseError (l : line) (inner : errv) (* a parseAuditLogsError whose message shows the line l *)
  | XCBError (inner : errv)               (* a reassemblerCBError *)
  | XSlot (e : rerrT)                     (* what was received from the callback's errors channel *)
  | XWrap (inner : errv).                 (* fmt.Errorf(".. %w", inner) *)

  Inductive aval :=
  (* data *)
  | VLine (l : line)
  | VMsg (m : msg) | VNoMsg
  | VGroup (g : list msg)
  | VEvent (e : event) (resolved : bool) | VNoEvent
  | VErr (e : errv)
  | VLogin (lg : login)
  | VTime (t : tmv)
  | VCount (n : N)
  | VDur (d : Z)
  (* objects *)
  | VCtx                                  (* the context parameter *)
  | VCtxDerived | VCancel                 (* the two results of context.WithCancel *)
  | VLines                                (* the channel of audit log lines *)
  | VReass                                (* the reassembler *)
  | VTracker                              (* the session tracker *)
  | VErrChan (cap : nat)                  (* a chan error made here and not yet given a role *)
  | VErrors                               (* the channel handed to the callback as its errors field *)
  | VParserDone                           (* the channel the parser goroutine sends its result on *)
  | VSigChan (id : string)                (* a chan struct{} made here *)
  | VTicker (period : Z)
  | VSelfCB                               (* the receiver of the callbacks *)
  | VSelfAuditd.                          (* the receiver of Read *)

  Inductive aevent :=
  | EvNone
  | EvCancel (at_select : bool)           (* the context is done; false: already when ctx.Err() is first asked *)
  | EvLine (now : nat) (l : line)         (* a line is received *)
  | EvLineCancelled (now : nat) (l : line)  (* the context is ALREADY done and a line is waiting: a select that is
                                             reached may take the line (Go picks among ready arms at random) *)
  | EvTick (now : nat)                    (* the ticker fires *)
  | EvLogin (lg : login)                  (* a login is received *)
  | EvParserDone                          (* the parser goroutine's result is received *)
  | EvErrors.                             (* the callback's pending error is received *)

  Inductive flow := FNext | FContinue | FReturn (e : option errv).

  Record ist := mkIst {
    i_env : list (string * aval);
    i_p : pstT;
    i_now : nat;                          (* what time.Now() returns during this step *)
    i_ev : aevent;                        (* what the blocking select of this step will receive *)
    i_cancelled : bool;                   (* the context of this goroutine is done *)
    i_closed : bool;                      (* the reassembler was closed *)
    i_lim : option (nat * nat);           (* maxInFlight, timeout of the reassembler *)
    i_group : list msg;                   (* ghost: the group ReassemblyComplete was called with *)
    i_defers : list dact;                 (* most recent first *)
    i_gos : list gact;                    (* most recent first *)
    i_ready : list string                 (* OnReady calls *)
  }.

  Definition with_env e st := mkIst e (i_p st) (i_now st) (i_ev st) (i_cancelled st) (i_closed st) (i_lim st)
                                    (i_group st) (i_defers st) (i_gos st) (i_ready st).
  Definition with_p p st := mkIst (i_env st) p (i_now st) (i_ev st) (i_cancelled st) (i_closed st) (i_lim st)
                                  (i_group st) (i_defers st) (i_gos st) (i_ready st).
  Definition with_ev ev c st := mkIst (i_env st) (i_p st) (i_now st) ev c (i_closed st) (i_lim st)
                                      (i_group st) (i_defers st) (i_gos st) (i_ready st).
  Definition with_lim l st := mkIst (i_env st) (i_p st) (i_now st) (i_ev st) (i_cancelled st) (i_closed st) l
                                    (i_group st) (i_defers st) (i_gos st) (i_ready st).
  Definition push_defer d st := mkIst (i_env st) (i_p st) (i_now st) (i_ev st) (i_cancelled st) (i_closed st) (i_lim st)
                                      (i_group st) (d :: i_defers st) (i_gos st) (i_ready st).
  Definition push_go g st := mkIst (i_env st) (i_p st) (i_now st) (i_ev st) (i_cancelled st) (i_closed st) (i_lim st)
                                   (i_group st) (i_defers st) (g :: i_gos st) (i_ready st).
  Definition add_ready c st := mkIst (i_env st) (i_p st) (i_now st) (i_ev st) (i_cancelled st) (i_closed st) (i_lim st)
                                     (i_group st) (i_defers st) (i_gos st) (i_ready st ++ [c]).

  Definition lookup (st : ist) (x : string) : option aval := get x (i_env st).
  Definition bind (x : string) (v : aval) (st : ist) : ist := with_env ((x, v) :: i_env st) st.
  Definition rebind (x : string) (v : aval) (st : ist) : ist := with_env (upd x v (i_env st)) st.

  Definition set_as (a : AS) (p : pstT) : pstT :=
    let c := p_cb _ _ _ _ _ p in
    set_cb _ _ _ _ _ {| cb_as := a; cb_slot := cb_slot _ _ _ _ c; cb_errs := cb_errs _ _ _ _ c;
                        cb_dropped := cb_dropped _ _ _ _ c; cb_groups := cb_groups _ _ _ _ c;
                        cb_handed := cb_handed _ _ _ _ c; cb_lost := cb_lost _ _ _ _ c |} p.
  Definition as_of (p : pstT) : AS := cb_as _ _ _ _ (p_cb _ _ _ _ _ p).
  Definition on_cb (f : cbT -> cbT) (p : pstT) : pstT := set_cb _ _ _ _ _ (f (p_cb _ _ _ _ _ p)) p.

  Definition is_ctx (v : aval) : bool := match v with VCtx | VCtxDerived => true | _ => false end.
  Definition is_tracker (v : aval) : bool := match v with VTracker => true | _ => false end.
  Definition ctx_err (st : ist) : errv := if i_cancelled st then XCtx else XNil.

  Definition lines_shown (st : ist) (shown : list string) : list line :=
    flat_map (fun x => match lookup st x with Some (VLine l) => [l] | _ => [] end) shown.

  Fixpoint eeval (st : ist) (e : aerr) : option errv :=
    match e with
    | EVar x => match lookup st x with Some (VErr v) => Some v | _ => None end
    | ENil => Some XNil
    | ECtxErr c => match lookup st c with
                   | Some v => if is_ctx v then Some (ctx_err st) else None
                   | None => None
                   end
    | EWrap _ e' => match eeval st e' with Some v => Some (XWrap v) | None => None end
    | EParseError shown inner =>
        match lines_shown st shown, eeval st inner with
        | [l], Some v => Some (XParseError l v)       (* the message shows exactly one line *)
        | _, _ => None
        end
    | ECBError _ inner => match eeval st inner with Some v => Some (XCBError v) | None => None end
    end.

  Definition deval (st : ist) (d : adur) : option Z :=
    match d with
    | DConst z => Some z
    | DVar x => match lookup st x with Some (VDur z) => Some z | _ => None end
    end.

  Definition teval (st : ist) (t : atime) : option tmv :=
    match t with
    | TVar x => match lookup st x with Some (VTime z) => Some z | _ => None end
    | TNowAdd d => Some (TmNowAdd (i_now st) d)
    | TTimestamp _ => None
    | TField _ _ => None
    end.

  Fixpoint ceval (st : ist) (c : acond) : option bool :=
    match c with
    | CErrNotNil x => match lookup st x with
                      | Some (VErr XNil) => Some false
                      | Some (VErr _) => Some true
                      | _ => None
                      end
    | CStrEmpty x => match lookup st x with Some (VLine l) => Some (is_empty l) | _ => None end
    | CBefore (TTimestamp ev) (TField r f) =>
        (* the only time comparison with a meaning: <event>.Timestamp.Before(<callback receiver>.after) *)
        match lookup st ev, lookup st r with
        | Some (VEvent e _), Some VSelfCB => if String.eqb f "after" then Some (old e) else None
        | _, _ => None
        end
    | CBefore _ _ => None
    | CAfter _ _ => None
    | CNot c' => match ceval st c' with Some b => Some (negb b) | None => None end
    end.

  Definition chan_kind (st : ist) (ch : achan) : option ckind :=
    match ch with
    | ChDone c => match lookup st c with
                  | Some v => if is_ctx v then Some KDone else None
                  | None => None
                  end
    | ChVar x => match lookup st x with
                 | Some VLines => Some KLines
                 | Some VParserDone => Some KParserDone
                 | Some VErrors => Some KErrors
                 | _ => None
                 end
    | ChField r f => match lookup st r with
                     | Some VSelfAuditd => if String.eqb f "Logins" then Some KLogins else None
                     | Some VSelfCB => if String.eqb f "errors" then Some KErrors else None
                     | _ => None
                     end
    | ChTick t => match lookup st t with Some (VTicker _) => Some KTick | _ => None end
    end.

  Definition ev_kind (e : aevent) : option ckind :=
    match e with
    | EvNone => None
    | EvCancel _ => Some KDone
    | EvLine _ _ => Some KLines
    | EvLineCancelled _ _ => Some KLines
    | EvTick _ => Some KTick
    | EvLogin _ => Some KLogins
    | EvParserDone => Some KParserDone
    | EvErrors => Some KErrors
    end.

  (* every arm of a select without default is a receive on a channel with a role, no two on the same *)
  Fixpoint arm_kinds (st : ist) (arms : list astmt) : option (list ckind) :=
    match arms with
    | [] => Some []
    | SArmRecv _ ch _ :: r =>
        match chan_kind st ch, arm_kinds st r with
        | Some k, Some ks => Some (k :: ks)
        | _, _ => None
        end
    | _ :: _ => None
    end.

  Definition select_ok (st : ist) (arms : list astmt) : bool :=
    match arm_kinds st arms with Some ks => kinds_distinct ks | None => false end.

  Definition arm_is (st : ist) (ch : achan) (k : ckind) : bool :=
    match chan_kind st ch with Some k' => ckind_eqb k' k | None => false end.

  (* the receive the pending event stands for: the value received, the state afterwards (the event is used up) *)
  Definition receive (st : ist) : option (option aval * ist) :=
    let p := i_p st in
    match i_ev st with
    | EvNone => None
    | EvCancel _ => Some (None, with_ev EvNone true st)
    | EvLine _ l | EvLineCancelled _ l =>
        Some (Some (VLine l), with_ev EvNone (i_cancelled st) (with_p (consume _ _ _ _ _ l p) st))
    | EvTick _ => Some (None, with_ev EvNone (i_cancelled st) st)
    | EvLogin lg => Some (Some (VLogin lg), with_ev EvNone (i_cancelled st) st)
    | EvParserDone =>
        match p_perr _ _ _ _ _ p with
        | Some l => Some (Some (VErr (XParseError l XParse)), with_ev EvNone (i_cancelled st) st)
        | None => None
        end
    | EvErrors =>
        match cb_slot _ _ _ _ (p_cb _ _ _ _ _ p) with
        | Some r => Some (Some (VErr (XSlot r)),
                          with_ev EvNone (i_cancelled st) (with_p (on_cb (take_slot _ _ _ _) p) st))
        | None => None
        end
    end.

  Definition bind_recv (x : option string) (v : option aval) (st : ist) : option ist :=
    match x, v with
    | None, _ => Some st
    | Some n, Some w => Some (bind n w st)
    | Some _, None => None
    end.

  (* which group, which cause: the value a callback may put on its errors channel *)
  Definition rerr_of (g : list msg) (v : errv) : option rerrT :=
    match v with
    | XCBError XCoalesce => Some (ECoalesce _ _ g)
    | XCBError (XCorr c) => Some (EAudit _ _ g c)
    | _ => None
    end.

  (* select { case ch <- e: .. default: .. } on the callback's errors channel: was it sent? *)
  Definition try_send (st : ist) (ch : achan) (e : aerr) : option (ist * bool) :=
    match chan_kind st ch, eeval st e with
    | Some KErrors, Some v =>
        match rerr_of (i_group st) v with
        | Some r =>
            Some (with_p (on_cb (send _ _ _ _ r) (i_p st)) st,
                  match cb_slot _ _ _ _ (p_cb _ _ _ _ _ (i_p st)) with None => true | Some _ => false end)
        | None => None
        end
    | _, _ => None
    end.

  Definition restore (st0 : ist) (r : option (ist * flow)) : option (ist * flow) :=
    match r with
    | Some (st1, f) => Some (with_env (i_env st0) st1, f)
    | None => None
    end.

  (* PushMessage / Maintain / Close on the reassembler in scope; supplied below *)
  Variable reassf : nat -> nat -> pstT -> rop msg -> option pstT.

  Definition do_reass (st : ist) (o : rop msg) : option ist :=
    match i_lim st with
    | Some (mx, tmo) =>
        if i_closed st then None else
        match reassf mx tmo (i_p st) o with
        | Some p => Some (with_p p st)
        | None => None
        end
    | None => None
    end.

  Definition do_call (xs : list string) (k : acall) (st : ist) : option ist :=
    match k, xs with
    | KCtxErr c, [x] =>
        match lookup st c with
        | Some v => if is_ctx v then Some (bind x (VErr (ctx_err st)) st) else None
        | None => None
        end
    | KParseLogLine l, [m; e] =>
        match lookup st l with
        | Some (VLine ln) =>
            match parse ln with
            | Some mm => Some (bind e (VErr XNil) (bind m (VMsg mm) st))
            | None => Some (bind e (VErr XParse) (bind m VNoMsg st))
            end
        | _ => None
        end
    | KCoalesce g, [ev; e] =>
        match lookup st g with
        | Some (VGroup gl) =>
            match coalesce gl with
            | Some evv => Some (bind e (VErr XNil) (bind ev (VEvent evv false) st))
            | None => Some (bind e (VErr XCoalesce) (bind ev VNoEvent st))
            end
        | _ => None
        end
    | KAuditdEvent r f ev, [e] =>
        match lookup st r, lookup st ev with
        | Some VSelfCB, Some (VEvent evv true) =>
            if String.eqb f "au" then
              let '(a, res) := audit (as_of (i_p st)) evv in
              Some (bind e (VErr (match res with None => XNil | Some c => XCorr c end))
                         (with_p (on_cb (note_handed _ _ _ _ a evv) (i_p st)) st))
            else None
        | _, _ => None
        end
    | KRemoteLogin tr lg, [e] =>
        match lookup st tr, lookup st lg with
        | Some VTracker, Some (VLogin l) =>
            let '(a, res) := rlogin (as_of (i_p st)) l in
            Some (bind e (VErr (match res with None => XNil | Some c => XCorr c end))
                       (with_p (set_as a (i_p st)) st))
        | _, _ => None
        end
    | KMaintain r, [e] =>
        match lookup st r with
        | Some VReass =>
            if i_closed st then Some (bind e (VErr XClosed) st) else
            match do_reass st (RMaintain (i_now st)) with
            | Some st' => Some (bind e (VErr XNil) st')
            | None => None
            end
        | _ => None
        end
    | _, _ => None
    end.

  Definition next (o : option ist) : option (ist * flow) :=
    match o with Some st => Some (st, FNext) | None => None end.

  Fixpoint run_stmt (c : astmt) (st : ist) {struct c} : option (ist * flow) :=
    let run_block := fix run_block (l : list astmt) (st : ist) {struct l} : option (ist * flow) :=
      match l with
      | [] => Some (st, FNext)
      | c1 :: r => match run_stmt c1 st with
                   | Some (st1, FNext) => run_block r st1
                   | other => other
                   end
      end in
    match c with
    | SDefine xs k => next (do_call xs k st)
    | SDefineTime x t => match teval st t with Some z => Some (bind x (VTime z) st, FNext) | None => None end
    | SScope body => restore st (run_block body st)
    | SIf cnd th el =>
        match ceval st cnd with
        | Some true => restore st (run_block th st)
        | Some false => restore st (run_block el st)
        | None => None
        end
    | SFor _ => None
    | SSelect arms =>
        if has_default arms then
          match arms with
          | [SArmSend ch e body; SArmDefault dbody] | [SArmDefault dbody; SArmSend ch e body] =>
              match try_send st ch e with
              | Some (st1, true) => restore st (run_block body st1)
              | Some (st1, false) => restore st (run_block dbody st1)
              | None => None
              end
          | _ => None
          end
        else if select_ok st arms then
          match ev_kind (i_ev st) with
          | Some k =>
              (fix sel (l : list astmt) : option (ist * flow) :=
                 match l with
                 | SArmRecv x ch body :: r =>
                     if arm_is st ch k then
                       match receive st with
                       | Some (v, st1) =>
                           match bind_recv x v st1 with
                           | Some st2 => restore st (run_block body st2)
                           | None => None
                           end
                       | None => None
                       end
                     else sel r
                 | _ => None
                 end) arms
          | None => None
          end
        else None
    | SArmRecv _ _ _ => None
    | SArmSend _ _ _ => None
    | SArmDefault _ => None
    | SPush r m =>
        match lookup st r, lookup st m with
        | Some VReass, Some (VMsg mm) => next (do_reass st (RPush (i_now st) mm))
        | _, _ => None
        end
    | SResolveIDs ev =>
        match lookup st ev with
        | Some (VEvent e _) => Some (rebind ev (VEvent e true) st, FNext)
        | _ => None
        end
    | SCleanSessions tr t =>
        match lookup st tr, teval st t with
        | Some VTracker, Some z => Some (with_p (set_as (csess (as_of (i_p st)) z) (i_p st)) st, FNext)
        | _, _ => None
        end
    | SCleanLogins tr t =>
        match lookup st tr, teval st t with
        | Some VTracker, Some z => Some (with_p (set_as (clogins (as_of (i_p st)) z) (i_p st)) st, FNext)
        | _, _ => None
        end
    | SLog _ => Some (st, FNext)
    | SContinue => Some (st, FContinue)
    | SReturn e => match eeval st e with Some v => Some (st, FReturn (Some v)) | None => None end
    | SReturnVoid => Some (st, FReturn None)
    | SMakeErrChan x cap => Some (bind x (VErrChan cap) st, FNext)
    | SMakeSigChan x => Some (bind x (VSigChan x) st, FNext)
    | SNewTracker x r f =>
        match lookup st r with
        | Some VSelfAuditd =>
            if String.eqb f "EventW" && negb (existsb is_tracker (map snd (i_env st)))
            then Some (bind x VTracker st, FNext) else None
        | _ => None
        end
    | SNewReassembler x err mx tmo au errs ar af =>
        match lookup st au, lookup st errs, lookup st ar, i_lim st with
        | Some VTracker, Some (VErrChan 1), Some VSelfAuditd, None =>
            if String.eqb af "After"
            then Some (with_lim (Some (Z.to_nat mx, dur tmo))
                         (bind err (VErr XNil) (bind x VReass (rebind errs VErrors st))), FNext)
            else None
        | _, _, _, _ => None
        end
    | SDeferClose r =>
        match lookup st r with Some VReass => Some (push_defer DClose st, FNext) | _ => None end
    | SWithCancel c' cancel parent =>
        match lookup st parent with
        | Some VCtx => Some (bind cancel VCancel (bind c' VCtxDerived st), FNext)
        | _ => None
        end
    | SDeferJoin cancel ch =>
        match lookup st cancel, lookup st ch with
        | Some VCancel, Some (VSigChan n) => Some (push_defer (DJoin n) st, FNext)
        | _, _ => None
        end
    | SGoMaintain c r d =>
        match lookup st c, lookup st r, deval st d with
        | Some cv, Some VReass, Some z =>
            if is_ctx cv && negb (existsb (fun g => match g with GMaintain _ => true | _ => false end) (i_gos st))
            then Some (push_go (GMaintain z) st, FNext) else None
        | _, _, _ => None
        end
    | SGoParser exited done c recv f r =>
        match lookup st exited, lookup st done, lookup st c, lookup st recv, lookup st r with
        | Some (VSigChan n), Some (VErrChan 1), Some VCtxDerived, Some VSelfAuditd, Some VReass =>
            if String.eqb f "Audits" && negb (existsb (fun g => match g with GParser _ => true | _ => false end) (i_gos st))
            then Some (push_go (GParser n) (rebind done VParserDone st), FNext) else None
        | _, _, _, _, _ => None
        end
    | SNewTicker x d => match deval st d with Some z => Some (bind x (VTicker z) st, FNext) | None => None end
    | SDeferStop t =>
        match lookup st t with Some (VTicker _) => Some (push_defer DStop st, FNext) | _ => None end
    | SOnReady c => Some (add_ready c st, FNext)
    end.

  Fixpoint run_block (l : list astmt) (st : ist) : option (ist * flow) :=
    match l with
    | [] => Some (st, FNext)
    | c1 :: r => match run_stmt c1 st with
                 | Some (st1, FNext) => run_block r st1
                 | other => other
                 end
    end.

  (* ---- drivers ---------------------------------------------------------------------------- *)

  Definition now_of (e : aevent) : nat :=
    match e with EvLine n _ => n | EvLineCancelled n _ => n | EvTick n => n | _ => 0 end.
  Definition cancelled_before (e : aevent) : bool :=
    match e with EvCancel false => true | EvLineCancelled _ _ => true | _ => false end.

  Definition ist0 (env : list (string * aval)) (p : pstT) (ev : aevent) (lim : option (nat * nat)) (closed : bool) : ist :=
    mkIst env p (now_of ev) ev (cancelled_before ev) closed lim [] [] [] [].

  (* one iteration of  for { body } : None = the loop goes on, Some v = the function returned v *)
  Definition run_iter (body : list astmt) (st : ist) : option (ist * option (option errv)) :=
    match run_block body st with
    | Some (st1, FReturn v) => Some (st1, Some v)
    | Some (st1, _) => Some (with_env (i_env st) st1, None)
    | None => None
    end.

  (* a function of the shape  set-up statements; for { body } : the set-up, then one iteration *)
  Definition run_setup (env : list (string * aval)) (f : afunc) (p : pstT) (ev : aevent)
                       (lim : option (nat * nat)) (closed : bool) : option (ist * list astmt) :=
    match split_for (af_body f) with
    | Some (pre, body) =>
        match run_block pre (ist0 env p ev lim closed) with
        | Some (st, FNext) => Some (st, body)
        | _ => None
        end
    | None => None
    end.

  Definition run_fn_iter env f p ev lim closed : option (ist * option (option errv)) :=
    match run_setup env f p ev lim closed with
    | Some (st, body) => run_iter body st
    | None => None
    end.

  (* parseAuditLogs(ctx, lines, reass) *)
  Definition parse_env (f : afunc) : option (list (string * aval)) :=
    match af_recv f, af_params f with
    | None, [c; l; r] => Some [(r, VReass); (l, VLines); (c, VCtx)]
    | _, _ => None
    end.

  Definition run_parse_iter (f : afunc) (lim : nat * nat) (ev : aevent) (p : pstT)
    : option (pstT * option (option errv)) :=
    match parse_env f with
    | Some env =>
        match run_fn_iter env f p ev (Some lim) false with
        | Some (st, r) => Some (i_p st, r)
        | None => None
        end
    | None => None
    end.

  (* the goroutine  done <- parseAuditLogs(..)  receiving one line: an error it returns is parked in [done] *)
  Definition parser_step (f : afunc) (lim : nat * nat) (now : nat) (l : line) (p : pstT) : option pstT :=
    match run_parse_iter f lim (EvLine now l) p with
    | Some (p', None) => Some p'
    | Some (p', Some (Some (XParseError l' XParse))) => Some (set_perr _ _ _ _ _ l' p')
    | _ => None
    end.

  (* the goroutine fed a finite stream: it stops consuming once it has returned *)
  Fixpoint parser_run (f : afunc) (lim : nat * nat) (ls : list (nat * line)) (p : pstT) : option pstT :=
    match ls with
    | [] => Some p
    | (now, l) :: r =>
        match p_perr _ _ _ _ _ p with
        | Some _ => Some p
        | None => match parser_step f lim now l p with
                  | Some p' => parser_run f lim r p'
                  | None => None
                  end
        end
    end.

  (* maintainReassemblerLoop(ctx, reassembler, d) *)
  Definition maintain_env (f : afunc) (period : Z) : option (list (string * aval)) :=
    match af_recv f, af_params f with
    | None, [c; r; d] => Some [(d, VDur period); (r, VReass); (c, VCtx)]
    | _, _ => None
    end.

  Definition run_maintain_iter (f : afunc) (period : Z) (lim : nat * nat) (closed : bool) (ev : aevent) (p : pstT)
    : option (pstT * option (option errv)) :=
    match maintain_env f period with
    | Some env =>
        match run_fn_iter env f p ev (Some lim) closed with
        | Some (st, r) => Some (i_p st, r)
        | None => None
        end
    | None => None
    end.

  (* reassemblerCB.ReassemblyComplete(msgs), reassemblerCB.EventsLost(count) *)
  Definition run_complete (f : afunc) (p : pstT) (g : list msg) : option pstT :=
    match af_recv f, af_params f with
    | Some s, [m] =>
        match run_block (af_body f)
                (mkIst [(m, VGroup g); (s, VSelfCB)] (on_cb (note_group _ _ _ _ g) p) 0 EvNone false false None g [] [] []) with
        | Some (st, FNext) => Some (i_p st)
        | Some (st, FReturn None) => Some (i_p st)
        | _ => None
        end
    | _, _ => None
    end.

  Definition run_lost (f : afunc) (p : pstT) (n : N) : option pstT :=
    match af_recv f, af_params f with
    | Some s, [c] =>
        match run_block (af_body f)
                (mkIst [(c, VCount n); (s, VSelfCB)] (on_cb (note_lost _ _ _ _ n) p) 0 EvNone false false None [] [] [] []) with
        | Some (st, FNext) => Some (i_p st)
        | Some (st, FReturn None) => Some (i_p st)
        | _ => None
        end
    | _, _ => None
    end.

  (* Auditd.Read(ctx) *)
  Definition read_env (f : afunc) : option (list (string * aval)) :=
    match af_recv f, af_params f with
    | Some o, [c] => Some [(c, VCtx); (o, VSelfAuditd)]
    | _, _ => None
    end.

  Definition read_setup (f : afunc) (p : pstT) (ev : aevent) : option (ist * list astmt) :=
    match read_env f with
    | Some env => run_setup env f p ev None false
    | None => None
    end.

  (* the deferred calls, most recent first.  The parser goroutine must have been waited for when Read is
     left, and before the reassembler is closed *)
  Fixpoint run_defers (ds : list dact) (gos : list gact) (lim : option (nat * nat)) (joined : bool) (p : pstT)
    : option pstT :=
    match ds with
    | [] => if joined then Some p else None
    | DStop :: r => run_defers r gos lim joined p
    | DJoin n :: r =>
        if existsb (fun g => match g with GParser m => String.eqb m n | _ => false end) gos
        then run_defers r gos lim true p else None
    | DClose :: r =>
        match joined, lim with
        | true, Some (mx, tmo) =>
            match reassf mx tmo p (RClose) with
            | Some p' => run_defers r gos lim joined p'
            | None => None
            end
        | _, _ => None
        end
    end.

  Definition run_return (st : ist) : option pstT :=
    run_defers (i_defers st) (i_gos st) (i_lim st) false (i_p st).

  (* which of the model's results a value returned by Read is *)
  Definition class_of (e : errv) : option resultT :=
    match e with
    | XCtx => Some (RCancel _ _ _)
    | XWrap (XParseError l XParse) => Some (RParse _ _ _ l)
    | XWrap (XSlot r) => Some (RSlot _ _ _ r)
    | XWrap (XCorr c) => Some (RLogin _ _ _ c)
    | _ => None
    end.

  (* one arm of Read's select: the state when the arm is done, the class of what it returned (RNone: the
     loop goes on), and the state once the deferred calls have run if it returned *)
  Definition read_arm (f : afunc) (ev : aevent) (p : pstT) : option (pstT * resultT * option pstT) :=
    match read_setup f p ev with
    | Some (st0, body) =>
        match run_iter body st0 with
        | Some (st, None) => Some (i_p st, RNone _ _ _, None)
        | Some (st, Some (Some e)) =>
            match class_of e, run_return st with
            | Some r, Some fin => Some (i_p st, r, Some fin)
            | _, _ => None
            end
        | _ => None
        end
    | None => None
    end.

  (* the select after a step of another goroutine: an arm whose channel holds something runs *)
  Definition read_poll (f : afunc) (p : pstT) : option (pstT * resultT * option pstT) :=
    match p_perr _ _ _ _ _ p with
    | Some _ => read_arm f EvParserDone p
    | None =>
        match cb_slot _ _ _ _ (p_cb _ _ _ _ _ p) with
        | Some _ => read_arm f EvErrors p
        | None => Some (p, RNone _ _ _, None)
        end
    end.

  Definition has_parser (st : ist) : bool :=
    existsb (fun g => match g with GParser _ => true | _ => false end) (i_gos st).
  Definition maintain_period (st : ist) : option Z :=
    match filter (fun g => match g with GMaintain _ => true | _ => false end) (i_gos st) with
    | [GMaintain d] => Some d
    | _ => None
    end.

  (* one input of the model: a step of the goroutine Read started for it (with the reassembler Read made),
     then Read's select *)
  Definition read_step (fr fp fm : afunc) (p : pstT) (i : inpT) : option (pstT * resultT * option pstT) :=
    match i with
    | ILine _ _ now l =>
        match read_setup fr p EvNone with
        | Some (st, _) =>
            match has_parser st, i_lim st with
            | true, Some lim =>
                match parser_step fp lim now l p with
                | Some p' => read_poll fr p'
                | None => None
                end
            | _, _ => None
            end
        | None => None
        end
    | ITick _ _ now =>
        match read_setup fr p EvNone with
        | Some (st, _) =>
            match maintain_period st, i_lim st with
            | Some d, Some lim =>
                match run_maintain_iter fm d lim false (EvTick now) p with
                | Some (p', None) => read_poll fr p'
                | _ => None
                end
            | _, _ => None
            end
        | None => None
        end
    | ILogin _ _ lg => read_arm fr (EvLogin lg) p
    | ICancel _ _ => read_arm fr (EvCancel true) p
    end.

  Fixpoint read_loop (fr fp fm : afunc) (p : pstT) (ins : list inpT) : option (pstT * resultT * option pstT) :=
    match ins with
    | [] => Some (p, RNone _ _ _, None)
    | i :: r =>
        match read_step fr fp fm p i with
        | Some (p', RNone _ _ _, _) => read_loop fr fp fm p' r
        | other => other
        end
    end.
End Interp.

(* ---- the reassembler with the GENERATED callbacks, and Read as a whole ------------------------- *)

Section Whole.
  Variables line msg event cerr login AS : Type.
  Variable is_empty : line -> bool.
  Variable parse : line -> option msg.
  Variable mseq : msg -> N.
  Variable mtype : msg -> nat.
  Variable coalesce : list msg -> option event.
  Variable old : event -> bool.
  Variable audit : AS -> event -> AS * option cerr.
  Variable rlogin : AS -> login -> AS * option cerr.
  Variable csess clogins : AS -> tmv -> AS.
  Variable dur : Z -> nat.

  Notation pstT := (pst line msg event cerr AS).

  (* inside a callback there is no reassembler to call *)
  Definition no_reass : nat -> nat -> pstT -> rop msg -> option pstT := fun _ _ _ _ => None.

  Definition complete_gen (fc : afunc) : pstT -> list msg -> option pstT :=
    run_complete line msg event cerr login AS is_empty parse coalesce old audit rlogin csess clogins dur no_reass fc.
  Definition lost_gen (fl : afunc) : pstT -> N -> option pstT :=
    run_lost line msg event cerr login AS is_empty parse coalesce old audit rlogin csess clogins dur no_reass fl.

  (* PushMessage / Maintain / Close: the library's step (oracle [rstep]), then the Stream callbacks as
     GENERATED: ReassemblyComplete for every evicted event in order, then EventsLost ([note_lost] records
     nothing for a gap of 0, the case in which the library does not call it) *)
  Definition reass_gen (fc fl : afunc) (mx tmo : nat) (p : pstT) (o : rop msg) : option pstT :=
    let '(r', ev, lost) := rstep msg mseq mtype mx tmo (p_r _ _ _ _ _ p) o in
    let p1 := {| p_r := r'; p_cb := p_cb _ _ _ _ _ p; p_perr := p_perr _ _ _ _ _ p;
                 p_consumed := p_consumed _ _ _ _ _ p; p_ops := p_ops _ _ _ _ _ p ++ [o] |} in
    match fold_opt (complete_gen fc) (map e_msgs ev) p1 with
    | Some p2 => lost_gen fl p2 lost
    | None => None
    end.

  Definition reass_of (g : aprogs) := reass_gen (pg_complete g) (pg_lost g).

  Definition parser_step_gen (g : aprogs) :=
    parser_step line msg event cerr login AS is_empty parse coalesce old audit rlogin csess clogins dur (reass_of g) (pg_parse g).
  Definition parser_run_gen (g : aprogs) :=
    parser_run line msg event cerr login AS is_empty parse coalesce old audit rlogin csess clogins dur (reass_of g) (pg_parse g).
  Definition parse_iter_gen (g : aprogs) :=
    run_parse_iter line msg event cerr login AS is_empty parse coalesce old audit rlogin csess clogins dur (reass_of g) (pg_parse g).
  Definition maintain_iter_gen (g : aprogs) :=
    run_maintain_iter line msg event cerr login AS is_empty parse coalesce old audit rlogin csess clogins dur (reass_of g) (pg_maintain g).
  Definition read_setup_gen (g : aprogs) :=
    read_setup line msg event cerr login AS is_empty parse coalesce old audit rlogin csess clogins dur (reass_of g) (pg_read g).
  Definition read_arm_gen (g : aprogs) :=
    read_arm line msg event cerr login AS is_empty parse coalesce old audit rlogin csess clogins dur (reass_of g) (pg_read g).
  Definition read_poll_gen (g : aprogs) :=
    read_poll line msg event cerr login AS is_empty parse coalesce old audit rlogin csess clogins dur (reass_of g) (pg_read g).
  Definition read_step_gen (g : aprogs) :=
    read_step line msg event cerr login AS is_empty parse coalesce old audit rlogin csess clogins dur (reass_of g)
              (pg_read g) (pg_parse g) (pg_maintain g).

  (* the model's view of what Read's loop did: state, result, and - once it has returned - the state after the
     deferred Close has flushed the reassembler ([shutdown]) *)
  Definition outcome_of (mx tmo : nat) (x : pstT * result line msg cerr) : pstT * result line msg cerr * option pstT :=
    let '(p', r) := x in
    (p', r, match r with
            | RNone _ _ _ => None
            | _ => Some (shutdown line msg event cerr AS mseq mtype coalesce old audit mx tmo p')
            end).

  (* Read from its first statement: the inputs are taken until an arm returns *)
  Definition run_read (g : aprogs) (a : AS) (ins : list (inp line login)) :=
    read_loop line msg event cerr login AS is_empty parse coalesce old audit rlogin csess clogins dur (reass_of g)
              (pg_read g) (pg_parse g) (pg_maintain g) (pinit line msg event cerr AS a) ins.
End Whole.
