(* The two pipelines sharing one output (C10).

   sshd pipeline (one goroutine):  for each accepted login: WRITE its UserLogin event, then
   HAND the login OVER on the unbuffered channel (C05: always in this order, never without the write).
   audit pipeline: Read's loop receives logins and calls RemoteLogin; the parser goroutine calls
   AuditdEvent; cleanup ticks — all serialized by the correlator's mutex (C03), each call
   appending the events it emits to the same output.
   The output is an append-only list of entries; one append per event (assumption A-append:
   one Write call per event, and the kernel does not interleave single writes on an O_APPEND
   file — observed, not proved).

   A run is any sequence of the atomic actions below; [wf_run] is the only constraint the code
   imposes between the pipelines: a login is handed over only after its UserLogin was written. *)
From Coq Require Import List Bool Arith ZArith NArith.
Import ListNotations.
From AM Require Import Lib.Assoc Model.Tracker.

Inductive entry :=
| ELogin (l : login)                 (* a UserLogin event *)
| EAction (l : login) (e : aev).     (* a UserAction event carrying l's identity *)

Inductive pact :=
| PWrite (l : login)                 (* sshd pipeline writes the UserLogin of l *)
| PDeliver (l : login) (c : nat)     (* the hand-off completes and the correlator processes the login *)
| PAudit (ev : aev) (now : Z)
| PCleanS (t : Z)
| PCleanL (t : Z).

Definition tracker_op (a : pact) : option top :=
  match a with
  | PWrite _ => None
  | PDeliver l c => Some (RemoteLogin l c)
  | PAudit ev now => Some (Audit ev now)
  | PCleanS t => Some (CleanSess t)
  | PCleanL t => Some (CleanLogins t)
  end.

Definition pstate := (tstate * list entry)%type.

Definition pipe_step (s : pstate) (a : pact) : pstate :=
  let '(st, log) := s in
  match a with
  | PWrite l => (st, log ++ [ELogin l])
  | _ =>
      match tracker_op a with
      | Some o => let '(st', out, _) := tstep st o in (st', log ++ map (fun x => EAction (fst x) (snd x)) out)
      | None => (st, log)
      end
  end.

Definition pipe_run (acts : list pact) : pstate := fold_left pipe_step acts (tinit None, []).

Definition plog (acts : list pact) : list entry := snd (pipe_run acts).

(* the tracker's own history inside a run *)
Definition tracker_hist (acts : list pact) : list top :=
  flat_map (fun a => match tracker_op a with Some o => [o] | None => [] end) acts.

(* a login is delivered only after its UserLogin event was written *)
Definition wf_run (acts : list pact) : Prop :=
  forall pre l c post, acts = pre ++ PDeliver l c :: post -> In (PWrite l) pre.
