(* Declarative semantics of the flat patterns of Lib/Regex.v, independent of the matcher's recursion.

   A MATCH of an item list [its] in the text [T] at start offset [p] is a PARSE: every item is given
   the piece of text it consumes -
     ILit c   one byte, equal to c            IOne k   one byte of class k
     IRune k  one UTF-8 decoding step (unicode/utf8.DecodeRuneInString: 1-4 bytes, an invalid sequence is one
              byte) whose first byte is of class k
     IStar k  n bytes, all of class k (the number n is the parse's choice; it is recorded)
     IOpen g  nothing; the position is remembered as the opening of group g
     IClose g nothing; group g (opened earlier) is recorded as the range [opening, here)
     IBol     nothing; the position must be 0     IEol   nothing; the position must be |T|
   - such that the pieces are consecutive in T from offset p on.  [Parse T its p ops ls e pcs]:
   starting at offset p with the groups [ops] already open, the items consume T up to offset e, the
   star items consuming [ls] bytes (in pattern order) and the groups closed on the way being [pcs]
   (pattern order, as ranges of offsets into T).

   Go / Perl LEFTMOST-FIRST priority between two matches of the same pattern in the same text:
   the smaller start offset wins; at one start offset the parses are ordered lexicographically by
   their star lengths in pattern order, LONGER first (every star is greedy).  [prefers p ls p' ls'] is
   "(p, ls) is not beaten by (p', ls')"; [Best] is the parse that no other parse beats.

   The second half holds executable companions used by the correspondence stage (harness/prims,
   Model/PrimsCheck.v): [mi] is the matcher of Lib/Regex.v instrumented to return the parse it found
   (end offset, star lengths, capture RANGES), [find_idx] renders it as Go's
   FindStringSubmatchIndex does.  Proofs/RegexSpecLemmas.v proves [mi] correct against [Parse]/[Best]
   and [Lib.Regex.m]/[find] equal to the string image of [mi]/[find_parse].  Definitions only. *)
From Coq Require Import Ascii String List Bool Arith NArith Lia.
Import ListNotations.
From AM Require Import Lib.Bytes Lib.Utf8 Lib.Regex.

Definition popens := list (nat * nat).            (* group -> offset of its opening *)
Definition pcaps := list (nat * (nat * nat)).     (* group -> [from, to) *)

Inductive Parse (T : str) : list item -> nat -> popens -> list nat -> nat -> pcaps -> Prop :=
| P_nil p ops : Parse T [] p ops [] p []
| P_lit c r p ops ls e pcs :
    nth_error T p = Some c -> Parse T r (S p) ops ls e pcs -> Parse T (ILit c :: r) p ops ls e pcs
| P_one k c r p ops ls e pcs :
    nth_error T p = Some c -> in_cls k c = true -> Parse T r (S p) ops ls e pcs ->
    Parse T (IOne k :: r) p ops ls e pcs
| P_star k n r p ops ls e pcs :
    p + n <= length T -> forallb (in_cls k) (sub T p (p + n)) = true -> Parse T r (p + n) ops ls e pcs ->
    Parse T (IStar k :: r) p ops (n :: ls) e pcs
| P_open g r p ops ls e pcs :
    Parse T r p ((g, p) :: ops) ls e pcs -> Parse T (IOpen g :: r) p ops ls e pcs
| P_close g a r p ops ls e pcs :
    lookup_g g ops = Some a -> Parse T r p ops ls e pcs ->
    Parse T (IClose g :: r) p ops ls e ((g, (a, p)) :: pcs)
| P_bol r ops ls e pcs :
    Parse T r 0 ops ls e pcs -> Parse T (IBol :: r) 0 ops ls e pcs
| P_eol r p ops ls e pcs :
    p = length T -> Parse T r p ops ls e pcs -> Parse T (IEol :: r) p ops ls e pcs
| P_rune k c r p ops ls e pcs :
    nth_error T p = Some c -> in_cls k c = true ->
    Parse T r (p + snd (decode_rune (skipn p T))) ops ls e pcs -> Parse T (IRune k :: r) p ops ls e pcs.

(* greedy-lexicographic order on the star lengths of two parses of one pattern: the first star on
   which they differ is LONGER in the left one (or they do not differ) *)
Inductive lex_ge : list nat -> list nat -> Prop :=
| LG_nil : lex_ge [] []
| LG_gt a b l l' : b < a -> lex_ge (a :: l) (b :: l')
| LG_eq a l l' : lex_ge l l' -> lex_ge (a :: l) (a :: l').

(* a match of the whole pattern somewhere in T *)
Definition Match (its : list item) (T : str) (p : nat) (ls : list nat) (e : nat) (pcs : pcaps) : Prop :=
  p <= length T /\ Parse T its p [] ls e pcs.

Definition prefers (p : nat) (ls : list nat) (p' : nat) (ls' : list nat) : Prop :=
  p < p' \/ (p = p' /\ lex_ge ls ls').

(* THE leftmost-first match *)
Definition Best (its : list item) (T : str) (p : nat) (ls : list nat) (e : nat) (pcs : pcaps) : Prop :=
  Match its T p ls e pcs /\
  forall p' ls' e' pcs', Match its T p' ls' e' pcs' -> prefers p ls p' ls'.

(* the captured strings, as Lib.Regex reports them (a group closed later stands first) *)
Definition str_caps (T : str) (pcs : pcaps) : caps :=
  map (fun x => (fst x, sub T (fst (snd x)) (snd (snd x)))) pcs.

Definition str_opens (T : str) (ops : popens) : list (nat * str) :=
  map (fun x => (fst x, skipn (snd x) T)) ops.

(* ---------------------------------------------------------------- executable companions *)

Definition lift_star (j : nat) (o : option (nat * list nat * pcaps)) : option (nat * list nat * pcaps) :=
  match o with Some (e, ls, pcs) => Some (e, j :: ls, pcs) | None => None end.

Definition lift_close (g a p : nat) (o : option (nat * list nat * pcaps)) : option (nat * list nat * pcaps) :=
  match o with Some (e, ls, pcs) => Some (e, ls, (g, (a, p)) :: pcs) | None => None end.

(* Lib.Regex.m returning the parse: [s] is the text from offset [pos] on *)
Fixpoint mi (its : list item) (pos : nat) (s : str) (ops : popens) : option (nat * list nat * pcaps) :=
  match its with
  | [] => Some (pos, [], [])
  | ILit c :: r =>
      match s with x :: s' => if Ascii.eqb x c then mi r (S pos) s' ops else None | [] => None end
  | IOne k :: r =>
      match s with x :: s' => if in_cls k x then mi r (S pos) s' ops else None | [] => None end
  | IStar k :: r => try_desc (fun j => lift_star j (mi r (pos + j) (skipn j s) ops)) (run_len k s)
  | IOpen g :: r => mi r pos s ((g, pos) :: ops)
  | IClose g :: r =>
      match lookup_g g ops with
      | Some a => lift_close g a pos (mi r pos s ops)
      | None => None
      end
  | IBol :: r => if Nat.eqb pos 0 then mi r pos s ops else None
  | IEol :: r => match s with [] => mi r pos s ops | _ :: _ => None end
  | IRune k :: r =>
      match s with
      | x :: _ => if in_cls k x then let w := snd (decode_rune s) in mi r (pos + w) (skipn w s) ops else None
      | [] => None
      end
  end.

(* the deterministic walk along GIVEN star lengths: Some (end, captures) iff they describe a parse
   (Proofs/RegexSpecLemmas.parse_with_iff); used to exhibit competing parses in examples *)
Fixpoint parse_with (its : list item) (pos : nat) (s : str) (ops : popens) (ls : list nat) : option (nat * pcaps) :=
  match its with
  | [] => match ls with [] => Some (pos, []) | _ :: _ => None end
  | ILit c :: r =>
      match s with x :: s' => if Ascii.eqb x c then parse_with r (S pos) s' ops ls else None | [] => None end
  | IOne k :: r =>
      match s with x :: s' => if in_cls k x then parse_with r (S pos) s' ops ls else None | [] => None end
  | IStar k :: r =>
      match ls with
      | j :: ls' => if j <=? run_len k s then parse_with r (pos + j) (skipn j s) ops ls' else None
      | [] => None
      end
  | IOpen g :: r => parse_with r pos s ((g, pos) :: ops) ls
  | IClose g :: r =>
      match lookup_g g ops with
      | Some a => match parse_with r pos s ops ls with Some (e, pcs) => Some (e, (g, (a, pos)) :: pcs) | None => None end
      | None => None
      end
  | IBol :: r => if Nat.eqb pos 0 then parse_with r pos s ops ls else None
  | IEol :: r => match s with [] => parse_with r pos s ops ls | _ :: _ => None end
  | IRune k :: r =>
      match s with
      | x :: _ => if in_cls k x then let w := snd (decode_rune s) in parse_with r (pos + w) (skipn w s) ops ls else None
      | [] => None
      end
  end.

Record pmatch := { pm_start : nat; pm_end : nat; pm_stars : list nat; pm_caps : pcaps }.

Fixpoint find_parse_from (its : list item) (pos : nat) (s : str) : option pmatch :=
  match mi its pos s [] with
  | Some (e, ls, pcs) => Some {| pm_start := pos; pm_end := e; pm_stars := ls; pm_caps := pcs |}
  | None => match s with [] => None | _ :: s' => find_parse_from its (S pos) s' end
  end.

Definition find_parse (its : list item) (T : str) : option pmatch := find_parse_from its 0 T.

(* the string view of a parse: what Lib.Regex.find returns *)
Definition rmatch_of (T : str) (pm : pmatch) : rmatch :=
  {| m_start := pm_start pm; m_end := pm_end pm; m_caps := rev (str_caps T (pm_caps pm)) |}.

(* number of capture groups = the largest group number *)
Fixpoint ngroups (its : list item) : nat :=
  match its with
  | [] => 0
  | IOpen g :: r => Nat.max g (ngroups r)
  | IClose g :: r => Nat.max g (ngroups r)
  | _ :: r => ngroups r
  end.

(* the range of group g (the last closing wins, as in Lib.Regex.cap); a group that did not take part
   is rendered as the empty list, which no observation of Go's (a pair, -1 -1 for "absent") equals *)
Definition group_idx (pcs : pcaps) (g : nat) : list N :=
  match lookup_g g (rev pcs) with
  | Some (a, b) => [N.of_nat a; N.of_nat b]
  | None => []
  end.

(* regexp.FindStringSubmatchIndex: [start; end; g1 from; g1 to; ...], None = nil *)
Definition find_idx (its : list item) (T : str) : option (list N) :=
  match find_parse its T with
  | Some pm => Some (N.of_nat (pm_start pm) :: N.of_nat (pm_end pm)
                     :: flat_map (group_idx (pm_caps pm)) (seq 1 (ngroups its)))
  | None => None
  end.

(* ---------------------------------------------------------------- bytes and runes *)

(* Go's regexp works on runes, the model on bytes.  tools/go2v admits a class only if it contains
   either every rune >= 0x80 or none (then the byte class contains 128..255 or none of them). *)
Definition is_ascii (c : ascii) : bool := (N_of_ascii c <? 128)%N.

Definition high_bytes : list ascii := map (fun n => ascii_of_N (N.of_nat n)) (seq 128 128).

Definition high_cls (k : cls) : bool := in_cls k (ascii_of_N 128).

Definition cls_uniform_high (k : cls) : bool :=
  forallb (in_cls k) high_bytes || forallb (fun c => negb (in_cls k c)) high_bytes.

Fixpoint classes_uniform (its : list item) : bool :=
  match its with
  | [] => true
  | IOne k :: r => cls_uniform_high k && classes_uniform r
  | IStar k :: r => cls_uniform_high k && classes_uniform r
  | IRune k :: r => cls_uniform_high k && classes_uniform r
  | _ :: r => classes_uniform r
  end.

(* what may follow a greedy star over a class with the non-ASCII bytes: behind group marks, an ASCII
   literal, one byte of an ASCII-only class, $, or the end of the pattern.  Then the star can only
   stop in front of an ASCII byte or at the end of the text - a rune boundary *)
Fixpoint follow_ok (r : list item) : bool :=
  match r with
  | [] => true
  | IOpen _ :: r' => follow_ok r'
  | IClose _ :: r' => follow_ok r'
  | ILit c :: _ => is_ascii c
  | IOne k :: _ => negb (high_cls k)
  | IEol :: _ => true
  | _ => false
  end.

(* every single-BYTE item over such a class is the head of  x+ = IOne x; IStar x' (x' with the
   non-ASCII bytes too): the star consumes the rest of the rune.  (Where such an item stands alone the
   translator emits IRune, which consumes the whole rune; a star over a class with the non-ASCII bytes
   must not stand directly in front of it: [follow_ok] has no case for IRune.) *)
Fixpoint items_rune_safe (its : list item) : bool :=
  match its with
  | [] => true
  | IOne k :: r =>
      (if high_cls k then match r with IStar k' :: _ => high_cls k' | _ => false end else true)
      && items_rune_safe r
  | IStar k :: r => (if high_cls k then follow_ok r else true) && items_rune_safe r
  | _ :: r => items_rune_safe r
  end.

(* a match can only start at a rune boundary: the pattern is anchored, or starts (behind group marks)
   with an ASCII literal or a byte of an ASCII-only class *)
Fixpoint start_ok (its : list item) : bool :=
  match its with
  | IBol :: _ => true
  | IOpen _ :: r => start_ok r
  | ILit c :: _ => is_ascii c
  | IOne k :: _ => negb (high_cls k)
  | _ => false
  end.

Definition rune_safe (its : list item) : bool :=
  classes_uniform its && items_rune_safe its && start_ok its.

(* domain of the byte-level model: a rune-safe pattern on any text, any pattern on ASCII text *)
Definition rune_guard (its : list item) (T : str) : bool := rune_safe its || forallb is_ascii T.

(* the offsets at which Go's decoding loop (utf8.DecodeRuneInString step by step from offset 0, an invalid byte
   being one step) starts a rune: the rune boundaries of an ARBITRARY byte string *)
Inductive Boundary (T : str) : nat -> Prop :=
| B_zero : Boundary T 0
| B_step p : Boundary T p -> p < length T -> Boundary T (p + snd (decode_rune (skipn p T))).

Fixpoint only_marks (r : list item) : bool :=
  match r with
  | [] => true
  | IOpen _ :: r' => only_marks r'
  | IClose _ :: r' => only_marks r'
  | _ => false
  end.
