(* time.Ticker and the way Auditd.Read's select loop consumes its ticks (property C16).

   Time is Z (unit irrelevant; the generated constants are nanoseconds).

   THE TICKER ($GOROOT/src/time/tick.go, sleep.go; Go 1.23.5): NewTicker(I) makes a channel of capacity 1 and a periodic
   runtime timer; at every instant T0 + k*I (k >= 1) the runtime runs sendTime, a NON-BLOCKING send
   (select { case c <- now: default: }): the tick goes into the slot if it is empty and is dropped otherwise
   ("the ticker will adjust the time interval or drop ticks to make up for slow receivers").  That is [fire].
   With Go >= 1.23 and a main module declaring go >= 1.23 the timer is run lazily / synchronously when the channel is
   looked at; /repo's go.mod says go 1.19, so the daemon (and the harness, which is built inside /repo's module) runs the
   asynchronous implementation.  Either way the observable contract is the one below: one overdue tick is kept, it is the
   EARLIEST undelivered one, later ones are lost, and the period grid T0 + k*I does not move.

   THE CONSUMER = Read's loop.  A schedule is the sorted list [frees] of the instants at which the loop is at its
   select and takes the tick arm if a tick is there (between them it is busy: a login, an audit event, a blocked write,
   another ready arm chosen by select).  An idle loop that a tick wakes is free AT the tick's instant; [frees_of_busy]
   computes the free instants from a list of busy intervals that way (the form the harness scripts have).

   [run] / [consumed] : the CLEANUPS  (consumption time c, tick index k)  of a schedule.
   [consumed_cf]      : closed form (Proofs/TickerLemmas.v: equal to [consumed] for every schedule).
   [arm_ops]          : what the tick arm of the GENERATED Read (Gen/AuditProg.v) does at time now: the correlator
                        operations, with the cut-off expression evaluated as it is written in the source.
   [cleanup_ops]      : the same with cut-off c - I, the form the theorems use; Proofs/TickerLemmas.v proves the two
                        equal for the generated program, so a changed cut-off expression breaks that proof. *)
From Coq Require Import Ascii String.
From Coq Require Import List Bool Arith ZArith NArith Lia.
Import ListNotations.
From AM Require Import Model.Tracker Model.AuditIR.
Open Scope Z_scope.

(* ---------- the ticker ---------- *)

Record tk := { slot : option Z;    (* the channel's one buffer cell: index of the tick waiting in it *)
               nxt : Z }.           (* index of the next tick the runtime will fire *)

Definition tk0 : tk := {| slot := None; nxt := 1 |}.

(* one period boundary: non-blocking send of tick number [nxt] *)
Definition fire (st : tk) : tk :=
  {| slot := match slot st with None => Some (nxt st) | Some k => Some k end;
     nxt := nxt st + 1 |}.

Definition instant (I T0 k : Z) : Z := T0 + k * I.

(* number of boundaries T0 + k*I <= t that have not been fired yet *)
Definition due (I T0 t : Z) (st : tk) : nat := Z.to_nat ((t - T0) / I - nxt st + 1).

Fixpoint fire_n (n : nat) (st : tk) : tk :=
  match n with O => st | S m => fire_n m (fire st) end.

(* let time pass up to and including t *)
Definition advance (I T0 t : Z) (st : tk) : tk := fire_n (due I T0 t st) st.

(* a receive that does not block: the loop is at its select *)
Definition recv (st : tk) : option (Z * tk) :=
  match slot st with
  | Some k => Some (k, {| slot := None; nxt := nxt st |})
  | None => None
  end.

(* ---------- the loop ---------- *)

Fixpoint run (I T0 : Z) (st : tk) (frees : list Z) : list (Z * Z) :=
  match frees with
  | [] => []
  | f :: r =>
      let st1 := advance I T0 f st in
      match recv st1 with
      | Some (k, st2) => (f, k) :: run I T0 st2 r
      | None => run I T0 st1 r
      end
  end.

Definition consumed (I T0 : Z) (frees : list Z) : list (Z * Z) := run I T0 tk0 frees.

(* the ticks lost to a full slot up to the last free instant: fired, not consumed *)
Fixpoint zseq (n : nat) (k : Z) : list Z := match n with O => [] | S m => k :: zseq m (k + 1) end.
Definition dropped (I T0 : Z) (frees : list Z) : list Z :=
  let cs := map snd (consumed I T0 frees) in
  let last_f := fold_left Z.max frees T0 in
  filter (fun k => negb (existsb (Z.eqb k) cs)) (zseq (Z.to_nat ((last_f - T0) / I)) 1).

(* closed form: with the slot empty and [n] the next index, the loop consumes tick n at the first free instant at or
   after its boundary, and the next tick that can be delivered is the first boundary after that instant *)
Fixpoint consumed_cf (I T0 n : Z) (frees : list Z) : list (Z * Z) :=
  match frees with
  | [] => []
  | f :: r => if T0 + n * I <=? f then (f, n) :: consumed_cf I T0 ((f - T0) / I + 1) r
              else consumed_cf I T0 n r
  end.

(* ---------- schedules given as busy intervals [b, e) ---------- *)

Definition in_busy (busy : list (Z * Z)) (t : Z) : bool :=
  existsb (fun be => (fst be <=? t) && (t <? snd be)) busy.

Fixpoint zinsert (x : Z) (l : list Z) : list Z :=
  match l with [] => [x] | y :: r => if x <=? y then x :: l else y :: zinsert x r end.
Definition zsort (l : list Z) : list Z := fold_right zinsert [] l.

Definition inside_busy (busy : list (Z * Z)) (t : Z) : bool :=
  existsb (fun be => (fst be <? t) && (t <? snd be)) busy.

(* free instants up to the horizon H: the end of every busy interval (unless it lies strictly inside another one; an
   interval that begins exactly where the previous one ends leaves ONE free instant between them: the loop came back to
   its select and another arm was taken), and every tick boundary at which the loop is idle *)
Definition frees_of_busy (I T0 : Z) (busy : list (Z * Z)) (H : Z) : list Z :=
  zsort (filter (fun t => negb (inside_busy busy t) && (t <=? H)) (map snd busy) ++
         filter (fun t => negb (in_busy busy t) && (t <=? H))
                (map (instant I T0) (zseq (Z.to_nat ((H - T0) / I)) 1))).

(* ---------- what a consumed tick does ---------- *)

(* the form the theorems use: both sweeps, cut-off  c - I *)
Definition cleanup_at (I c : Z) : list top := [CleanSess (c - I); CleanLogins (c - I)].
Definition ops_of (I : Z) (cs : list (Z * Z)) : list top := flat_map (fun ck => cleanup_at I (fst ck)) cs.
Definition cleanup_ops (I T0 : Z) (frees : list Z) : list top := ops_of I (consumed I T0 frees).

(* the tick arm as GENERATED: interpret the arm's statements at clock reading [now] *)
Definition teval_z (env : list (string * Z)) (now : Z) (t : atime) : option Z :=
  match t with
  | TVar x => get x env
  | TNowAdd d => Some (now + d)
  | _ => None
  end.

Fixpoint arm_ops (env : list (string * Z)) (now : Z) (body : list astmt) : option (list top) :=
  match body with
  | [] => Some []
  | SDefineTime x t :: r =>
      match teval_z env now t with Some z => arm_ops ((x, z) :: env) now r | None => None end
  | SCleanSessions _ t :: r =>
      match teval_z env now t, arm_ops env now r with
      | Some z, Some ops => Some (CleanSess z :: ops)
      | _, _ => None
      end
  | SCleanLogins _ t :: r =>
      match teval_z env now t, arm_ops env now r with
      | Some z, Some ops => Some (CleanLogins z :: ops)
      | _, _ => None
      end
  | _ => None
  end.

Fixpoint find_ticker (b : list astmt) : option (string * Z) :=
  match b with
  | [] => None
  | SNewTicker x (DConst z) :: _ => Some (x, z)
  | _ :: r => find_ticker r
  end.

Fixpoint find_loop (b : list astmt) : option (list astmt) :=
  match b with
  | [] => None
  | SFor [SSelect arms] :: _ => Some arms
  | _ :: r => find_loop r
  end.

Fixpoint find_tick_arm (x : string) (arms : list astmt) : option (list astmt) :=
  match arms with
  | [] => None
  | SArmRecv None (ChTick t) body :: r => if String.eqb t x then Some body else find_tick_arm x r
  | _ :: r => find_tick_arm x r
  end.

(* period of Read's ticker, and the body of the select arm that receives from it *)
Definition read_ticker (f : afunc) : option (Z * list astmt) :=
  match find_ticker (af_body f), find_loop (af_body f) with
  | Some (x, z), Some arms =>
      match find_tick_arm x arms with Some body => Some (z, body) | None => None end
  | _, _ => None
  end.

Fixpoint arm_ops_all (body : list astmt) (cs : list (Z * Z)) : option (list top) :=
  match cs with
  | [] => Some []
  | (c, _) :: r =>
      match arm_ops [] c body, arm_ops_all body r with
      | Some a, Some b => Some (a ++ b)
      | _, _ => None
      end
  end.

(* the correlator operations of the generated Read started at T0 under the schedule [frees] *)
Definition cleanup_ops_gen (f : afunc) (T0 : Z) (frees : list Z) : option (list top) :=
  match read_ticker f with
  | Some (per, body) => arm_ops_all body (consumed per T0 frees)
  | None => None
  end.

(* ---------- the variant that is wrong: cut-off = time of the previous cleanup (the start for the first one) ---------- *)
Fixpoint prev_cutoff_ops (last : Z) (cs : list (Z * Z)) : list top :=
  match cs with
  | [] => []
  | (c, _) :: r => [CleanSess last; CleanLogins last] ++ prev_cutoff_ops c r
  end.
Definition cleanup_ops_prev (I T0 : Z) (frees : list Z) : list top := prev_cutoff_ops T0 (consumed I T0 frees).
