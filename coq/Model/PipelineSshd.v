(* The sshd pipeline of Model/SshdProc.v composed with the run model of Model/Pipeline.v (C10, C05).

   Model/Pipeline.v takes the sshd side as given: free [PWrite l] / [PDeliver l c] actions constrained only by
   the hypothesis [wf_run].  Here the sshd side is COMPUTED: a list of inputs, one per syslog record, each run
   through [SshdProc.process]; what that call writes and what it hands to the correlator become the sshd side's
   actions.  [wf_run] is then a theorem (Proofs/PipelineSshdLemmas.v), not an assumption.

   The three parties (cmd/namedpipe.go, processors/auditd/auditd.go):

   * the sshd goroutine — ONE goroutine (SyslogIngester.Ingest -> ProcessEntry per record), so the calls of
     [process] are sequential: everything of record k happens before anything of record k+1.  Per call, in
     this order: the successful writes (appended to the shared output), then the hand-off of each forwarded
     login on the unbuffered [logins] channel (Gen/OutputWiring.v: one channel, no capacity).  The hand-off is
     a rendez-vous: it completes only when Auditd.Read's loop is at its [select] and takes the login;
   * the reader — Auditd.Read's loop: [case remoteLogin := <-o.Logins: tracker.RemoteLogin(remoteLogin)].  It
     holds at most one taken login; until RemoteLogin has returned it is not back at its [select], so the sshd
     goroutine's NEXT hand-off cannot complete.  Note what this does NOT give: after the rendez-vous the sshd
     goroutine runs on, so the write of record k+1 may precede RemoteLogin of record k.  The model has that
     interleaving (the coarser "delivery immediately at the hand-off" is the special case [MSshd; MReader c]);
   * the other correlator calls — AuditdEvent from the parser goroutine / reassembler callback, the two
     cleanups of the ticker: a list of [aop], interleaved freely.  (The cleanups run on the reader's goroutine,
     so they cannot in fact fall between a rendez-vous and its RemoteLogin; the model allows that too — more
     interleavings than the code has, which only strengthens a statement about all of them.)

   A schedule is a list of moves saying who moves next; a move that is not enabled (nothing left on that side,
   or a hand-off while the reader still holds a login) is skipped; the run ends with the schedule, so every
   PREFIX of every complete interleaving is a run as well.

   ABSTRACTION (stated once, used everywhere): Model/Tracker.v identifies a remote login by [l_id] and keeps of
   its content only what the correlator looks at.  The login abstracting what the call for record number k
   (0-based position in the input list) wrote / forwarded is [abs_login k at r]:
     l_id    = k                                        (the record's index: unique per call)
     l_pid   = PID of the forwarded login (strconv.Atoi of the pid token, C05_forward_content), 0 if none
     l_at    = [i_at]: the LoggedAt the handler stamped on the event (time.Now(), an input)
     l_valid = a login is forwarded and its CredUserID is not "" (Source is never nil for a forwarded login:
               it is the written event) — RemoteUserLogin.Validate's two non-PID clauses.
   Both the entry [ELogin l] of the output and the delivered login of record k are this one value; the
   concrete event behind [ELogin l] is the event record [l_id l] wrote ([written]). *)
From Coq Require Import Ascii String List Bool Arith ZArith NArith.
Import ListNotations.
From AM Require Import Lib.Bytes Lib.Assoc Model.SshdProc Model.Tracker Model.Pipeline.

(* one syslog record reaching ProcessEntry, with the environment's answers for this call *)
Record sinput := {
  i_tok : str;         (* pid token *)
  i_line : str;        (* message: any bytes *)
  i_wok : bool;        (* does the event writer accept this call's write *)
  i_ready : bool;      (* does the correlator take the login (false: the context is cancelled first) *)
  i_at : Z             (* time.Now() read by the handler *)
}.

Definition run_line (c : cfg) (i : sinput) : result := process c (i_tok i) (i_line i) (i_wok i) (i_ready i).

(* the events of a call that reached the output: a failed write (the last one, iff RetWriteErr) did not *)
Definition written (r : result) : list event :=
  match r_ret r with
  | RetWriteErr => removelast (r_writes r)
  | _ => r_writes r
  end.

Definition cred_nonempty (s : str) : bool := match s with [] => false | _ => true end.

Definition abs_login (k : nat) (at_ : Z) (r : result) : login :=
  {| l_id := k;
     l_pid := match r_forwards r with f :: _ => f_pid f | [] => 0%Z end;
     l_at := at_;
     l_valid := match r_forwards r with f :: _ => cred_nonempty (f_cred f) | [] => false end |}.

(* actions of the sshd goroutine *)
Inductive sact :=
| SW (l : login)      (* a successful write of the UserLogin abstracted by l *)
| SH (l : login).     (* hand-off of l on the unbuffered channel *)

Definition line_acts (c : cfg) (k : nat) (i : sinput) : list sact :=
  let r := run_line c i in
  let l := abs_login k (i_at i) r in
  map (fun _ => SW l) (written r) ++ map (fun _ => SH l) (r_forwards r).

(* records k, k+1, ... in order *)
Fixpoint sshd_acts_from (c : cfg) (k : nat) (ins : list sinput) : list sact :=
  match ins with
  | [] => []
  | i :: r => line_acts c k i ++ sshd_acts_from c (S k) r
  end.

Definition sshd_acts (c : cfg) (ins : list sinput) : list sact := sshd_acts_from c 0 ins.

(* the other correlator calls *)
Inductive aop :=
| AAudit (ev : aev) (now : Z)
| ACleanS (t : Z)
| ACleanL (t : Z).

Definition pact_of_aop (a : aop) : pact :=
  match a with
  | AAudit ev now => PAudit ev now
  | ACleanS t => PCleanS t
  | ACleanL t => PCleanL t
  end.

Inductive move :=
| MSshd               (* the sshd goroutine performs its next action *)
| MReader (c : nat)   (* the reader calls RemoteLogin on the login it holds; c = the scan's map-iteration choice *)
| MAudit.             (* the next of the other correlator calls *)

Record cstate := {
  c_sshd : list sact;        (* what the sshd goroutine still has to do *)
  c_pend : option login;     (* login taken by the reader, RemoteLogin not yet called *)
  c_aud : list aop
}.

Fixpoint crun (sched : list move) (st : cstate) : list pact :=
  match sched with
  | [] => []
  | m :: s =>
      match m with
      | MSshd =>
          match c_sshd st with
          | SW l :: r => PWrite l :: crun s {| c_sshd := r; c_pend := c_pend st; c_aud := c_aud st |}
          | SH l :: r =>
              match c_pend st with
              | None => crun s {| c_sshd := r; c_pend := Some l; c_aud := c_aud st |}   (* rendez-vous *)
              | Some _ => crun s st                                                     (* blocked *)
              end
          | [] => crun s st
          end
      | MReader c =>
          match c_pend st with
          | Some l => PDeliver l c :: crun s {| c_sshd := c_sshd st; c_pend := None; c_aud := c_aud st |}
          | None => crun s st
          end
      | MAudit =>
          match c_aud st with
          | a :: r => pact_of_aop a :: crun s {| c_sshd := c_sshd st; c_pend := c_pend st; c_aud := r |}
          | [] => crun s st
          end
      end
  end.

Definition cinit (c : cfg) (ins : list sinput) (aud : list aop) : cstate :=
  {| c_sshd := sshd_acts c ins; c_pend := None; c_aud := aud |}.

(* the run of Model/Pipeline.v that the combined system performs under a schedule *)
Definition acts_of (c : cfg) (ins : list sinput) (aud : list aop) (sched : list move) : list pact :=
  crun sched (cinit c ins aud).

(* every login the sshd goroutine hands over, in record order *)
Definition handoffs (l : list sact) : list login :=
  flat_map (fun a => match a with SH x => [x] | SW _ => [] end) l.

Definition deliveries (acts : list pact) : list login :=
  flat_map (fun a => match a with PDeliver l _ => [l] | _ => [] end) acts.

Definition audit_part (acts : list pact) : list pact :=
  filter (fun a => match a with PAudit _ _ | PCleanS _ | PCleanL _ => true | _ => false end) acts.
