(* Model of the audit processor: processors/auditd/auditd.go (Read, parseAuditLogs),
   processors/auditd/reassembler_callback.go (ReassemblyComplete) and of the part of
   go-libaudit's reassembler.go they drive (eventList.Put / CleanUp / Clear, event.Add).
   Definitions only; proofs are in Proofs/AuditProcLemmas.v, statements in Props/C15.v.

   ORACLES (section variables; their results are inputs of the correspondence check):
   - [parse]    auparse.ParseLogLine: a line yields a message or an error; of a message only the
                sequence number [mseq] and the record type [mtype] matter here;
   - [coalesce] aucoalesce.CoalesceMessages (+ ResolveIDs): a group yields an event or an error;
   - [old]      event.Timestamp.Before(after), the configured After filter;
   - [audit], [rlogin] the correlator (sessiontracker.AuditdEvent / RemoteLogin) as a state
                machine returning an optional error (Model/Tracker.v is a model of it).

   HAND-MODELLED from go-libaudit v2.3.3 reassembler.go:
   - the seqs slice + events map are one list of events sorted by sequence number
     (plain order on numbers: the roll-over rule of sequenceNumSlice.Less, |a-b| > 2^24-1,
     is LEFT OUT; streams whose sequence numbers span less than 2^24 are covered);
   - Put: an EOE record only marks an existing event complete and is never appended; any other
     record is appended to the event of its sequence number (created, with expiry time
     now+timeout, when absent); PROCTITLE, types <= 1299 and types >= 2100 mark it complete;
   - CleanUp: events are evicted from the head (lowest sequence number) while the head is
     complete, or the list is longer than maxInFlight, or the head has expired; an evicted event
     is ALWAYS handed to ReassemblyComplete (eviction never discards records); the EventsLost
     count is the uint32 gap arithmetic on lastSeq (only logged by the processor);
   - Clear (Close): everything is evicted in order;
   - time is a number carried by each input (the value time.Now() returns); real-time expiry is
     thus an explicit input, not a clock.

   Read's goroutines: one input = one atomic step of the parser goroutine (a line), of the
   maintain goroutine (a tick), or of the main loop (a login taken, cancellation).  The main
   loop is blocked in select; the model lets it run after every step of the others (eager
   polling), so that Read's result is the first pending error.  When a parser error and a slot
   error are both pending Go's select may pick either; eager polling never reaches that state.
   What the parser goroutine does after Read has returned (C13) is not modelled. *)
From Coq Require Import List Bool Arith NArith Lia.
Import ListNotations.

(* auparse record types that matter to event.Add / eventList.Put *)
Definition T_EOE : nat := 1320.
Definition T_PROCTITLE : nat := 1327.
Definition T_LAST_DAEMON : nat := 1299.
Definition T_ANOM_LOGIN_FAILURES : nat := 2100.

Definition is_eoe (ty : nat) : bool := ty =? T_EOE.
(* event.Add: "These messages all signal the completion of an event." *)
Definition completes (ty : nat) : bool :=
  (ty =? T_PROCTITLE) || (ty <=? T_LAST_DAEMON) || (T_ANOM_LOGIN_FAILURES <=? ty).

(* int(seq - l.lastSeq - 1) on uint32 values, guarded by lastSeq > 0 *)
Definition lost_gap (last s : N) : N :=
  if (0 <? last)%N then ((s + 4294967296 - last - 1) mod 4294967296)%N else 0%N.

Section Reassembler.
  Variable msg : Type.
  Variable mseq : msg -> N.
  Variable mtype : msg -> nat.

  Record rev := { e_seq : N; e_msgs : list msg; e_done : bool; e_exp : nat }.
  Record rst := { r_evs : list rev; r_last : N }.
  Definition rinit : rst := {| r_evs := []; r_last := 0%N |}.

  Definition non_eoe (m : msg) : bool := negb (is_eoe (mtype m)).
  (* a record after which its event counts as complete *)
  Definition closes (m : msg) : bool := is_eoe (mtype m) || completes (mtype m).

  Definition ev_add (m : msg) (e : rev) : rev :=
    {| e_seq := e_seq e; e_msgs := e_msgs e ++ [m]; e_done := e_done e || completes (mtype m); e_exp := e_exp e |}.
  Definition ev_new (exp : nat) (m : msg) : rev :=
    {| e_seq := mseq m; e_msgs := [m]; e_done := completes (mtype m); e_exp := exp |}.

  Fixpoint put_ev (exp : nat) (m : msg) (l : list rev) : list rev :=
    match l with
    | [] => [ev_new exp m]
    | e :: r => if (mseq m =? e_seq e)%N then ev_add m e :: r
                else if (mseq m <? e_seq e)%N then ev_new exp m :: e :: r
                else e :: put_ev exp m r
    end.

  Definition set_done (e : rev) : rev :=
    {| e_seq := e_seq e; e_msgs := e_msgs e; e_done := true; e_exp := e_exp e |}.

  Fixpoint mark_done (s : N) (l : list rev) : list rev :=
    match l with
    | [] => []
    | e :: r => if (s =? e_seq e)%N then set_done e :: r else e :: mark_done s r
    end.

  (* eventList.Put *)
  Definition put (timeout now : nat) (m : msg) (l : list rev) : list rev :=
    if is_eoe (mtype m) then mark_done (mseq m) l else put_ev (now + timeout) m l.

  (* the condition of CleanUp's loop for the head [e] of the list [l] *)
  Definition evictable (maxsz now : nat) (e : rev) (l : list rev) : bool :=
    e_done e || (maxsz <? length l) || (e_exp e <? now).

  (* eventList.CleanUp: (evicted, kept) *)
  Fixpoint cleanup (maxsz now : nat) (l : list rev) : list rev * list rev :=
    match l with
    | [] => ([], [])
    | e :: r => if evictable maxsz now e l
                then (e :: fst (cleanup maxsz now r), snd (cleanup maxsz now r))
                else ([], l)
    end.

  Fixpoint lost_of (last : N) (ev : list rev) : N :=
    match ev with
    | [] => 0%N
    | e :: r => (lost_gap last (e_seq e) + lost_of (e_seq e) r)%N
    end.

  Definition last_of (last : N) (ev : list rev) : N := List.last (map e_seq ev) last.

  Inductive rop := RPush (now : nat) (m : msg) | RMaintain (now : nat) | RClose.

  Definition op_time (o : rop) : nat :=
    match o with RPush t _ => t | RMaintain t => t | RClose => 0 end.

  (* one call of PushMessage / Maintain / Close: new state, evicted events in callback order,
     the argument of EventsLost (0 = not called) *)
  Definition rstep (maxsz timeout : nat) (st : rst) (o : rop) : rst * list rev * N :=
    match o with
    | RPush now m =>
        let c := cleanup maxsz now (put timeout now m (r_evs st)) in
        ({| r_evs := snd c; r_last := last_of (r_last st) (fst c) |}, fst c, lost_of (r_last st) (fst c))
    | RMaintain now =>
        let c := cleanup maxsz now (r_evs st) in
        ({| r_evs := snd c; r_last := last_of (r_last st) (fst c) |}, fst c, lost_of (r_last st) (fst c))
    | RClose =>
        ({| r_evs := []; r_last := last_of (r_last st) (r_evs st) |}, r_evs st, lost_of (r_last st) (r_evs st))
    end.

  (* running a sequence of calls: final state, all evicted events in order *)
  Fixpoint rrun (maxsz timeout : nat) (st : rst) (ops : list rop) : rst * list rev :=
    match ops with
    | [] => (st, [])
    | o :: r => let '(st', ev, _) := rstep maxsz timeout st o in
                let '(st'', ev') := rrun maxsz timeout st' r in (st'', ev ++ ev')
    end.

  (* the groups ReassemblyComplete receives when [ops] are followed by Close *)
  Definition groups_of (maxsz timeout : nat) (ops : list rop) : list (list msg) :=
    let '(st, ev) := rrun maxsz timeout rinit ops in map e_msgs (ev ++ r_evs st).

  Definition op_msgs (o : rop) : list msg := match o with RPush _ m => [m] | _ => [] end.
  Definition ops_msgs (ops : list rop) : list msg := flat_map op_msgs ops.

  (* the records of sequence number s, in arrival order *)
  Definition recs_of (s : N) (ms : list msg) : list msg :=
    filter (fun m => (mseq m =? s)%N && non_eoe m) ms.

  (* size of the buffer right after Put, i.e. when CleanUp compares it with maxInFlight *)
  Definition size_after_put (timeout : nat) (st : rst) (o : rop) : nat :=
    match o with
    | RPush now m => length (put timeout now m (r_evs st))
    | _ => length (r_evs st)
    end.

  (* "at most maxsz events are open at once": the buffer never exceeds maxsz when checked *)
  Fixpoint size_ok (maxsz timeout : nat) (st : rst) (ops : list rop) : Prop :=
    match ops with
    | [] => True
    | o :: r => size_after_put timeout st o <= maxsz /\
                size_ok maxsz timeout (fst (fst (rstep maxsz timeout st o))) r
    end.

  (* each event's terminating record comes after its other records *)
  Definition term_last (ms : list msg) : Prop :=
    forall pre m post m', ms = pre ++ m :: post -> closes m = true ->
      In m' post -> non_eoe m' = true -> mseq m' <> mseq m.
End Reassembler.

Arguments e_seq {msg}. Arguments e_msgs {msg}. Arguments e_done {msg}. Arguments e_exp {msg}.
Arguments r_evs {msg}. Arguments r_last {msg}.
Arguments RPush {msg}. Arguments RMaintain {msg}. Arguments RClose {msg}.

(* ---- the source's ordering, and the reassembler ordered by ANY comparison --------------------------
   sequenceNumSlice.Less of go-libaudit's reassembler.go, with its roll-over rule: two numbers further apart
   than maxSortRange = 2^24-1 compare the other way round.  [put_ev_by less] is [put_ev] with [less] in place
   of [<?]; everything else of the reassembler ([mark_done], [cleanup], [lost_of], [last_of]) does not
   compare sequence numbers.  Proofs/ReassemblerIRTie.v: [put_ev_by N.ltb = put_ev]; [seq_less] IS the
   generated Less; the generated Put / PushMessage are [put_by seq_less] / [rstep_by seq_less] whenever Less
   is a strict total order on the numbers present (sort.Sort's contract), and [seq_less = <?] on numbers
   pairwise closer than 2^24, so that the plain-order definitions above (about which Props/C15.v speaks) are
   what the source does for such streams.  At a roll-over (2^32-1 followed by 0) only the [_by] definitions
   apply: 0 sorts AFTER 2^32-1. *)
Definition max_sort_range : N := 16777215.
Definition seq_dist (a b : N) : N := if (a <? b)%N then (b - a)%N else (a - b)%N.
Definition seq_less (a b : N) : bool :=
  if (max_sort_range <? seq_dist a b)%N then (b <? a)%N else (a <? b)%N.

Section ReassemblerBy.
  Variable msg : Type.
  Variable mseq : msg -> N.
  Variable mtype : msg -> nat.
  Variable less : N -> N -> bool.

  Fixpoint put_ev_by (exp : nat) (m : msg) (l : list (rev msg)) : list (rev msg) :=
    match l with
    | [] => [ev_new msg mseq mtype exp m]
    | e :: r => if (mseq m =? e_seq e)%N then ev_add msg mtype m e :: r
                else if less (mseq m) (e_seq e) then ev_new msg mseq mtype exp m :: e :: r
                else e :: put_ev_by exp m r
    end.

  Definition put_by (timeout now : nat) (m : msg) (l : list (rev msg)) : list (rev msg) :=
    if is_eoe (mtype m) then mark_done msg (mseq m) l else put_ev_by (now + timeout) m l.

  Definition rstep_by (maxsz timeout : nat) (st : rst msg) (o : rop msg) : rst msg * list (rev msg) * N :=
    match o with
    | RPush now m =>
        let c := cleanup msg maxsz now (put_by timeout now m (r_evs st)) in
        ({| r_evs := snd c; r_last := last_of msg (r_last st) (fst c) |}, fst c, lost_of msg (r_last st) (fst c))
    | _ => rstep msg mseq mtype maxsz timeout st o
    end.

  Fixpoint rrun_by (maxsz timeout : nat) (st : rst msg) (ops : list (rop msg)) : rst msg * list (rev msg) :=
    match ops with
    | [] => (st, [])
    | o :: r => let '(st', ev, _) := rstep_by maxsz timeout st o in
                let '(st'', ev') := rrun_by maxsz timeout st' r in (st'', ev ++ ev')
    end.

  (* the groups ReassemblyComplete receives when [ops] are followed by Close *)
  Definition groups_of_by (maxsz timeout : nat) (ops : list (rop msg)) : list (list msg) :=
    let '(st, ev) := rrun_by maxsz timeout (rinit msg) ops in map e_msgs (ev ++ r_evs st).
End ReassemblerBy.

Section Processor.
  Variables line msg event cerr login AS : Type.
  Variable is_empty : line -> bool.                  (* line == "" *)
  Variable parse : line -> option msg.               (* auparse.ParseLogLine *)
  Variable mseq : msg -> N.
  Variable mtype : msg -> nat.
  Variable coalesce : list msg -> option event.      (* aucoalesce.CoalesceMessages; None = error *)
  Variable old : event -> bool.                      (* event.Timestamp.Before(s.after) *)
  Variable audit : AS -> event -> AS * option cerr.  (* s.au.AuditdEvent *)
  Variable rlogin : AS -> login -> AS * option cerr. (* tracker.RemoteLogin *)
  Variable maxsz timeout : nat.                      (* maxEventsInFlight, eventTimeout *)

  (* parseAuditLogs on a finite stream: the messages pushed, the line it stopped at *)
  Fixpoint parse_loop (ls : list line) : list msg * option line :=
    match ls with
    | [] => ([], None)
    | l :: r => if is_empty l then parse_loop r else
                match parse l with
                | None => ([], Some l)
                | Some m => (m :: fst (parse_loop r), snd (parse_loop r))
                end
    end.

  (* what the non-empty parsable lines of [ls] push *)
  Definition pushes (ls : list line) : list msg :=
    flat_map (fun l => if is_empty l then [] else match parse l with Some m => [m] | None => [] end) ls.

  (* reassemblerCBError: which group, which cause *)
  Inductive rerr := ECoalesce (g : list msg) | EAudit (g : list msg) (c : cerr).

  Record cb := {
    cb_as : AS;                      (* correlator state *)
    cb_slot : option rerr;           (* the errors channel, capacity 1 *)
    cb_errs : list rerr;             (* ghost: every error the callback produced *)
    cb_dropped : list rerr;          (* ghost: those whose send took the default arm *)
    cb_groups : list (list msg);     (* ghost: every group ReassemblyComplete received *)
    cb_handed : list event;          (* ghost: every event handed to the correlator *)
    cb_lost : list N                 (* ghost: EventsLost arguments *)
  }.

  (* select { case s.errors <- e: default: } *)
  Definition send (e : rerr) (c : cb) : cb :=
    match cb_slot c with
    | None => {| cb_as := cb_as c; cb_slot := Some e; cb_errs := cb_errs c ++ [e]; cb_dropped := cb_dropped c;
                 cb_groups := cb_groups c; cb_handed := cb_handed c; cb_lost := cb_lost c |}
    | Some _ => {| cb_as := cb_as c; cb_slot := cb_slot c; cb_errs := cb_errs c ++ [e]; cb_dropped := cb_dropped c ++ [e];
                   cb_groups := cb_groups c; cb_handed := cb_handed c; cb_lost := cb_lost c |}
    end.

  Definition note_group (g : list msg) (c : cb) : cb :=
    {| cb_as := cb_as c; cb_slot := cb_slot c; cb_errs := cb_errs c; cb_dropped := cb_dropped c;
       cb_groups := cb_groups c ++ [g]; cb_handed := cb_handed c; cb_lost := cb_lost c |}.

  Definition note_handed (a : AS) (ev : event) (c : cb) : cb :=
    {| cb_as := a; cb_slot := cb_slot c; cb_errs := cb_errs c; cb_dropped := cb_dropped c;
       cb_groups := cb_groups c; cb_handed := cb_handed c ++ [ev]; cb_lost := cb_lost c |}.

  Definition note_lost (n : N) (c : cb) : cb :=
    if (n =? 0)%N then c else
    {| cb_as := cb_as c; cb_slot := cb_slot c; cb_errs := cb_errs c; cb_dropped := cb_dropped c;
       cb_groups := cb_groups c; cb_handed := cb_handed c; cb_lost := cb_lost c ++ [n] |}.

  (* reassemblerCB.ReassemblyComplete *)
  Definition deliver (c : cb) (g : list msg) : cb :=
    let c := note_group g c in
    match coalesce g with
    | None => send (ECoalesce g) c
    | Some ev =>
        if old ev then c else
        let '(a, r) := audit (cb_as c) ev in
        let c := note_handed a ev c in
        match r with None => c | Some x => send (EAudit g x) c end
    end.

  (* Reassembler.callback *)
  Definition callback (c : cb) (evicted : list (rev msg)) (lost : N) : cb :=
    note_lost lost (fold_left deliver (map e_msgs evicted) c).

  Record pst := {
    p_r : rst msg;
    p_cb : cb;
    p_perr : option line;            (* parseAuditLogs has returned with this line's error *)
    p_consumed : list line;          (* ghost: lines the parser goroutine received *)
    p_ops : list (rop msg)           (* ghost: calls made on the reassembler *)
  }.

  Definition pinit (a : AS) : pst :=
    {| p_r := rinit msg;
       p_cb := {| cb_as := a; cb_slot := None; cb_errs := []; cb_dropped := []; cb_groups := []; cb_handed := []; cb_lost := [] |};
       p_perr := None; p_consumed := []; p_ops := [] |}.

  Inductive inp :=
  | ILine (now : nat) (l : line)     (* the parser goroutine receives a line *)
  | ITick (now : nat)                (* maintainReassemblerLoop calls Maintain *)
  | ILogin (lg : login)              (* the main loop takes a login *)
  | ICancel.                         (* ctx is cancelled and the main loop notices *)

  Inductive result := RNone | RParse (l : line) | RSlot (e : rerr) | RLogin (c : cerr) | RCancel.

  Definition reass (s : pst) (o : rop msg) : pst :=
    let '(r', ev, lost) := rstep msg mseq mtype maxsz timeout (p_r s) o in
    {| p_r := r'; p_cb := callback (p_cb s) ev lost; p_perr := p_perr s; p_consumed := p_consumed s;
       p_ops := p_ops s ++ [o] |}.

  Definition consume (l : line) (s : pst) : pst :=
    {| p_r := p_r s; p_cb := p_cb s; p_perr := p_perr s; p_consumed := p_consumed s ++ [l]; p_ops := p_ops s |}.

  Definition set_perr (l : line) (s : pst) : pst :=
    {| p_r := p_r s; p_cb := p_cb s; p_perr := Some l; p_consumed := p_consumed s; p_ops := p_ops s |}.

  Definition set_cb (c : cb) (s : pst) : pst :=
    {| p_r := p_r s; p_cb := c; p_perr := p_perr s; p_consumed := p_consumed s; p_ops := p_ops s |}.

  (* one iteration of parseAuditLogs' loop for a received line *)
  Definition on_line (now : nat) (l : line) (s : pst) : pst :=
    let s := consume l s in
    if is_empty l then s else
    match parse l with
    | None => set_perr l s
    | Some m => reass s (RPush now m)
    end.

  Definition take_slot (c : cb) : cb :=
    {| cb_as := cb_as c; cb_slot := None; cb_errs := cb_errs c; cb_dropped := cb_dropped c;
       cb_groups := cb_groups c; cb_handed := cb_handed c; cb_lost := cb_lost c |}.

  (* the main loop's select after a step of another goroutine *)
  Definition poll (s : pst) : pst * result :=
    match p_perr s with
    | Some l => (s, RParse l)
    | None => match cb_slot (p_cb s) with
              | Some e => (set_cb (take_slot (p_cb s)) s, RSlot e)
              | None => (s, RNone)
              end
    end.

  Definition step (s : pst) (i : inp) : pst * result :=
    match i with
    | ILine now l => poll (on_line now l s)
    | ITick now => poll (reass s (RMaintain now))
    | ILogin lg =>
        let '(a, r) := rlogin (cb_as (p_cb s)) lg in
        let c := p_cb s in
        let s' := set_cb {| cb_as := a; cb_slot := cb_slot c; cb_errs := cb_errs c; cb_dropped := cb_dropped c;
                            cb_groups := cb_groups c; cb_handed := cb_handed c; cb_lost := cb_lost c |} s in
        (s', match r with Some x => RLogin x | None => RNone end)
    | ICancel => (s, RCancel)
    end.

  (* the select loop until the first return *)
  Fixpoint read_from (s : pst) (ins : list inp) : pst * result :=
    match ins with
    | [] => (s, RNone)
    | i :: r => match step s i with
                | (s', RNone) => read_from s' r
                | (s', res) => (s', res)
                end
    end.

  (* defer reassembler.Close() *)
  Definition shutdown (s : pst) : pst := reass s RClose.

  Record outcome := {
    o_res : result;      (* what Read returns; RNone: still running when the inputs end *)
    o_ret : pst;         (* state when it returns *)
    o_fin : pst          (* state after the deferred Close has flushed *)
  }.

  Definition read (a : AS) (ins : list inp) : outcome :=
    let '(s, res) := read_from (pinit a) ins in
    {| o_res := res; o_ret := s; o_fin := shutdown s |}.

  Definition lines_of (ins : list inp) : list line :=
    flat_map (fun i => match i with ILine _ l => [l] | _ => [] end) ins.

  Definition perr_of (r : result) : option line := match r with RParse l => Some l | _ => None end.
End Processor.

(* The capacity-1 channel on its own, for any interleaving of non-blocking sends and receives. *)
Section Slot.
  Variable E : Type.
  Inductive sop := SSend (e : E) | STake.
  (* state: slot; outputs: errors received, errors dropped *)
  Fixpoint slot_run (slot : option E) (ops : list sop) : option E * list E * list E :=
    match ops with
    | [] => (slot, [], [])
    | SSend e :: r =>
        match slot with
        | None => slot_run (Some e) r
        | Some _ => let '(s, got, dr) := slot_run slot r in (s, got, e :: dr)
        end
    | STake :: r =>
        match slot with
        | None => slot_run None r            (* nothing ready: the select does not take this arm *)
        | Some e => let '(s, got, dr) := slot_run None r in (s, e :: got, dr)
        end
    end.
End Slot.
Arguments SSend {E}. Arguments STake {E}.
