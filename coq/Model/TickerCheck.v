(* Correspondence check for the ticker model (C16): observation format written by harness/ticker and its comparison
   with Model/Ticker.v, evaluated by vm_compute.

   A case is one script run against the REAL time.NewTicker(period): all times in microseconds relative to the clock
   reading taken just before NewTicker (so T0 = 0);  [busy] = the intervals [b, e) during which the consumer goroutine
   did not receive (it slept), [horizon] = when it stopped receiving, [obs] = for every tick received (receive time,
   index of the tick = its value rounded to the period grid), [lost] = the indices up to the horizon that were never
   received, [tol] = the tolerance on times the harness declares (a fraction of the period, smaller than the margin its
   scripts keep between busy-interval ends and tick instants).
   The model must deliver exactly the observed indices, in that order, each at the observed time +- tol, and lose
   exactly the observed lost ones.  Nothing is canonicalised. *)
From Coq Require Import List Bool Arith ZArith NArith Lia.
Import ListNotations.
From AM Require Import Model.Ticker.
Open Scope Z_scope.

Inductive tcase := TCase (period : Z) (busy : list (Z * Z)) (horizon tol : Z) (obs : list (Z * Z)) (lost : list Z).

Fixpoint all2z {A B} (f : A -> B -> bool) (a : list A) (b : list B) : bool :=
  match a, b with
  | [], [] => true
  | x :: r, y :: r' => f x y && all2z f r r'
  | _, _ => false
  end.

Definition near (tol : Z) (m o : Z * Z) : bool :=
  (snd m =? snd o) && (Z.abs (fst m - fst o) <=? tol).

Definition model_of (c : tcase) : list (Z * Z) * list Z :=
  let '(TCase period busy horizon _ _ _) := c in
  let frees := frees_of_busy period 0 busy horizon in
  (consumed period 0 frees, dropped period 0 frees).

Definition case_ok (c : tcase) : bool :=
  let '(TCase period busy horizon tol obs lost) := c in
  let (mc, ml) := model_of c in
  (0 <? period) && all2z (near tol) mc obs && all2z Z.eqb ml lost
  (* the closed form the theorems are proved about gives the same list (also proved: TickerLemmas.consumed_closed_form) *)
  && all2z (near 0) mc (consumed_cf period 0 1 (frees_of_busy period 0 busy horizon)).

Fixpoint mism_from {A} (f : A -> bool) (i : nat) (cs : list A) : list nat :=
  match cs with
  | [] => []
  | c :: r => if f c then mism_from f (S i) r else i :: mism_from f (S i) r
  end.

Definition ticker_mismatches (cs : list tcase) : list nat := mism_from case_ok 0 cs.

(* a 1.5-period stall starting at 0.6 periods (period 100): tick 1 waits in the slot, tick 2 is lost, 3.. on time *)
Example ticker_check_example :
  ticker_mismatches [TCase 100 [(60, 210)] 450 30 [(212, 1); (301, 3); (400, 4)] [2]] = [] /\
  ticker_mismatches [TCase 100 [(60, 210)] 450 30 [(212, 1); (213, 2); (301, 3); (400, 4)] []] = [0%nat].
Proof. vm_compute. split; reflexivity. Qed.
