(* A small deep-embedded IR for go-libaudit's reassembler.go (THIRD-PARTY code: the module /repo/go.mod
   pins, github.com/elastic/go-libaudit/v2 replaced by github.com/metal-toolbox/go-libaudit/v2) and its
   interpreter.  Definitions only.
     eventList.Put, event.Add, event.IsExpired, eventList.CleanUp, eventList.Clear, eventList.remove,
     sequenceNumSlice.Less, abs, Reassembler.PushMessage / Maintain / Close / callback
   The programs are GENERATED (Gen/ReassemblerProg.v, by tools/go2v/reassemblergen.go, from the module
   directory the way `go list -m` resolves it); Proofs/ReassemblerIRTie.v proves that interpreting them
   gives Model/AuditProc.v's [put] / [cleanup] / [rstep] (and the order-generic [put_by] / [rstep_by]).

   WHAT THE INTERPRETER KEEPS, as the source does:
   - l.seqs, a slice of sequence numbers: a list;  l.events, a map from sequence numbers to *event: an
     association list (Lib/Assoc.v) from numbers to ADDRESSES;  the events themselves live in a heap
     (a list, an address is an index; &event{..} allocates at the end), so that e.complete = true and
     e.Add(msg) mutate the one object every holder of the pointer sees;
   - l.lastSeq, l.maxSize, l.timeout, the mutex of the list (a boolean: Lock on a locked mutex has no
     meaning, the deferred Unlock runs when the function returns), r.closed (the int32 itself),
     the Stream callbacks made so far (the output);
   - time.Now() is the [c_now] component: the clock reading of the call in progress, the [now] input of
     Model/AuditProc.v (one reading per PushMessage / Maintain, as there);
   - sequence numbers are uint32 ([VU32], arithmetic modulo 2^32); int and int64 are unbounded integers
     (the only int arithmetic is  lost += int(a uint32 value)  and  len(..)  comparisons, the only int64
     arithmetic the difference of two uint32 values and its negation: none of them can overflow 64 bits
     for fewer than 2^31 evictions per call);
   - an untyped integer constant next to a uint32 operand is a uint32 constant.

   STATED CONTRACT of sort.Sort (what  l.seqs.Sort()  reaches; the translator checks that Sort is
   sort.Sort(p) and that Len and Swap are the usual ones): Less(i, j) is consulted as a comparison of the
   elements p[i] and p[j]; WHEN that comparison is a strict total order on the elements present
   (irreflexive, exactly one of a<b, b<a for a <> b, transitive) the result is THE sorted permutation, here
   computed by insertion.  Otherwise sort.Sort promises nothing and the interpreter gives no meaning
   ([None]).  With the roll-over rule Less is not transitive in general (0 < 2^24-1 < 2^25-2 < 0), so
   this is a real precondition: Proofs/ReassemblerIRTie.v proves it for all numbers in a window (pairwise
   closer than 2^24) and for two such clusters further apart than 2^24-1 (e.g. either side of the wrap).

   A  for { .. }  loop is given  len(l.seqs)+1  iterations: an iteration that does not leave the loop has to
   shorten l.seqs; a loop needing more has no meaning.  Calls are interpreted through the table of
   generated functions, to a fixed depth.  [None] = the program does something the interpreter gives no
   meaning to (nil dereference, index out of range, ill-typed operands, unknown shapes). *)
From Coq Require Import String List Bool Arith ZArith NArith.
Import ListNotations.
From AM Require Import Lib.Assoc.
Open Scope string_scope.
Open Scope list_scope.

(* ---- syntax -------------------------------------------------------------------------------- *)

(* struct fields, named by ROLE: the translator identifies a field by its declared type, so renaming a
   field in the source changes nothing here *)
Inductive field :=
| FSeqs | FEvents | FLastSeq | FMaxSize | FTimeout     (* eventList: sequenceNumSlice, map[sequenceNum]*event, sequenceNum, int, time.Duration *)
| FExpire | FMsgs | FComplete                           (* event: time.Time, []*auparse.AuditMessage, bool *)
| FClosed | FList | FStream                             (* Reassembler: int32, *eventList, Stream *)
| FSequence | FRecordType.                              (* auparse.AuditMessage: Sequence uint32, RecordType AuditMessageType *)

Inductive ctype := TInt | TInt64 | TSeqNum | TEvSlice.   (* int, int64, sequenceNum, []*event *)

Inductive cmpop := OEq | ONe | OLt | OLe | OGt | OGe.

(* the translated functions *)
Inductive fname :=
| FnPut | FnAdd | FnIsExpired | FnCleanUp | FnClear | FnRemove | FnLess | FnAbs
| FnPushMessage | FnMaintain | FnClose | FnCallback.

Inductive rexpr :=
| XVar (x : string)
| XInt (z : Z)                                   (* integer literal or resolved constant *)
| XBool (b : bool)
| XNilE                                          (* nil *)
| XErrVar (name : string)                        (* a package-level error variable *)
| XField (o : rexpr) (f : field)                 (* o.f *)
| XLen (a : rexpr)                               (* len(a) *)
| XIndex (a i : rexpr)                           (* a[i] on a slice *)
| XMapGet (m k : rexpr)                          (* m[k], one result: nil when absent *)
| XSliceFrom (a lo : rexpr)                      (* a[lo:] *)
| XAppend (a x : rexpr)                          (* append(a, x) *)
| XSub (a b : rexpr)
| XNeg (a : rexpr)
| XConv (t : ctype) (a : rexpr)                  (* t(a) *)
| XCmp (op : cmpop) (a b : rexpr)
| XNot (a : rexpr)
| XOr (a b : rexpr)                              (* a || b, b evaluated only when a is false *)
| XAnd (a b : rexpr)
| XNow                                           (* time.Now() *)
| XTimeAdd (t d : rexpr)                         (* t.Add(d) *)
| XTimeAfter (a b : rexpr)                       (* a.After(b) *)
| XNewEvent (exp complete : option rexpr)        (* &event{expireTime: exp, msgs: make(.., 0, n), complete: c}; absent = zero value *)
| XAtomicLoad (a : rexpr)                        (* atomic.LoadInt32(&a) *)
| XCall (recv : option rexpr) (f : fname) (arg : option rexpr).   (* a call with one result and at most one argument *)

Inductive rstmt :=
| SDefine (x : string) (e : rexpr)               (* x := e *)
| SDefineOk (x ok : string) (m k : rexpr)        (* x, ok := m[k] *)
| SVar (x : string) (t : ctype)                  (* var x t *)
| SAssign (x : string) (e : rexpr)               (* x = e *)
| SAddAssign (x : string) (e : rexpr)            (* x += e *)
| SSetField (o : rexpr) (f : field) (e : rexpr)  (* o.f = e *)
| SMapSet (m k v : rexpr)                        (* m[k] = v *)
| SDelete (m k : rexpr)                          (* delete(m, k) *)
| SSort (o : rexpr) (f : field)                  (* o.f.Sort(), Sort being sort.Sort(p) with the generated Less *)
| SCall (rets : list string) (recv : option rexpr) (f : fname) (args : list rexpr)   (* [rets :=] recv.f(args) *)
| SLock (o : rexpr)                              (* o.Lock() *)
| SDeferUnlock (o : rexpr)                       (* defer o.Unlock() *)
| SIf (c : rexpr) (th el : rblock)
| SIfCas (o : rexpr) (f : field) (old new : Z) (th el : rblock)   (* if atomic.CompareAndSwapInt32(&o.f, old, new) *)
| SFor (body : rblock)                           (* for { body } *)
| SRange (x : string) (e : rexpr) (body : rblock)   (* for _, x := range e { body } *)
| SBreak
| SContinue
| SReturn (es : list rexpr)
| SStreamComplete (s e : rexpr)                  (* s.ReassemblyComplete(e), s of the interface type Stream *)
| SStreamLost (s e : rexpr)                      (* s.EventsLost(e) *)
(* a statement list (its own type, so that the interpreter is one mutual recursion) *)
with rblock :=
| BNil
| BCons (s : rstmt) (r : rblock).

Declare Scope rblock_scope.
Delimit Scope rblock_scope with rblock.
Notation "{[ ]}" := BNil : rblock_scope.
Notation "{[ x ; .. ; y ]}" := (BCons x .. (BCons y BNil) ..) : rblock_scope.
Open Scope rblock_scope.

Fixpoint block_list (b : rblock) : list rstmt :=
  match b with BNil => [] | BCons s r => s :: block_list r end.

Record rfunc := {
  rf_recv : option string;         (* name of the receiver *)
  rf_params : list string;         (* names of the parameters *)
  rf_body : rblock
}.

Record rprogs := {
  pg_Put : rfunc; pg_Add : rfunc; pg_IsExpired : rfunc; pg_CleanUp : rfunc; pg_Clear : rfunc; pg_remove : rfunc;
  pg_Less : rfunc; pg_abs : rfunc;
  pg_PushMessage : rfunc; pg_Maintain : rfunc; pg_Close : rfunc; pg_callback : rfunc
}.

Definition prog_of (pg : rprogs) (f : fname) : rfunc :=
  match f with
  | FnPut => pg_Put pg | FnAdd => pg_Add pg | FnIsExpired => pg_IsExpired pg | FnCleanUp => pg_CleanUp pg
  | FnClear => pg_Clear pg | FnRemove => pg_remove pg | FnLess => pg_Less pg | FnAbs => pg_abs pg
  | FnPushMessage => pg_PushMessage pg | FnMaintain => pg_Maintain pg | FnClose => pg_Close pg
  | FnCallback => pg_callback pg
  end.

(* what the translator found out about the sort.Interface methods of sequenceNumSlice other than Less *)
Record sort_iface := {
  si_sort_is_sort_Sort : bool;     (* func (p sequenceNumSlice) Sort() { sort.Sort(p) } *)
  si_len_is_len : bool;            (* func (p sequenceNumSlice) Len() int { return len(p) } *)
  si_swap_is_swap : bool           (* func (p sequenceNumSlice) Swap(i, j int) { p[i], p[j] = p[j], p[i] } *)
}.

(* ---- generic helpers ------------------------------------------------------------------------ *)

Fixpoint get {A} (x : string) (l : list (string * A)) : option A :=
  match l with
  | [] => None
  | (y, v) :: r => if String.eqb y x then Some v else get x r
  end.

(* replace the binding [get] finds *)
Fixpoint upd {A} (x : string) (v : A) (l : list (string * A)) : option (list (string * A)) :=
  match l with
  | [] => None
  | (y, w) :: r => if String.eqb y x then Some ((y, v) :: r)
                   else match upd x v r with Some r' => Some ((y, w) :: r') | None => None end
  end.

(* leaving a block: the bindings made inside it (pushed at the front) are dropped *)
Definition restore {A} (n : nat) (l : list A) : list A := skipn (length l - n) l.

(* replace element p of a list *)
Fixpoint lset {A} (p : nat) (v : A) (l : list A) : list A :=
  match l, p with
  | [], _ => []
  | _ :: r, 0 => v :: r
  | x :: r, S p' => x :: lset p' v r
  end.

(* element z / the suffix from z on, for a non-negative z *)
Fixpoint nth_z {A} (l : list A) (z : Z) : option A :=
  match l with
  | [] => None
  | x :: r => if (z =? 0)%Z then Some x else nth_z r (z - 1)%Z
  end.
Fixpoint skipn_z {A} (l : list A) (z : Z) : list A :=
  if (z =? 0)%Z then l else match l with [] => [] | _ :: r => skipn_z r (z - 1)%Z end.

Definition two32 : N := 4294967296.
Definition sub32 (a b : N) : N := ((a + two32 - b) mod two32)%N.

(* ---- sorting with a comparison --------------------------------------------------------------- *)

Fixpoint insert_by (less : N -> N -> bool) (x : N) (l : list N) : list N :=
  match l with
  | [] => [x]
  | y :: r => if less x y then x :: l else y :: insert_by less x r
  end.

Definition isort_by (less : N -> N -> bool) (l : list N) : list N :=
  fold_left (fun acc x => insert_by less x acc) l [].

(* a strict total order on the elements of [l] *)
Definition strict_total_b (less : N -> N -> bool) (l : list N) : bool :=
  forallb (fun a => negb (less a a)) l &&
  forallb (fun a => forallb (fun b => N.eqb a b || xorb (less a b) (less b a)) l) l &&
  forallb (fun a => forallb (fun b => forallb (fun c => implb (less a b && less b c) (less a c)) l) l) l.

(* ---- the interpreter ------------------------------------------------------------------------- *)

Section Interp.
  Variable msg : Type.
  Variable mseq : msg -> N.          (* AuditMessage.Sequence *)
  Variable mtype : msg -> nat.       (* AuditMessage.RecordType *)

  (* an event object *)
  Record cev := { ce_exp : nat; ce_msgs : list msg; ce_done : bool }.

  (* a call on the Stream *)
  Inductive cbev := CBComplete (g : list msg) | CBLost (n : Z).

  Record cst := {
    c_seqs : list N;                 (* l.seqs *)
    c_events : list (N * nat);       (* l.events: sequence number -> address *)
    c_heap : list cev;               (* the event objects *)
    c_last : N;                      (* l.lastSeq *)
    c_maxsz : Z;                     (* l.maxSize *)
    c_timeout : nat;                 (* l.timeout, in clock units *)
    c_locked : bool;                 (* l's mutex *)
    c_closed : Z;                    (* r.closed *)
    c_now : nat;                     (* what time.Now() returns during this call *)
    c_out : list cbev                (* calls made on r.stream, oldest first *)
  }.

  Definition with_seqs (v : list N) (s : cst) : cst :=
    {| c_seqs := v; c_events := c_events s; c_heap := c_heap s; c_last := c_last s; c_maxsz := c_maxsz s;
       c_timeout := c_timeout s; c_locked := c_locked s; c_closed := c_closed s; c_now := c_now s; c_out := c_out s |}.
  Definition with_events (v : list (N * nat)) (s : cst) : cst :=
    {| c_seqs := c_seqs s; c_events := v; c_heap := c_heap s; c_last := c_last s; c_maxsz := c_maxsz s;
       c_timeout := c_timeout s; c_locked := c_locked s; c_closed := c_closed s; c_now := c_now s; c_out := c_out s |}.
  Definition with_heap (v : list cev) (s : cst) : cst :=
    {| c_seqs := c_seqs s; c_events := c_events s; c_heap := v; c_last := c_last s; c_maxsz := c_maxsz s;
       c_timeout := c_timeout s; c_locked := c_locked s; c_closed := c_closed s; c_now := c_now s; c_out := c_out s |}.
  Definition with_last (v : N) (s : cst) : cst :=
    {| c_seqs := c_seqs s; c_events := c_events s; c_heap := c_heap s; c_last := v; c_maxsz := c_maxsz s;
       c_timeout := c_timeout s; c_locked := c_locked s; c_closed := c_closed s; c_now := c_now s; c_out := c_out s |}.
  Definition with_locked (v : bool) (s : cst) : cst :=
    {| c_seqs := c_seqs s; c_events := c_events s; c_heap := c_heap s; c_last := c_last s; c_maxsz := c_maxsz s;
       c_timeout := c_timeout s; c_locked := v; c_closed := c_closed s; c_now := c_now s; c_out := c_out s |}.
  Definition with_closed (v : Z) (s : cst) : cst :=
    {| c_seqs := c_seqs s; c_events := c_events s; c_heap := c_heap s; c_last := c_last s; c_maxsz := c_maxsz s;
       c_timeout := c_timeout s; c_locked := c_locked s; c_closed := v; c_now := c_now s; c_out := c_out s |}.
  Definition with_now (v : nat) (s : cst) : cst :=
    {| c_seqs := c_seqs s; c_events := c_events s; c_heap := c_heap s; c_last := c_last s; c_maxsz := c_maxsz s;
       c_timeout := c_timeout s; c_locked := c_locked s; c_closed := c_closed s; c_now := v; c_out := c_out s |}.
  Definition with_out (v : list cbev) (s : cst) : cst :=
    {| c_seqs := c_seqs s; c_events := c_events s; c_heap := c_heap s; c_last := c_last s; c_maxsz := c_maxsz s;
       c_timeout := c_timeout s; c_locked := c_locked s; c_closed := c_closed s; c_now := c_now s; c_out := v |}.

  Inductive val :=
  | VInt (z : Z)                     (* int, int64, int32, a record type *)
  | VU32 (n : N)                     (* uint32 / sequenceNum *)
  | VBool (b : bool)
  | VNil                             (* the untyped nil *)
  | VMsg (m : option msg)            (* *auparse.AuditMessage; None = nil *)
  | VEv (p : option nat)             (* *event: an address; None = nil *)
  | VEvs (ps : list (option nat))    (* []*event *)
  | VSeqs (l : list N)               (* sequenceNumSlice *)
  | VMsgs (l : list msg)             (* []*auparse.AuditMessage *)
  | VTime (t : nat)                  (* time.Time: a clock reading *)
  | VDur (d : nat)                   (* time.Duration, in clock units *)
  | VErr (e : option string)         (* error: nil or a named error value *)
  | VListObj                         (* the *eventList *)
  | VReassObj                        (* the *Reassembler *)
  | VStreamObj                       (* the Stream *)
  | VMapObj.                         (* l.events *)

  Definition env := list (string * val).
  Definition frame := (env * bool)%type.        (* locals; has  defer l.Unlock()  been executed *)
  Inductive flow := FNormal | FBreak | FContinue | FReturn (vs : list val).
  Definition res := (cst * frame * flow)%type.
  Definition callee_t := fname -> option val -> list val -> cst -> option (cst * list val).

  Definition mget (k : N) (m : list (N * nat)) : option nat := aget N.eqb k m.
  Definition mset (k : N) (v : nat) (m : list (N * nat)) : list (N * nat) := aset N.eqb k v m.
  Definition mdel (k : N) (m : list (N * nat)) : list (N * nat) := adel N.eqb k m.

  Definition cmp_z (op : cmpop) (x y : Z) : bool :=
    match op with
    | OEq => (x =? y)%Z | ONe => negb (x =? y)%Z | OLt => (x <? y)%Z | OLe => (x <=? y)%Z
    | OGt => (y <? x)%Z | OGe => (y <=? x)%Z
    end.
  Definition cmp_n (op : cmpop) (x y : N) : bool :=
    match op with
    | OEq => (x =? y)%N | ONe => negb (x =? y)%N | OLt => (x <? y)%N | OLe => (x <=? y)%N
    | OGt => (y <? x)%N | OGe => (y <=? x)%N
    end.

  Definition lit_u32 (e : rexpr) : option N :=
    match e with
    | XInt z => if ((0 <=? z) && (z <? 4294967296))%Z then Some (Z.to_N z) else None
    | _ => None
    end.

  (* an untyped integer constant next to a uint32 operand takes that type *)
  Definition coerce2 (ea eb : rexpr) (va vb : val) : val * val :=
    match va, vb with
    | VU32 _, VInt _ => match lit_u32 eb with Some n => (va, VU32 n) | None => (va, vb) end
    | VInt _, VU32 _ => match lit_u32 ea with Some n => (VU32 n, vb) | None => (va, vb) end
    | _, _ => (va, vb)
    end.

  Definition is_none {A} (o : option A) : bool := match o with None => true | Some _ => false end.

  Definition v_cmp (op : cmpop) (ab : val * val) : option val :=
    match ab with
    | (VInt x, VInt y) => Some (VBool (cmp_z op x y))
    | (VU32 x, VU32 y) => Some (VBool (cmp_n op x y))
    | (VMsg m, VNil) => match op with OEq => Some (VBool (is_none m)) | ONe => Some (VBool (negb (is_none m))) | _ => None end
    | (VEv p, VNil) => match op with OEq => Some (VBool (is_none p)) | ONe => Some (VBool (negb (is_none p))) | _ => None end
    | (VErr e, VNil) => match op with OEq => Some (VBool (is_none e)) | ONe => Some (VBool (negb (is_none e))) | _ => None end
    | _ => None
    end.

  Definition v_sub (ab : val * val) : option val :=
    match ab with
    | (VInt x, VInt y) => Some (VInt (x - y))
    | (VU32 x, VU32 y) => Some (VU32 (sub32 x y))
    | _ => None
    end.

  Definition v_conv (t : ctype) (v : val) : option val :=
    match t, v with
    | TInt, VU32 n => Some (VInt (Z.of_N n))
    | TInt64, VU32 n => Some (VInt (Z.of_N n))
    | TInt, VInt z => Some (VInt z)
    | TInt64, VInt z => Some (VInt z)
    | TSeqNum, VU32 n => Some (VU32 n)
    | _, _ => None
    end.

  Definition v_zero (t : ctype) : val :=
    match t with TInt => VInt 0 | TInt64 => VInt 0 | TSeqNum => VU32 0 | TEvSlice => VEvs [] end.

  Definition v_len (v : val) : option val :=
    match v with
    | VSeqs l => Some (VInt (Z.of_nat (length l)))
    | VEvs l => Some (VInt (Z.of_nat (length l)))
    | VMsgs l => Some (VInt (Z.of_nat (length l)))
    | _ => None
    end.

  Definition v_index (a i : val) : option val :=
    match a, i with
    | VSeqs l, VInt z => if (z <? 0)%Z then None else option_map VU32 (nth_z l z)
    | VEvs l, VInt z => if (z <? 0)%Z then None else option_map VEv (nth_z l z)
    | _, _ => None
    end.

  Definition v_slice_from (a lo : val) : option val :=
    match a, lo with
    | VSeqs l, VInt z => if ((z <? 0) || (Z.of_nat (length l) <? z))%Z then None else Some (VSeqs (skipn_z l z))
    | _, _ => None
    end.

  Definition v_append (a x : val) : option val :=
    match a, x with
    | VSeqs l, VU32 n => Some (VSeqs (l ++ [n]))
    | VEvs l, VEv p => Some (VEvs (l ++ [p]))
    | VMsgs l, VMsg (Some m) => Some (VMsgs (l ++ [m]))
    | _, _ => None
    end.

  Definition get_field (st : cst) (o : val) (f : field) : option val :=
    match o, f with
    | VListObj, FSeqs => Some (VSeqs (c_seqs st))
    | VListObj, FEvents => Some VMapObj
    | VListObj, FLastSeq => Some (VU32 (c_last st))
    | VListObj, FMaxSize => Some (VInt (c_maxsz st))
    | VListObj, FTimeout => Some (VDur (c_timeout st))
    | VReassObj, FClosed => Some (VInt (c_closed st))
    | VReassObj, FList => Some VListObj
    | VReassObj, FStream => Some VStreamObj
    | VEv (Some p), FExpire => option_map (fun e => VTime (ce_exp e)) (nth_error (c_heap st) p)
    | VEv (Some p), FMsgs => option_map (fun e => VMsgs (ce_msgs e)) (nth_error (c_heap st) p)
    | VEv (Some p), FComplete => option_map (fun e => VBool (ce_done e)) (nth_error (c_heap st) p)
    | VMsg (Some m), FSequence => Some (VU32 (mseq m))
    | VMsg (Some m), FRecordType => Some (VInt (Z.of_nat (mtype m)))
    | _, _ => None
    end.

  Definition set_field (st : cst) (o : val) (f : field) (v : val) : option cst :=
    match o, f, v with
    | VListObj, FSeqs, VSeqs l => Some (with_seqs l st)
    | VListObj, FLastSeq, VU32 n => Some (with_last n st)
    | VEv (Some p), FMsgs, VMsgs l =>
        match nth_error (c_heap st) p with
        | Some e => Some (with_heap (lset p {| ce_exp := ce_exp e; ce_msgs := l; ce_done := ce_done e |} (c_heap st)) st)
        | None => None
        end
    | VEv (Some p), FComplete, VBool b =>
        match nth_error (c_heap st) p with
        | Some e => Some (with_heap (lset p {| ce_exp := ce_exp e; ce_msgs := ce_msgs e; ce_done := b |} (c_heap st)) st)
        | None => None
        end
    | _, _, _ => None
    end.

  (* Less(i, j) as a comparison of two elements: the generated Less run on the slice [a; b] at 0, 1 *)
  Definition less_of (call : callee_t) (st : cst) (a b : N) : option bool :=
    match call FnLess (Some (VSeqs [a; b])) [VInt 0; VInt 1] st with
    | Some (_, [VBool r]) => Some r
    | _ => None
    end.
  Definition lessb_of (call : callee_t) (st : cst) (a b : N) : bool :=
    match less_of call st a b with Some true => true | _ => false end.
  Definition less_defined (call : callee_t) (st : cst) (l : list N) : bool :=
    forallb (fun a => forallb (fun b => negb (is_none (less_of call st a b))) l) l.

  (* sort.Sort under its contract *)
  Definition sort_seqs (call : callee_t) (st : cst) (l : list N) : option (list N) :=
    if less_defined call st l && strict_total_b (lessb_of call st) l
    then Some (isort_by (lessb_of call st) l) else None.

  Definition pure (st1 : cst) (o : option val) : option (cst * val) :=
    match o with Some v => Some (st1, v) | None => None end.

  Fixpoint eval (call : callee_t) (e : rexpr) (st : cst) (en : env) {struct e} : option (cst * val) :=
    match e with
    | XVar x => pure st (get x en)
    | XInt z => Some (st, VInt z)
    | XBool b => Some (st, VBool b)
    | XNilE => Some (st, VNil)
    | XErrVar n => Some (st, VErr (Some n))
    | XField o f =>
        match eval call o st en with Some (st1, v) => pure st1 (get_field st1 v f) | None => None end
    | XLen a =>
        match eval call a st en with Some (st1, v) => pure st1 (v_len v) | None => None end
    | XIndex a i =>
        match eval call a st en with
        | Some (st1, va) => match eval call i st1 en with Some (st2, vi) => pure st2 (v_index va vi) | None => None end
        | None => None
        end
    | XMapGet m k =>
        match eval call m st en with
        | Some (st1, VMapObj) =>
            match eval call k st1 en with
            | Some (st2, VU32 n) => Some (st2, VEv (mget n (c_events st2)))
            | _ => None
            end
        | _ => None
        end
    | XSliceFrom a lo =>
        match eval call a st en with
        | Some (st1, va) => match eval call lo st1 en with Some (st2, vl) => pure st2 (v_slice_from va vl) | None => None end
        | None => None
        end
    | XAppend a x =>
        match eval call a st en with
        | Some (st1, va) => match eval call x st1 en with Some (st2, vx) => pure st2 (v_append va vx) | None => None end
        | None => None
        end
    | XSub a b =>
        match eval call a st en with
        | Some (st1, va) => match eval call b st1 en with Some (st2, vb) => pure st2 (v_sub (coerce2 a b va vb)) | None => None end
        | None => None
        end
    | XNeg a =>
        match eval call a st en with Some (st1, VInt z) => Some (st1, VInt (- z)) | _ => None end
    | XConv t a =>
        match eval call a st en with Some (st1, v) => pure st1 (v_conv t v) | None => None end
    | XCmp op a b =>
        match eval call a st en with
        | Some (st1, va) => match eval call b st1 en with Some (st2, vb) => pure st2 (v_cmp op (coerce2 a b va vb)) | None => None end
        | None => None
        end
    | XNot a =>
        match eval call a st en with Some (st1, VBool b) => Some (st1, VBool (negb b)) | _ => None end
    | XOr a b =>
        match eval call a st en with
        | Some (st1, VBool true) => Some (st1, VBool true)
        | Some (st1, VBool false) => match eval call b st1 en with Some (st2, VBool c) => Some (st2, VBool c) | _ => None end
        | _ => None
        end
    | XAnd a b =>
        match eval call a st en with
        | Some (st1, VBool false) => Some (st1, VBool false)
        | Some (st1, VBool true) => match eval call b st1 en with Some (st2, VBool c) => Some (st2, VBool c) | _ => None end
        | _ => None
        end
    | XNow => Some (st, VTime (c_now st))
    | XTimeAdd t d =>
        match eval call t st en with
        | Some (st1, VTime x) => match eval call d st1 en with Some (st2, VDur y) => Some (st2, VTime (x + y)) | _ => None end
        | _ => None
        end
    | XTimeAfter a b =>
        match eval call a st en with
        | Some (st1, VTime x) => match eval call b st1 en with Some (st2, VTime y) => Some (st2, VBool (Nat.ltb y x)) | _ => None end
        | _ => None
        end
    | XNewEvent ex co =>
        let r1 := match ex with
                  | None => Some (st, 0)
                  | Some a => match eval call a st en with Some (st1, VTime t) => Some (st1, t) | _ => None end
                  end in
        match r1 with
        | None => None
        | Some (st1, t) =>
            let r2 := match co with
                      | None => Some (st1, false)
                      | Some c => match eval call c st1 en with Some (st2, VBool b) => Some (st2, b) | _ => None end
                      end in
            match r2 with
            | None => None
            | Some (st2, b) =>
                Some (with_heap (c_heap st2 ++ [{| ce_exp := t; ce_msgs := []; ce_done := b |}]) st2,
                      VEv (Some (length (c_heap st2))))
            end
        end
    | XAtomicLoad a =>
        match eval call a st en with Some (st1, VInt z) => Some (st1, VInt z) | _ => None end
    | XCall recv f arg =>
        let r1 := match recv with
                  | None => Some (st, None)
                  | Some o => match eval call o st en with Some (st1, v) => Some (st1, Some v) | None => None end
                  end in
        match r1 with
        | None => None
        | Some (st1, rv) =>
            let r2 := match arg with
                      | None => Some (st1, [])
                      | Some a => match eval call a st1 en with Some (st2, v) => Some (st2, [v]) | None => None end
                      end in
            match r2 with
            | None => None
            | Some (st2, args) =>
                match call f rv args st2 with
                | Some (st3, [v]) => Some (st3, v)
                | _ => None
                end
            end
        end
    end.

  Fixpoint eval_list (call : callee_t) (es : list rexpr) (st : cst) (en : env) : option (cst * list val) :=
    match es with
    | [] => Some (st, [])
    | e :: r => match eval call e st en with
                | Some (st1, v) => match eval_list call r st1 en with
                                   | Some (st2, vs) => Some (st2, v :: vs)
                                   | None => None
                                   end
                | None => None
                end
    end.

  Fixpoint bind_all (xs : list string) (vs : list val) (en : env) : option env :=
    match xs, vs with
    | [], [] => Some en
    | x :: xr, v :: vr => bind_all xr vr ((x, v) :: en)
    | _, _ => None
    end.

  (* for { body }: [n] iterations at most *)
  Fixpoint for_loop (body : cst -> frame -> option res) (n : nat) (st : cst) (fr : frame) : option res :=
    match n with
    | 0 => None
    | S n' =>
        match body st fr with
        | Some (st1, fr1, FNormal) => for_loop body n' st1 fr1
        | Some (st1, fr1, FContinue) => for_loop body n' st1 fr1
        | Some (st1, fr1, FBreak) => Some (st1, fr1, FNormal)
        | Some (st1, fr1, FReturn vs) => Some (st1, fr1, FReturn vs)
        | None => None
        end
    end.

  (* for _, x := range l { body } *)
  Fixpoint range_loop (body : cst -> frame -> option res) (x : string) (l : list (option nat)) (st : cst) (fr : frame)
    : option res :=
    match l with
    | [] => Some (st, fr, FNormal)
    | p :: r =>
        match body st ((x, VEv p) :: fst fr, snd fr) with
        | Some (st1, (en1, d1), fl) =>
            let fr1 := (restore (length (fst fr)) en1, d1) in
            match fl with
            | FNormal => range_loop body x r st1 fr1
            | FContinue => range_loop body x r st1 fr1
            | FBreak => Some (st1, fr1, FNormal)
            | FReturn vs => Some (st1, fr1, FReturn vs)
            end
        | None => None
        end
    end.

  Definition scoped (n : nat) (r : option res) : option res :=
    match r with
    | Some (st1, (en1, d1), fl) => Some (st1, (restore n en1, d1), fl)
    | None => None
    end.

  Fixpoint exec (call : callee_t) (s : rstmt) (st : cst) (fr : frame) {struct s} : option res :=
    let en := fst fr in
    let d := snd fr in
    match s with
    | SDefine x e =>
        match eval call e st en with Some (st1, v) => Some (st1, ((x, v) :: en, d), FNormal) | None => None end
    | SDefineOk x ok m k =>
        match eval call m st en with
        | Some (st1, VMapObj) =>
            match eval call k st1 en with
            | Some (st2, VU32 n) =>
                Some (st2, ((ok, VBool (negb (is_none (mget n (c_events st2))))) :: (x, VEv (mget n (c_events st2))) :: en, d), FNormal)
            | _ => None
            end
        | _ => None
        end
    | SVar x t => Some (st, ((x, v_zero t) :: en, d), FNormal)
    | SAssign x e =>
        match eval call e st en with
        | Some (st1, v) => match upd x v en with Some en1 => Some (st1, (en1, d), FNormal) | None => None end
        | None => None
        end
    | SAddAssign x e =>
        match eval call e st en with
        | Some (st1, VInt z) =>
            match get x en with
            | Some (VInt y) => match upd x (VInt (y + z)) en with Some en1 => Some (st1, (en1, d), FNormal) | None => None end
            | _ => None
            end
        | _ => None
        end
    | SSetField o f e =>
        match eval call o st en with
        | Some (st1, vo) =>
            match eval call e st1 en with
            | Some (st2, v) => match set_field st2 vo f v with Some st3 => Some (st3, fr, FNormal) | None => None end
            | None => None
            end
        | None => None
        end
    | SMapSet m k v =>
        match eval call m st en with
        | Some (st1, VMapObj) =>
            match eval call k st1 en with
            | Some (st2, VU32 n) =>
                match eval call v st2 en with
                | Some (st3, VEv (Some p)) => Some (with_events (mset n p (c_events st3)) st3, fr, FNormal)
                | _ => None
                end
            | _ => None
            end
        | _ => None
        end
    | SDelete m k =>
        match eval call m st en with
        | Some (st1, VMapObj) =>
            match eval call k st1 en with
            | Some (st2, VU32 n) => Some (with_events (mdel n (c_events st2)) st2, fr, FNormal)
            | _ => None
            end
        | _ => None
        end
    | SSort o f =>
        match eval call o st en, f with
        | Some (st1, VListObj), FSeqs =>
            match sort_seqs call st1 (c_seqs st1) with
            | Some l => Some (with_seqs l st1, fr, FNormal)
            | None => None
            end
        | _, _ => None
        end
    | SCall rets recv f args =>
        let r1 := match recv with
                  | None => Some (st, None)
                  | Some o => match eval call o st en with Some (st1, v) => Some (st1, Some v) | None => None end
                  end in
        match r1 with
        | None => None
        | Some (st1, rv) =>
            match eval_list call args st1 en with
            | None => None
            | Some (st2, vs) =>
                match call f rv vs st2 with
                | None => None
                | Some (st3, outs) =>
                    match rets with
                    | [] => Some (st3, fr, FNormal)
                    | _ => match bind_all rets outs en with
                           | Some en1 => Some (st3, (en1, d), FNormal)
                           | None => None
                           end
                    end
                end
            end
        end
    | SLock o =>
        match eval call o st en with
        | Some (st1, VListObj) => if c_locked st1 then None else Some (with_locked true st1, fr, FNormal)
        | _ => None
        end
    | SDeferUnlock o =>
        match eval call o st en with
        | Some (st1, VListObj) => if d then None else Some (st1, (en, true), FNormal)
        | _ => None
        end
    | SIf c th el =>
        match eval call c st en with
        | Some (st1, VBool true) => scoped (length en) (exec_block call th st1 fr)
        | Some (st1, VBool false) => scoped (length en) (exec_block call el st1 fr)
        | _ => None
        end
    | SIfCas o f old new th el =>
        match eval call o st en, f with
        | Some (st1, VReassObj), FClosed =>
            if (c_closed st1 =? old)%Z
            then scoped (length en) (exec_block call th (with_closed new st1) fr)
            else scoped (length en) (exec_block call el st1 fr)
        | _, _ => None
        end
    | SFor body =>
        for_loop (fun st1 fr1 => scoped (length (fst fr1)) (exec_block call body st1 fr1)) (S (length (c_seqs st))) st fr
    | SRange x e body =>
        match eval call e st en with
        | Some (st1, VEvs ps) => range_loop (exec_block call body) x ps st1 fr
        | _ => None
        end
    | SBreak => Some (st, fr, FBreak)
    | SContinue => Some (st, fr, FContinue)
    | SReturn es =>
        match eval_list call es st en with
        | Some (st1, vs) => Some (st1, fr, FReturn vs)
        | None => None
        end
    | SStreamComplete s0 e =>
        match eval call s0 st en with
        | Some (st1, VStreamObj) =>
            match eval call e st1 en with
            | Some (st2, VMsgs g) => Some (with_out (c_out st2 ++ [CBComplete g]) st2, fr, FNormal)
            | _ => None
            end
        | _ => None
        end
    | SStreamLost s0 e =>
        match eval call s0 st en with
        | Some (st1, VStreamObj) =>
            match eval call e st1 en with
            | Some (st2, VInt n) => Some (with_out (c_out st2 ++ [CBLost n]) st2, fr, FNormal)
            | _ => None
            end
        | _ => None
        end
    end
  with exec_block (call : callee_t) (l : rblock) (st : cst) (fr : frame) {struct l} : option res :=
    match l with
    | BNil => Some (st, fr, FNormal)
    | BCons s1 r => match exec call s1 st fr with
                    | Some (st1, fr1, FNormal) => exec_block call r st1 fr1
                    | other => other
                    end
    end.

  Definition bind_recv (name : option string) (v : option val) : option env :=
    match name, v with
    | None, None => Some []
    | Some x, Some w => Some [(x, w)]
    | _, _ => None
    end.

  (* a call of a generated function: the receiver and the parameters are bound, the body runs, the deferred
     Unlock (if one was registered) runs on the way out *)
  Definition run_func (call : callee_t) (f : rfunc) (recv : option val) (args : list val) (st : cst)
    : option (cst * list val) :=
    match bind_recv (rf_recv f) recv with
    | None => None
    | Some en0 =>
        match bind_all (rf_params f) args en0 with
        | None => None
        | Some en =>
            match exec_block call (rf_body f) st (en, false) with
            | Some (st1, (_, d), fl) =>
                let outs := match fl with FNormal => Some [] | FReturn vs => Some vs | _ => None end in
                match outs with
                | None => None
                | Some vs =>
                    if d then (if c_locked st1 then Some (with_locked false st1, vs) else None)
                    else Some (st1, vs)
                end
            | None => None
            end
        end
    end.

  (* calls resolved through the table of generated functions, to depth [d] *)
  Fixpoint callee (pg : rprogs) (d : nat) : callee_t :=
    match d with
    | 0 => fun _ _ _ _ => None
    | S d' => fun f recv args st => run_func (callee pg d') (prog_of pg f) recv args st
    end.

  (* the depth that suffices for reassembler.go: PushMessage > Put > Sort > Less > abs *)
  Definition top_depth : nat := 6.

  (* the three entry points, at clock reading [now] *)
  Definition push_message (pg : rprogs) (now : nat) (m : option msg) (st : cst) : option (cst * list val) :=
    callee pg top_depth FnPushMessage (Some VReassObj) [VMsg m] (with_now now st).
  Definition maintain (pg : rprogs) (now : nat) (st : cst) : option (cst * list val) :=
    callee pg top_depth FnMaintain (Some VReassObj) [] (with_now now st).
  Definition close (pg : rprogs) (now : nat) (st : cst) : option (cst * list val) :=
    callee pg top_depth FnClose (Some VReassObj) [] (with_now now st).

  (* what newEventList / NewReassembler build *)
  Definition cinit (maxsz : Z) (timeout : nat) : cst :=
    {| c_seqs := []; c_events := []; c_heap := []; c_last := 0%N; c_maxsz := maxsz; c_timeout := timeout;
       c_locked := false; c_closed := 0%Z; c_now := 0; c_out := [] |}.
End Interp.

Arguments ce_exp {msg}. Arguments ce_msgs {msg}. Arguments ce_done {msg}.
Arguments CBComplete {msg}. Arguments CBLost {msg}.
Arguments c_seqs {msg}. Arguments c_events {msg}. Arguments c_heap {msg}. Arguments c_last {msg}.
Arguments c_maxsz {msg}. Arguments c_timeout {msg}. Arguments c_locked {msg}. Arguments c_closed {msg}.
Arguments c_now {msg}. Arguments c_out {msg}.
Arguments VInt {msg}. Arguments VU32 {msg}. Arguments VBool {msg}. Arguments VNil {msg}. Arguments VMsg {msg}.
Arguments VEv {msg}. Arguments VEvs {msg}. Arguments VSeqs {msg}. Arguments VMsgs {msg}. Arguments VTime {msg}.
Arguments VDur {msg}. Arguments VErr {msg}. Arguments VListObj {msg}. Arguments VReassObj {msg}.
Arguments VStreamObj {msg}. Arguments VMapObj {msg}.
Arguments FNormal {msg}. Arguments FBreak {msg}. Arguments FContinue {msg}. Arguments FReturn {msg}.
