(* Function-level correspondence for the primitives under the sshd / syslog models (stage harness/prims):
   - regex part (C06 C11 C17): for every pattern of processors/sshd/openssh_regex.go the harness calls the
     real regexp.FindStringSubmatchIndex / MatchString on generated texts; a case names the REGENERATED
     Gen/SshdRegexes.v entry of the same name and carries the text and all indices Go returned.  It is
     compared with [find_idx] (all indices), with [Lib.Regex.find] (the function the sshd model calls:
     start, end, every captured string = the text between Go's indices) and with [matches].
   - strings part (C07): every function of Lib/GoStrings.v against the real strings function, [atoi] against
     strconv.Atoi.
   Domain guards are part of the case: the harness states whether the case lies in the model's domain
   ([dom]); the checker recomputes the guard from the model's own definition, requires the two to agree,
   and compares results inside the domain only.  Definitions only; evaluated by vm_compute. *)
From Coq Require Import Ascii String List Bool Arith NArith ZArith Lia.
Import ListNotations.
From AM Require Import Lib.Bytes Lib.Regex Model.RegexSpec Model.Syslog Lib.GoStrings Model.SshdProc.

Fixpoint mism_from {A} (f : A -> bool) (i : nat) (cs : list A) : list nat :=
  match cs with
  | [] => []
  | c :: r => if f c then mism_from f (S i) r else i :: mism_from f (S i) r
  end.

(* ------------------------------------------------------------------ regex *)

Inductive rcase :=
| RP (its : list item) (safe : bool)                                   (* the pattern itself: rune-safety as the harness computed it *)
| RC (its : list item) (dom : bool) (text : str) (obs : option (list N)) (ms : bool).

Fixpoint ns_eqb (a b : list N) : bool :=
  match a, b with
  | [], [] => true
  | x :: r, y :: r' => (x =? y)%N && ns_eqb r r'
  | _, _ => false
  end.

Definition opt_ns_eqb (a b : option (list N)) : bool :=
  match a, b with
  | None, None => true
  | Some x, Some y => ns_eqb x y
  | _, _ => false
  end.

(* the captured strings of Lib.Regex.find against the text between Go's indices, group by group *)
Fixpoint groups_agree (T : str) (r : rmatch) (g : nat) (gs : list N) : bool :=
  match gs with
  | [] => true
  | a :: b :: rest => seqb (cap g r) (sub T (N.to_nat a) (N.to_nat b)) && groups_agree T r (S g) rest
  | _ => false
  end.

Definition find_agrees (its : list item) (T : str) (obs : option (list N)) : bool :=
  match find its T, obs with
  | None, None => true
  | Some r, Some (s :: e :: gs) =>
      (N.of_nat (m_start r) =? s)%N && (N.of_nat (m_end r) =? e)%N
      && Nat.eqb (length gs) (2 * ngroups its) && groups_agree T r 1 gs
  | _, _ => false
  end.

Definition rcase_ok (c : rcase) : bool :=
  match c with
  | RP its safe => Bool.eqb safe (rune_safe its) && classes_uniform its
  | RC its dom T obs ms =>
      let g := rune_guard its T in
      Bool.eqb dom g &&
      (if g then opt_ns_eqb (find_idx its T) obs && find_agrees its T obs && Bool.eqb (matches its T) ms
       else true)
  end.

Definition regex_mismatches (cs : list rcase) : list nat := mism_from rcase_ok 0 cs.

(* ------------------------------------------------------------------ strings / strconv *)

Inductive scase :=
| SHasPrefix (s p : str) (r : bool)
| SHasSuffix (s p : str) (r : bool)
| STrimPrefix (s p r : str)
| STrimSuffix (s p r : str)
| SIndex (s sep : str) (r : option N)
| SCut (s sep before after : str) (found : bool)
| SSplit (dom : bool) (s sep : str) (r : list str)              (* domain: sep non-empty *)
| SJoin (parts : list str) (sep r : str)
| STrimLeft (dom : bool) (s cutset r : str)                     (* domain: cutset ASCII *)
| SLt (a b : str) (r : bool)
| SU64Add (a b r : N)
| SU64Mul (a b r : N)
| SU64Sub (a b r : N)
| SI32Add (a b r : Z)
| SI32Sub (a b r : Z)
| SU64OfI32 (a : Z) (r : N)
| SAtoi (s : str) (r : option Z)
| SNth (s : str) (i : N) (r : option N)                         (* s[i]; None = panic *)
| SSliceFrom (s : str) (a : N) (r : option str)
| SSliceTo (s : str) (b : N) (r : option str)
| SSlice (s : str) (a b : N) (r : option str).

Definition opt_str_eqb (a b : option str) : bool :=
  match a, b with
  | None, None => true
  | Some x, Some y => seqb x y
  | _, _ => false
  end.

Definition opt_N_eqb (a b : option N) : bool :=
  match a, b with
  | None, None => true
  | Some x, Some y => (x =? y)%N
  | _, _ => false
  end.

Definition opt_Z_eqb (a b : option Z) : bool :=
  match a, b with
  | None, None => true
  | Some x, Some y => (x =? y)%Z
  | _, _ => false
  end.

Definition omapN (o : option nat) : option N := match o with Some n => Some (N.of_nat n) | None => None end.

Definition is_nil (s : str) : bool := match s with [] => true | _ :: _ => false end.

Definition scase_ok (c : scase) : bool :=
  match c with
  | SHasPrefix s p r => Bool.eqb (go_has_prefix s p) r
  | SHasSuffix s p r => Bool.eqb (go_has_suffix s p) r
  | STrimPrefix s p r => seqb (go_trim_prefix s p) r
  | STrimSuffix s p r => seqb (go_trim_suffix s p) r
  | SIndex s sep r => opt_N_eqb (omapN (go_index s sep)) r
  | SCut s sep b a f => cut_eqb (go_cut s sep) (b, a, f)
  | SSplit dom s sep r =>
      let g := negb (is_nil sep) in
      Bool.eqb dom g && (if g then strs_eqb (go_split s sep) r else true)
  | SJoin parts sep r => seqb (go_join parts sep) r
  | STrimLeft dom s cutset r =>
      let g := forallb is_ascii cutset in
      Bool.eqb dom g && (if g then seqb (go_trim_left s cutset) r else true)
  | SLt a b r => Bool.eqb (str_ltb a b) r
  | SU64Add a b r => (go_u64_add a b =? r)%N
  | SU64Mul a b r => (go_u64_mul a b =? r)%N
  | SU64Sub a b r => (go_u64_sub a b =? r)%N
  | SI32Add a b r => (go_i32_add a b =? r)%Z
  | SI32Sub a b r => (go_i32_sub a b =? r)%Z
  | SU64OfI32 a r => (go_u64_of_i32 a =? r)%N
  | SAtoi s r => opt_Z_eqb (atoi s) r
  | SNth s i r => opt_N_eqb (match go_nth s (N.to_nat i) with Some c => Some (N_of_ascii c) | None => None end) r
  | SSliceFrom s a r => opt_str_eqb (go_slice_from s (N.to_nat a)) r
  | SSliceTo s b r => opt_str_eqb (go_slice_to s (N.to_nat b)) r
  | SSlice s a b r => opt_str_eqb (go_slice s (N.to_nat a) (N.to_nat b)) r
  end.

Definition strings_mismatches (cs : list scase) : list nat := mism_from scase_ok 0 cs.
