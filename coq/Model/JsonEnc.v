(* The JSON line an audit event becomes (C10; C06 / C14 as corollaries): executable model of what
   encoding/json's Encoder.Encode writes for an auditevent.AuditEvent (Go 1.23, escapeHTML on, which is
   what auditevent.NewDefaultAuditEventWriter = json.NewEncoder(w) uses), and a decoder for JSON string
   literals (what a reader of the line recovers).  Definitions only; proofs are in Proofs/JsonEncLemmas.v;
   the byte-for-byte tie to the real encoder is Model/JsonEncCheck.v + harness/jsonenc.

   What is modelled, with the Go source it follows:
   - [decode_rune]   unicode/utf8.DecodeRuneInString (first[] / acceptRanges tables: overlong forms, surrogates and
                     values above U+10FFFF are rejected; an invalid or truncated sequence is (RuneError, 1)).
                     Go's masks and shifts are written as mod / multiplication on [N] (s0&mask2 = s0 mod 32, x<<6 = 64x).
   - [enc_string]    encoding/json.appendString with escapeHTML = true, branch by branch.
   - [enc_value]     the text of a JSON value: strings, null, arrays, objects with their members in the order
                     given, and text emitted verbatim ([JTxt]: the output of time.Time.MarshalJSON).
   - [sort_kv]       the order in which mapEncoder writes a Go map: slices.SortFunc with strings.Compare on the
                     keys = byte-wise lexicographic.
   - [event_json]    structEncoder on AuditEvent / EventMetadata / EventSource: fields in declaration order,
                     `omitempty` (empty map, nil pointer: omitted), a nil map without omitempty is `null`.
   - [enc_line]      Encoder.Encode: the value's text followed by one newline, handed to ONE Write call.
   - [login_view], [action_view]   which JSON value the event records of Model/SshdProc.v (UserLogin) and
                     Model/ToEvent.v (UserAction) stand for.

   Abstractions (each one exercised by harness/jsonenc, see docs/J_NOTES.md):
   - LoggedAt is supplied already formatted ([je_logged_at], the text between the quotes); [time_text_ok]
     says what such a text consists of.  time.Time.MarshalJSON fails outside years 0..9999: not modelled.
   - Data (a pointer to json.RawMessage) is given by the JSON value whose encoding the raw message holds: the daemon only
     ever stores json.Marshal of a map[string]string there.  The encoder re-scans the raw bytes
     (appendCompact with escapeHTML) — on the output of json.Marshal that is the identity: observed, not proved.
     A RawMessage that is not valid JSON makes Encode fail: not modelled (the daemon cannot build one).
   - the values of the `any`-typed Extra maps are strings, string arrays and aucoalesce.Object structs: the
     only ones the daemon stores. *)
From Coq Require Import Ascii String List Bool Arith NArith Permutation.
Import ListNotations.
From AM Require Import Lib.Bytes.
From AM Require Export Lib.Utf8.   (* nb, bN, rune_error, lead_info, is_cont, decode_rune: unicode/utf8.DecodeRuneInString *)
Open Scope N_scope.

Definition dq : ascii := bN 0x22.        (* the double quote *)
Definition bsl : ascii := bN 0x5C.       (* the backslash *)
Definition newline : ascii := bN 0x0A.

(* ---------- encoding/json.appendString (escapeHTML = true) ---------- *)

Definition hexdigit (n : N) : ascii :=
  nth (N.to_nat n) (s2l "0123456789abcdef") "0"%char.

(* htmlSafeSet[b] for b < 0x80: everything from 0x20 on except the double quote, &, <, > and the backslash (0x7F counts as safe) *)
Definition html_safe (n : N) : bool :=
  (0x20 <=? n) && negb (n =? 0x22) && negb (n =? 0x26) && negb (n =? 0x3C) && negb (n =? 0x3E) && negb (n =? 0x5C).

(* the branch  if b := src[i]; b < utf8.RuneSelf  *)
Definition esc_ascii (b : ascii) : str :=
  let n := nb b in
  if html_safe n then [b]
  else if (n =? 0x5C) || (n =? 0x22) then [bsl; b]
  else if n =? 0x08 then s2l "\b"
  else if n =? 0x0C then s2l "\f"
  else if n =? 0x0A then s2l "\n"
  else if n =? 0x0D then s2l "\r"
  else if n =? 0x09 then s2l "\t"
  else s2l "\u00" ++ [hexdigit (n / 16); hexdigit (n mod 16)].

(* what an invalid byte is written as: backslash, u, f, f, f, d *)
Definition esc_replacement : str := bsl :: s2l "ufffd".

(* the tail of a list (the list itself when it is empty): keeps the recursion below structural *)
Definition tl1 {A} (l : list A) : list A := match l with [] => l | _ :: t => t end.

(* the loop of appendString; [start] bookkeeping of the Go code only batches the copying *)
Fixpoint enc_body (s : str) : str :=
  match s with
  | [] => []
  | b :: r1 =>
    if nb b <? 0x80 then esc_ascii b ++ enc_body r1
    else
      let r2 := match r1 with [] => r1 | _ :: t => t end in
      let r3 := match r2 with [] => r2 | _ :: t => t end in
      let r4 := match r3 with [] => r3 | _ :: t => t end in
      let cs := decode_rune s in
      let c := fst cs in
      let size := snd cs in
      if (c =? rune_error) && (size =? 1)%nat then esc_replacement ++ enc_body r1
      else
        let rest := match size with 0%nat | 1%nat => r1 | 2%nat => r2 | 3%nat => r3 | _ => r4 end in
        if (c =? 0x2028) || (c =? 0x2029) then s2l "\u202" ++ [hexdigit (c mod 16)] ++ enc_body rest
        else firstn size s ++ enc_body rest
  end.

Definition enc_string (s : str) : str := dq :: enc_body s ++ [dq].

(* ---------- the string seen as runes; what survives the encoding ---------- *)

(* (rune, width, the bytes) for every step of the decoding loop *)
Fixpoint runes (s : str) : list (N * nat * str) :=
  match s with
  | [] => []
  | b :: r1 =>
    let r2 := match r1 with [] => r1 | _ :: t => t end in
    let r3 := match r2 with [] => r2 | _ :: t => t end in
    let r4 := match r3 with [] => r3 | _ :: t => t end in
    let cs := decode_rune s in
    (fst cs, snd cs, firstn (snd cs) s)
      :: runes (match snd cs with 0%nat | 1%nat => r1 | 2%nat => r2 | 3%nat => r3 | _ => r4 end)
  end.

Definition is_invalid (r : N * nat * str) : bool :=
  let '(c, size, bytes) := r in
  (c =? rune_error) && (size =? 1)%nat.

Definition utf8_replacement : str := [bN 0xEF; bN 0xBF; bN 0xBD].    (* U+FFFD *)

(* every byte that is not part of a well-formed UTF-8 sequence replaced by U+FFFD *)
Definition sanitize (s : str) : str :=
  flat_map (fun r => if is_invalid r then utf8_replacement else snd r) (runes s).

(* utf8.ValidString *)
Definition valid_utf8 (s : str) : bool := forallb (fun r => negb (is_invalid r)) (runes s).

(* ---------- JSON values and their text ---------- *)

Inductive jval :=
| JStr (s : str)
| JTxt (t : str)                       (* text emitted verbatim: time.Time's MarshalJSON output *)
| JNull
| JArr (l : list jval)
| JObj (m : list (str * jval)).        (* members in the order they are written *)

Fixpoint join_comma (l : list str) : str :=
  match l with
  | [] => []
  | [x] => x
  | x :: r => x ++ s2l "," ++ join_comma r
  end.

Fixpoint enc_value (v : jval) : str :=
  match v with
  | JStr s => enc_string s
  | JTxt t => t
  | JNull => s2l "null"
  | JArr l => s2l "[" ++ join_comma (map enc_value l) ++ s2l "]"
  | JObj m => s2l "{" ++ join_comma (map (fun kv => enc_string (fst kv) ++ s2l ":" ++ enc_value (snd kv)) m) ++ s2l "}"
  end.

(* ---------- Go maps: written in the byte-wise order of their keys ---------- *)

(* strings.Compare a b < 0 *)
Fixpoint str_ltb (a b : str) : bool :=
  match a, b with
  | [], [] => false
  | [], _ :: _ => true
  | _ :: _, [] => false
  | x :: r, y :: r' => if nb x <? nb y then true else if nb y <? nb x then false else str_ltb r r'
  end.

Fixpoint insert_kv {V} (k : str) (v : V) (m : list (str * V)) : list (str * V) :=
  match m with
  | [] => [(k, v)]
  | (k', v') :: r => if str_ltb k k' then (k, v) :: m else (k', v') :: insert_kv k v r
  end.

Definition sort_kv {V} (m : list (str * V)) : list (str * V) :=
  fold_right (fun kv acc => insert_kv (fst kv) (snd kv) acc) [] m.

(* a non-nil map[string]any / map[string]string as a JSON object *)
Definition jmap (m : list (str * jval)) : jval := JObj (sort_kv m).
Definition jstr_map (m : list (str * str)) : jval := jmap (map (fun kv => (fst kv, JStr (snd kv))) m).

(* ---------- auditevent.AuditEvent ---------- *)

Record jevent := {
  je_audit_id : str;                        (* Metadata.AuditID *)
  je_meta_extra : list (str * jval);        (* Metadata.Extra (omitempty): [] = nil or empty *)
  je_type : str;
  je_logged_at : str;                       (* LoggedAt, formatted: the text between the quotes *)
  je_src_type : str;                        (* Source.Type *)
  je_src_value : str;                       (* Source.Value *)
  je_src_extra : list (str * jval);         (* Source.Extra (omitempty) *)
  je_outcome : str;
  je_subjects : option (list (str * str));  (* Subjects (no omitempty): None = nil map *)
  je_component : str;
  je_target : list (str * str);             (* Target (omitempty) *)
  je_data : option jval                     (* Data (omitempty): None = nil pointer; Some v = raw message holding v's text *)
}.

Definition is_nil {A} (l : list A) : bool := match l with [] => true | _ :: _ => false end.

(* a struct field tagged omitempty *)
Definition omit_if (b : bool) (name : string) (v : jval) : list (str * jval) :=
  if b then [] else [(s2l name, v)].

Definition fld (name : string) (v : jval) : str * jval := (s2l name, v).

Definition time_json (t : str) : jval := JTxt (dq :: t ++ [dq]).

Definition event_json (e : jevent) : jval :=
  JObj ([ fld "metadata" (JObj (fld "auditId" (JStr (je_audit_id e))
                               :: omit_if (is_nil (je_meta_extra e)) "extra" (jmap (je_meta_extra e))));
          fld "type" (JStr (je_type e));
          fld "loggedAt" (time_json (je_logged_at e));
          fld "source" (JObj (fld "type" (JStr (je_src_type e)) :: fld "value" (JStr (je_src_value e))
                             :: omit_if (is_nil (je_src_extra e)) "extra" (jmap (je_src_extra e))));
          fld "outcome" (JStr (je_outcome e));
          fld "subjects" (match je_subjects e with None => JNull | Some m => jstr_map m end);
          fld "component" (JStr (je_component e)) ]
        ++ omit_if (is_nil (je_target e)) "target" (jstr_map (je_target e))
        ++ match je_data e with None => [] | Some d => [fld "data" d] end).

Definition enc_event (e : jevent) : str := enc_value (event_json e).

(* Encoder.Encode: the text, then '\n'; the whole buffer goes to the writer in one Write call *)
Definition enc_line (e : jevent) : str := enc_event e ++ [newline].

(* what the formatted time consists of (RFC 3339 with nanoseconds: digits and - : . T Z +) *)
Definition time_char_ok (c : ascii) : bool :=
  let n := nb c in
  ((0x30 <=? n) && (n <=? 0x3A)) || (n =? 0x2D) || (n =? 0x2E) || (n =? 0x54) || (n =? 0x5A) || (n =? 0x2B).
Definition time_text_ok (t : str) : bool := forallb time_char_ok t.

(* every verbatim text inside a value is free of newlines *)
Fixpoint txt_ok (v : jval) : bool :=
  match v with
  | JTxt t => forallb (fun c => negb (Ascii.eqb c newline)) t
  | JArr l => forallb txt_ok l
  | JObj m => forallb (fun kv => txt_ok (snd kv)) m
  | _ => true
  end.

Definition event_ok (e : jevent) : bool :=
  time_text_ok (je_logged_at e)
  && forallb (fun kv => txt_ok (snd kv)) (je_meta_extra e)
  && forallb (fun kv => txt_ok (snd kv)) (je_src_extra e)
  && match je_data e with None => true | Some d => txt_ok d end.

(* ---------- JSON string literals read back (RFC 8259 section 7; choices as encoding/json's unquote) ---------- *)

Definition is_hex (c : ascii) : bool :=
  let n := nb c in
  ((0x30 <=? n) && (n <=? 0x39)) || ((0x61 <=? n) && (n <=? 0x66)) || ((0x41 <=? n) && (n <=? 0x46)).

Definition hex4 (a b c d : ascii) : option N :=
  if is_hex a && is_hex b && is_hex c && is_hex d
  then Some (4096 * hexval a + 256 * hexval b + 16 * hexval c + hexval d)
  else None.

(* utf8.AppendRune for a scalar value *)
Definition utf8_encode (c : N) : str :=
  if c <? 0x80 then [bN c]
  else if c <? 0x800 then [bN (0xC0 + c / 64); bN (0x80 + c mod 64)]
  else if c <? 0x10000 then [bN (0xE0 + c / 4096); bN (0x80 + (c / 64) mod 64); bN (0x80 + c mod 64)]
  else [bN (0xF0 + c / 262144); bN (0x80 + (c / 4096) mod 64); bN (0x80 + (c / 64) mod 64); bN (0x80 + c mod 64)].

Definition is_hi_surrogate (u : N) : bool := (0xD800 <=? u) && (u <? 0xDC00).
Definition is_lo_surrogate (u : N) : bool := (0xDC00 <=? u) && (u <? 0xE000).

(* the two-character escapes *)
Definition short_unescape (e : ascii) : option ascii :=
  let n := nb e in
  if n =? 0x22 then Some dq                 (* backslash, double quote *)
  else if n =? 0x5C then Some bsl           (* \\ *)
  else if n =? 0x2F then Some (bN 0x2F)     (* \/ *)
  else if n =? 0x62 then Some (bN 0x08)     (* \b *)
  else if n =? 0x66 then Some (bN 0x0C)     (* \f *)
  else if n =? 0x6E then Some (bN 0x0A)     (* \n *)
  else if n =? 0x72 then Some (bN 0x0D)     (* \r *)
  else if n =? 0x74 then Some (bN 0x09)     (* \t *)
  else None.

Definition pre (l : str) (o : option (str * str)) : option (str * str) :=
  match o with Some (d, rest) => Some (l ++ d, rest) | None => None end.

(* The characters of a string literal after its opening quote: (decoded bytes, what follows the closing quote).
   [hi] = a high surrogate \uD8xx..\uDBxx just read and not yet paired; unpaired surrogates decode to U+FFFD.
   None: not a string literal (unterminated, a raw control byte, an unknown escape). *)
Fixpoint dec_chars (hi : option N) (s : str) : option (str * str) :=
  let flush := match hi with Some _ => utf8_replacement | None => [] end in
  match s with
  | [] => None
  | c :: r =>
    let n := nb c in
    if n =? 0x22 then Some (flush, r)
    else if n <? 0x20 then None
    else if n =? 0x5C then
      match r with
      | [] => None
      | e :: r' =>
        if nb e =? 0x75 then                                   (* \uXXXX *)
          match r' with
          | h1 :: h2 :: h3 :: h4 :: r'' =>
            match hex4 h1 h2 h3 h4 with
            | None => None
            | Some u =>
              if is_hi_surrogate u then pre flush (dec_chars (Some u) r'')
              else if is_lo_surrogate u then
                match hi with
                | Some h => pre (utf8_encode (0x10000 + (h - 0xD800) * 1024 + (u - 0xDC00))) (dec_chars None r'')
                | None => pre utf8_replacement (dec_chars None r'')
                end
              else pre (flush ++ utf8_encode u) (dec_chars None r'')
            end
          | _ => None
          end
        else match short_unescape e with
             | Some b => pre (flush ++ [b]) (dec_chars None r')
             | None => None
             end
      end
    else pre (flush ++ [c]) (dec_chars None r)
  end.

(* a string literal at the start of the text: (decoded, rest) *)
Definition dec_string_prefix (s : str) : option (str * str) :=
  match s with
  | c :: r => if nb c =? 0x22 then dec_chars None r else None
  | [] => None
  end.

(* the text is exactly one string literal *)
Definition dec_string (s : str) : option str :=
  match dec_string_prefix s with
  | Some (d, []) => Some d
  | _ => None
  end.

(* ---------- a reader of the line: recursive-descent parser for the JSON the events are made of ----------
   Strings, null, arrays and objects, without insignificant white space (the encoder writes none).  true / false /
   numbers do not occur in the daemon's events and are rejected.  The fuel bounds the number of nested calls; one more
   than twice the length of the text always suffices (Proofs/JsonParseLemmas.v: [PFuel] is never returned then). *)

Inductive pres (A : Type) :=
| POk (a : A) (rest : str)      (* parsed a; rest = the text after it *)
| PErr                          (* not the expected syntax *)
| PFuel.                        (* artefact of the fuel; proved never to be returned by [parse] *)
Arguments POk {A} a rest.
Arguments PErr {A}.
Arguments PFuel {A}.

Fixpoint parse_value (fuel : nat) (s : str) : pres jval :=
  match fuel with
  | O => PFuel
  | S f =>
    match s with
    | [] => PErr
    | c :: r =>
      let n := nb c in
      if n =? 0x22 then                                              (* a string *)
        match dec_chars None r with Some (d, rest) => POk (JStr d) rest | None => PErr end
      else if n =? 0x6E then                                         (* null *)
        match strip_prefix (s2l "ull") r with Some rest => POk JNull rest | None => PErr end
      else if n =? 0x5B then                                         (* [ *)
        match r with
        | [] => PErr
        | c' :: r' =>
          if nb c' =? 0x5D then POk (JArr []) r'
          else match parse_elems f r with POk vs rest => POk (JArr vs) rest | PErr => PErr | PFuel => PFuel end
        end
      else if n =? 0x7B then                                         (* { *)
        match r with
        | [] => PErr
        | c' :: r' =>
          if nb c' =? 0x7D then POk (JObj []) r'
          else match parse_members f r with POk ms rest => POk (JObj ms) rest | PErr => PErr | PFuel => PFuel end
        end
      else PErr
    end
  end
with parse_elems (fuel : nat) (s : str) : pres (list jval) :=         (* value ( , value )* ] *)
  match fuel with
  | O => PFuel
  | S f =>
    match parse_value f s with
    | POk v rest =>
      match rest with
      | [] => PErr
      | c :: r =>
        if nb c =? 0x2C then
          match parse_elems f r with POk vs rest' => POk (v :: vs) rest' | PErr => PErr | PFuel => PFuel end
        else if nb c =? 0x5D then POk [v] r
        else PErr
      end
    | PErr => PErr
    | PFuel => PFuel
    end
  end
with parse_members (fuel : nat) (s : str) : pres (list (str * jval)) :=   (* string : value ( , string : value )* } *)
  match fuel with
  | O => PFuel
  | S f =>
    match s with
    | [] => PErr
    | c :: r =>
      if nb c =? 0x22 then
        match dec_chars None r with
        | None => PErr
        | Some (k, rest) =>
          match rest with
          | [] => PErr
          | c1 :: r1 =>
            if nb c1 =? 0x3A then
              match parse_value f r1 with
              | POk v rest2 =>
                match rest2 with
                | [] => PErr
                | c2 :: r2 =>
                  if nb c2 =? 0x2C then
                    match parse_members f r2 with
                    | POk ms rest3 => POk ((k, v) :: ms) rest3 | PErr => PErr | PFuel => PFuel
                    end
                  else if nb c2 =? 0x7D then POk [(k, v)] r2
                  else PErr
                end
              | PErr => PErr
              | PFuel => PFuel
              end
            else PErr
          end
        end
      else PErr
    end
  end.

(* the whole text is one value *)
Definition parse (s : str) : pres jval := parse_value (S (2 * length s)) s.

(* what a reader sees of a value: strings and keys sanitised; a verbatim text that is a plain string literal
   (the time) as that string *)
Definition plainb (c : ascii) : bool := (0x20 <=? nb c) && negb (nb c =? 0x22) && negb (nb c =? 0x5C).
Definition txt_body (t : str) : str := removelast (tl t).

Fixpoint norm (v : jval) : jval :=
  match v with
  | JStr s => JStr (sanitize s)
  | JTxt t => JStr (txt_body t)
  | JNull => JNull
  | JArr l => JArr (map norm l)
  | JObj m => JObj (map (fun kv => (sanitize (fst kv), norm (snd kv))) m)
  end.

(* every verbatim text inside the value is a string literal without escapes *)
Fixpoint readable (v : jval) : bool :=
  match v with
  | JTxt t => seqb t (dq :: txt_body t ++ [dq]) && forallb plainb (txt_body t)
  | JArr l => forallb readable l
  | JObj m => forallb (fun kv => readable (snd kv)) m
  | _ => true
  end.

Definition event_readable (e : jevent) : bool :=
  time_text_ok (je_logged_at e)
  && forallb (fun kv => readable (snd kv)) (je_meta_extra e)
  && forallb (fun kv => readable (snd kv)) (je_src_extra e)
  && match je_data e with None => true | Some d => readable d end.

(* what a reader of an event's line gets: the members in the fixed order of the struct, every string sanitised *)
Definition reader_view (e : jevent) : jval :=
  JObj ([ fld "metadata" (JObj (fld "auditId" (JStr (sanitize (je_audit_id e)))
                               :: omit_if (is_nil (je_meta_extra e)) "extra" (norm (jmap (je_meta_extra e)))));
          fld "type" (JStr (sanitize (je_type e)));
          fld "loggedAt" (JStr (je_logged_at e));
          fld "source" (JObj (fld "type" (JStr (sanitize (je_src_type e))) :: fld "value" (JStr (sanitize (je_src_value e)))
                             :: omit_if (is_nil (je_src_extra e)) "extra" (norm (jmap (je_src_extra e)))));
          fld "outcome" (JStr (sanitize (je_outcome e)));
          fld "subjects" (match je_subjects e with None => JNull | Some m => norm (jstr_map m) end);
          fld "component" (JStr (sanitize (je_component e))) ]
        ++ omit_if (is_nil (je_target e)) "target" (norm (jstr_map (je_target e)))
        ++ match je_data e with None => [] | Some d => [fld "data" (norm d)] end).

(* every verbatim text inside a value is well-formed UTF-8 *)
Fixpoint txt_utf8 (v : jval) : bool :=
  match v with
  | JTxt t => valid_utf8 t
  | JArr l => forallb txt_utf8 l
  | JObj m => forallb (fun kv => txt_utf8 (snd kv)) m
  | _ => true
  end.

Definition event_utf8 (e : jevent) : bool :=
  time_text_ok (je_logged_at e)
  && forallb (fun kv => txt_utf8 (snd kv)) (je_meta_extra e)
  && forallb (fun kv => txt_utf8 (snd kv)) (je_src_extra e)
  && match je_data e with None => true | Some d => txt_utf8 d end.

(* ---------- notions used in the statements about the encoding ---------- *)

(* from 0x20 on, and never a raw  &  <  >  *)
Definition out_byte_ok (c : ascii) : bool :=
  (0x20 <=? nb c) && negb (nb c =? 0x26) && negb (nb c =? 0x3C) && negb (nb c =? 0x3E).

(* the order of the keys of a written map *)
Definition klt {V} (a b : str * V) : Prop := str_ltb (fst a) (fst b) = true.

(* a Go map has distinct keys *)
Definition keys_distinct (e : jevent) : Prop :=
  NoDup (map fst (je_meta_extra e)) /\ NoDup (map fst (je_src_extra e)) /\ NoDup (map fst (je_target e)) /\
  match je_subjects e with Some m => NoDup (map fst m) | None => True end.


(* the same Go value: scalar fields equal, every map holding the same entries (listed in any order) *)
Definition same_event (e1 e2 : jevent) : Prop :=
  je_audit_id e1 = je_audit_id e2 /\ je_type e1 = je_type e2 /\ je_logged_at e1 = je_logged_at e2 /\
  je_src_type e1 = je_src_type e2 /\ je_src_value e1 = je_src_value e2 /\ je_outcome e1 = je_outcome e2 /\
  je_component e1 = je_component e2 /\ je_data e1 = je_data e2 /\
  Permutation (je_meta_extra e1) (je_meta_extra e2) /\ Permutation (je_src_extra e1) (je_src_extra e2) /\
  Permutation (je_target e1) (je_target e2) /\
  match je_subjects e1, je_subjects e2 with
  | Some m1, Some m2 => Permutation m1 m2
  | None, None => True
  | _, _ => False
  end.

(* ---------- which JSON the models' event records stand for ---------- *)
From AM Require Model.SshdProc Model.ToEvent.

Definition opt_kv (k : string) (o : option str) : list (str * str) :=
  match o with Some v => [(s2l k, v)] | None => [] end.
Definition opt_jkv (k : string) (o : option str) : list (str * jval) :=
  match o with Some v => [(s2l k, JStr v)] | None => [] end.

(* processors/sshd: the UserLogin event of Model/SshdProc.v; [aid] = the random AuditID drawn by NewAuditEvent,
   [t] = config.when formatted *)
Definition login_view (aid t : str) (e : SshdProc.event) : jevent :=
  {| je_audit_id := aid;
     je_meta_extra := opt_jkv "shell" (SshdProc.ev_shell e);
     je_type := s2l "UserLogin";
     je_logged_at := t;
     je_src_type := s2l "IP";
     je_src_value := SshdProc.ev_src e;
     je_src_extra := opt_jkv "port" (SshdProc.ev_port e) ++ opt_jkv "dns" (SshdProc.ev_dns e);
     je_outcome := if SshdProc.ev_ok e then s2l "succeeded" else s2l "failed";
     je_subjects := Some ([(s2l "loggedAs", SshdProc.ev_logged_as e); (s2l "userID", SshdProc.ev_user_id e);
                           (s2l "pid", SshdProc.ev_pid e)]
                          ++ opt_kv "filePath" (SshdProc.ev_file_path e) ++ opt_kv "keyType" (SshdProc.ev_key_type e)
                          ++ opt_kv "fingerprint" (SshdProc.ev_fingerprint e));
     je_component := s2l "sshd";
     je_target := [(s2l "host", SshdProc.ev_host e); (s2l "machine-id", SshdProc.ev_mid e)];
     je_data := match SshdProc.ev_data e with
                | [] => None
                | d => Some (jstr_map (map (fun kv => (s2l (fst kv), snd kv)) d))
                end |}.

(* aucoalesce.Object: three string fields, each omitempty *)
Definition object_json (o : ToEvent.cobject) : jval :=
  JObj (omit_if (is_nil (ToEvent.ob_type o)) "type" (JStr (ToEvent.ob_type o))
        ++ omit_if (is_nil (ToEvent.ob_primary o)) "primary" (JStr (ToEvent.ob_primary o))
        ++ omit_if (is_nil (ToEvent.ob_secondary o)) "secondary" (JStr (ToEvent.ob_secondary o))).

(* sessiontracker: the UserAction of Model/ToEvent.v; [t] = the event's timestamp formatted *)
Definition action_view (t : str) (a : ToEvent.uaction) : jevent :=
  let id := ToEvent.ua_ident a in
  {| je_audit_id := ToEvent.ua_audit_id a;
     je_meta_extra := [(s2l "action", JStr (ToEvent.ua_action a)); (s2l "how", JStr (ToEvent.ua_how a));
                       (s2l "object", object_json (ToEvent.ua_object a))]
                      ++ match ToEvent.ua_args a with
                         | Some args => [(s2l "process_args", JArr (map JStr args))]
                         | None => []
                         end;
     je_type := ToEvent.ua_type a;
     je_logged_at := t;
     je_src_type := ToEvent.li_src_type id;
     je_src_value := ToEvent.li_src_value id;
     je_src_extra := map (fun kv => (fst kv, JStr (snd kv))) (ToEvent.li_src_extra id);
     je_outcome := ToEvent.ua_outcome a;
     je_subjects := Some (ToEvent.li_subjects id);
     je_component := ToEvent.ua_component a;
     je_target := ToEvent.li_target id;
     je_data := None |}.
