(* Interpretation of the GENERATED entry-point and metrics sketches (Gen/EntryMetrics.v).
   Definitions only.  Everything fails closed (None). *)
From Coq Require Import Ascii String List Bool Arith.
Import ListNotations.
From AM Require Import Lib.Bytes Gen.EntryMetrics.
Open Scope string_scope.

Fixpoint en_lookup (k : string) (l : list (string * eg_src)) : option eg_src :=
  match l with
  | [] => None
  | (k', v) :: r => if String.eqb k k' then Some v else en_lookup k r
  end.

(* a config field that must be one of the two strings of the log entry, handed over unchanged *)
Definition en_string (s : eg_src) (pid msg : str) : option str :=
  match s with
  | FromEntryMessage => Some msg
  | FromEntryPID => Some pid
  | _ => None
  end.

(* what ProcessEntry sees as (config.pid, config.logEntry) for the entry (PID, Message):
   the (tok, line) the model's [process c tok line wok ready] is applied to *)
Definition entry_args (sk : entry_sketch) (entry : str * str) : option (str * str) :=
  let '(pid, msg) := entry in
  if String.eqb (en_callee sk) "ProcessEntry" && en_result_returned sk then
    match en_lookup "pid" (en_config sk), en_lookup "logEntry" (en_config sk) with
    | Some sp, Some sl =>
        match en_string sp pid msg, en_string sl pid msg with
        | Some tok, Some line => Some (tok, line)
        | _, _ => None
        end
    | _, _ => None
    end
  else None.

(* the per-line config takes these fields from the long-lived processor, each from the field of the same name *)
Definition en_inherited (sk : entry_sketch) (fields : list string) : bool :=
  forallb (fun f => match en_lookup f (en_config sk) with
                    | Some (FromReceiver g) => String.eqb f g
                    | _ => false
                    end) fields.

(* ---- metrics ---- *)
Fixpoint vd_find (f : string) (l : list vec_def) : option vec_def :=
  match l with
  | [] => None
  | v :: r => if String.eqb (vd_field v) f then Some v else vd_find f r
  end.

Fixpoint zip_labels (names : list string) (args : list eg_arg) (actuals : list string) : option (list (string * string)) :=
  match names, args with
  | [], [] => Some []
  | n :: ns, ArgParam i :: rest =>
      match nth_error actuals i, zip_labels ns rest actuals with
      | Some a, Some r => Some ((n, a) :: r)
      | _, _ => None
      end
  | _, _ => None
  end.

(* the effect of one call of the sketched method with the given actual parameters:
   (series name, label name -> label value, amount added) *)
Definition inc_effect (sk : inc_sketch) (vecs : list vec_def) (actuals : list string)
  : option (string * string * list (string * string) * nat) :=
  match vd_find (in_counter sk) vecs with
  | Some v =>
      if String.eqb (vd_kind v) "NewCounterVec" && vd_registered v && Nat.eqb (length actuals) (length (in_params sk)) then
        match in_op sk, zip_labels (vd_labels v) (in_label_args sk) actuals with
        | OpInc, Some ls => Some (vd_namespace v, vd_name v, ls, 1)
        | _, _ => None
        end
      else None
  | None => None
  end.

(* constant tables: name -> value must be injective for the model's identification of labels by NAME *)
Fixpoint values_distinct (l : list (string * string)) : bool :=
  match l with
  | [] => true
  | (_, v) :: r => negb (existsb (fun p => String.eqb (snd p) v) r) && values_distinct r
  end.

Definition has_name (n : string) (l : list (string * string)) : bool := existsb (fun p => String.eqb (fst p) n) l.
