(* Correspondence check for the sshd processor: observation format written by harness/sshd
   and its comparison with the model. *)
From Coq Require Import Ascii String List Bool Arith ZArith.
Import ListNotations.
From AM Require Import Lib.Bytes Lib.Regex Gen.SshdDispatch Model.SshdProc.

Inductive oev :=
| OEv (ok : bool) (src : str) (port dns : option str) (logged_as user_id pid : str)
      (file ktype fp shell : option str) (data : list (string * str)) (host mid : str) (lossy : bool).

Inductive scase :=
| SCase (tok line : str) (wok ready : bool) (ret : nat) (evs : list oev)
        (fwds : list (Z * str * bool)) (metrics : list (string * string)).

Definition ostr_eqb (a b : option str) : bool :=
  match a, b with Some x, Some y => seqb x y | None, None => true | _, _ => false end.

Fixpoint data_eqb (a b : list (string * str)) : bool :=
  match a, b with
  | [], [] => true
  | (k, v) :: r, (k', v') :: r' => String.eqb k k' && seqb v v' && data_eqb r r'
  | _, _ => false
  end.

Definition ev_matches (e : event) (o : oev) : bool :=
  let '(OEv ok src port dns la uid pid file kt fp sh data host mid lossy) := o in
  Bool.eqb (ev_ok e) ok && seqb (ev_src e) src && ostr_eqb (ev_port e) port && ostr_eqb (ev_dns e) dns
  && seqb (ev_logged_as e) la && seqb (ev_user_id e) uid && seqb (ev_pid e) pid
  && ostr_eqb (ev_file_path e) file && ostr_eqb (ev_key_type e) kt && ostr_eqb (ev_fingerprint e) fp
  && ostr_eqb (ev_shell e) sh
  && (lossy || data_eqb (ev_data e) data)      (* json.Marshal replaced invalid UTF-8 in the data: not compared *)
  && seqb (ev_host e) host && seqb (ev_mid e) mid.

Fixpoint all2 {A B} (f : A -> B -> bool) (a : list A) (b : list B) : bool :=
  match a, b with
  | [], [] => true
  | x :: r, y :: r' => f x y && all2 f r r'
  | _, _ => false
  end.

Definition fwd_matches (f : fwd) (o : Z * str * bool) : bool :=
  let '(pid, cred, same) := o in Z.eqb (f_pid f) pid && seqb (f_cred f) cred && same.

(* metric labels are compared as multisets (the harness reports counter deltas sorted) *)
Definition label_eqb (a b : string * string) : bool := String.eqb (fst a) (fst b) && String.eqb (snd a) (snd b).
Fixpoint remove_one (x : string * string) (l : list (string * string)) : option (list (string * string)) :=
  match l with
  | [] => None
  | y :: r => if label_eqb x y then Some r else option_map (cons y) (remove_one x r)
  end.
Fixpoint multiset_eqb (a b : list (string * string)) : bool :=
  match a with
  | [] => match b with [] => true | _ => false end
  | x :: r => match remove_one x b with Some b' => multiset_eqb r b' | None => false end
  end.

Definition ret_code (r : ret) : nat := match r with RetOk => 0 | RetWriteErr => 1 | RetPanic => 2 end.

Definition cfg0 : cfg := {| c_node := s2l "node-7"; c_mid := s2l "mid-0123" |}.

Definition case_ok (c : scase) : bool :=
  let '(SCase tok line wok ready rc evs fwds ms) := c in
  let r := process cfg0 tok line wok ready in
  Nat.eqb (ret_code (r_ret r)) rc && all2 ev_matches (r_writes r) evs && all2 fwd_matches (r_forwards r) fwds
  && multiset_eqb (r_metrics r) ms.

Fixpoint mism_from {A} (f : A -> bool) (i : nat) (cs : list A) : list nat :=
  match cs with
  | [] => []
  | c :: r => if f c then mism_from f (S i) r else i :: mism_from f (S i) r
  end.

Definition mismatches (cs : list scase) : list nat := mism_from case_ok 0 cs.
